package simlib

import (
	"encoding/binary"
	"fmt"
	"math/big"
	"os"
	"sort"
	"time"

	storetypes "cosmossdk.io/store/types"
	"github.com/cosmos/gogoproto/proto"

	"github.com/osmosis-labs/osmosis/osmomath"
	"github.com/osmosis-labs/osmosis/osmoutils/sumtree"

	"verif/harness/simcore"
)

// SumtreeEngine (C16): real osmoutils/sumtree over a simulated store, checked
// after every operation against a sorted map.
type SumtreeEngine struct{}

func init() { simcore.Register(SumtreeEngine{}) }

func (SumtreeEngine) Name() string    { return "sumtree" }
func (SumtreeEngine) Props() []string { return []string{"C16"} }
func (SumtreeEngine) Budget(tier, prop string) (int, int) {
	if tier == "thorough" {
		return 40000, 1200
	}
	return 4000, 150
}
func (SumtreeEngine) Describe() simcore.Description {
	return simcore.Description{
		Real: []string{"osmoutils/sumtree (Tree, ptr, Node: Set/Increase/Decrease/Remove/Clear, Get, PrefixSum, SubsetAccumulation, SplitAcc, TotalAccumulatedValue, Iterator, ReverseIterator)", "cosmossdk.io/store cachekv + dbadapter over cosmos-db MemDB"},
		Stub: []string{"IAVL / gas-metered store: replaced by a counting store that aborts an operation at a seeded store access"},
		Rule: "one run = one tree (fan-out drawn per run) driven by a seeded sequence of set/increase/decrease/remove/clear over an adversarial key alphabet (every 16th run instead a wide-node configuration: fan-out 64..255 with bulk inserts/removals of up to 700 dense keys so that nodes of the largest capacity fill, split and merge), each in its own store transaction, with seeded aborts (panic at the k-th store access, or roll-back after success); after every step all queries over the whole alphabet and the tree's stored structure are compared with a sorted map. A fifth of the runs use only a prefix-closed key family (every string over two letters of length 1-4) with removal sweeps that start in the middle of the key order; 12% are a structure-aware merge scenario: ascending inserts (node boundaries follow from the split rule), then one first-level node whose key is a prefix of its right neighbour's key is emptied largest-child-first after its neighbours have been thinned.",
		Assumptions: []string{
			"the tree is obtained through NewTree, whose documented behaviour is to create the empty-key leaf with value 0 when it is missing; the reference map does the same",
			"subset sums are only queried for start <= end",
		},
	}
}

var sumtreeKeys = func() [][]byte {
	ks := [][]byte{{}, {0}, {0, 0}, []byte("a"), []byte("ab"), []byte("abc"), []byte("abd"), []byte("b"), {0xff}, {0xff, 0xff}}
	for _, d := range []time.Duration{time.Nanosecond, time.Second, time.Hour, 24 * time.Hour, 7 * 24 * time.Hour, 14 * 24 * time.Hour, 14*24*time.Hour + 1} {
		b := make([]byte, 8)
		binary.BigEndian.PutUint64(b, uint64(d))
		ks = append(ks, b)
	}
	// a run of dense 2-byte keys to force several levels
	for i := 0; i < 40; i++ {
		ks = append(ks, []byte{'k', byte(i * 5)})
	}
	// a family closed under prefixes (every string over {n,o} of length 1..4): with a small fan-out the keys of
	// neighbouring internal nodes are prefixes of one another on every level
	sumtreeNestedBase = len(ks)
	for l := 1; l <= 4; l++ {
		for v := 0; v < 1<<uint(l); v++ {
			b := make([]byte, l)
			for j := 0; j < l; j++ {
				b[j] = 'n' + byte((v>>uint(l-1-j))&1)
			}
			ks = append(ks, b)
		}
	}
	return ks
}()

var sumtreeNestedBase int

// sumtreeKey maps a step argument to a key: small values index the alphabet, values from 1000 up name the
// dense run of 3-byte keys used by the wide-node configurations (enough distinct keys to overflow a node of
// any capacity the uint8 fan-out allows).
func sumtreeKey(arg int64) []byte {
	if arg >= 1000 {
		i := arg - 1000
		return []byte{'w', byte(i >> 8), byte(i)}
	}
	if arg < 0 {
		arg = -arg
	}
	return sumtreeKeys[int(arg)%len(sumtreeKeys)]
}

// generateWide is the wide-node configuration: a fan-out near the top of the uint8 range and enough keys,
// inserted in bulk, to fill and split such nodes; then ordinary operations and bulk removals on top.
func generateWide(r *simcore.RNG, tier string, p *simcore.Plan) *simcore.Plan {
	ms := []int64{64, 100, 127, 128, 129, 200, 254, 255}
	m := ms[r.Intn(len(ms))]
	p.Config["m"] = m
	p.Config["wide"] = 1
	p.Config["fresh"] = int64(r.Intn(2))
	var count int64
	switch r.Intn(4) {
	case 0:
		count = m + r.Range(-3, 3)
	case 1:
		count = 2*m + r.Range(-3, 3)
	case 2:
		count = r.Range(m, 3*m)
	default:
		count = r.Range(m/2, m+m/2)
	}
	if count > 700 {
		count = 700
	}
	stride := int64(1)
	if r.Chance(0.3) {
		stride = r.Range(2, 5)
	}
	amt := r.Range(1, 1000000)
	p.Steps = append(p.Steps, simcore.Step{Op: "bulk", A: []int64{0, count, stride}, S: []string{fmt.Sprint(amt)}})
	n := int(r.Range(3, 30))
	for i := 0; i < n; i++ {
		st := simcore.Step{}
		k := 1000 + r.Range(0, count*stride+4)
		if r.Chance(0.2) {
			k = int64(r.Intn(len(sumtreeKeys)))
		}
		a := big.NewInt(r.Range(0, 1000000))
		switch r.Weighted([]int{30, 15, 10, 25, 10, 10}) {
		case 0:
			st = simcore.Step{Op: "set", A: []int64{k}}
		case 1:
			st = simcore.Step{Op: "inc", A: []int64{k}}
		case 2:
			st = simcore.Step{Op: "dec", A: []int64{k}}
		case 3:
			st = simcore.Step{Op: "rm", A: []int64{k}}
		case 4:
			st = simcore.Step{Op: "bulk", A: []int64{r.Range(0, count*stride), r.Range(1, m+3), r.Range(1, 3)}}
		case 5:
			st = simcore.Step{Op: "bulkrm", A: []int64{r.Range(0, count*stride), r.Range(1, m+3), r.Range(1, 3)}}
		}
		st.S = []string{a.String()}
		if r.Chance(0.1) {
			if r.Chance(0.3) {
				st.F = "abort"
			} else {
				st.F = fmt.Sprintf("oog:%d", r.Range(1, 400))
			}
		}
		p.Steps = append(p.Steps, st)
	}
	return p
}

func (SumtreeEngine) Generate(r *simcore.RNG, tier string, idx int) *simcore.Plan {
	p := &simcore.Plan{Config: map[string]int64{}}
	if idx%16 == 15 {
		return generateWide(r, tier, p)
	}
	ms := []int64{2, 3, 4, 5, 8, 16, 32, 255}
	p.Config["m"] = ms[r.Intn(len(ms))]
	if r.Chance(0.5) {
		p.Config["m"] = r.Range(2, 16)
	}
	p.Config["fresh"] = int64(r.Intn(2)) // 1: NewTree per operation (as lockup does)
	nkeys := []int{4, 8, 17, len(sumtreeKeys)}[r.Intn(4)]
	base := 0
	if r.Chance(0.2) {
		// only the prefix-closed family, small fan-out
		base, nkeys = sumtreeNestedBase, len(sumtreeKeys)-sumtreeNestedBase
		p.Config["m"] = r.Range(2, 5)
	}
	structured := r.Chance(0.12) || os.Getenv("VERIF_C16_STRUCT") != "" // (the variable forces the scenario, for diagnosis)
	if structured {
		base, nkeys = sumtreeNestedBase, len(sumtreeKeys)-sumtreeNestedBase
	}
	if structured {
		// structure-aware merge scenario: after ascending inserts every node but the last holds m/2+1 children, so the
		// node boundaries are known. One node is emptied (largest child first) after its left neighbour and the nodes
		// two and three to its right have been thinned to one or two children: a merge with the right sibling is due,
		// and the sibling's key often extends the emptied node's key (all extensions of one prefix are in the key set).
		m := []int64{4, 5, 6, 7, 8, 4, 6}[r.Intn(7)]
		p.Config["m"] = m
		c := int(m/2 + 1)
		// key set: a prefix pi ("no" or "on") with its extensions, padded on the left with just as many smaller keys
		// that pi becomes the first child of a node, and followed by larger keys that do not extend pi
		pi := []string{"no", "on"}[r.Intn(2)]
		var smaller, desc, larger []int
		for i := 0; i < nkeys; i++ {
			k := string(sumtreeKeys[base+i])
			switch {
			case len(k) >= 2 && k[:2] == pi:
				if k == pi || r.Chance(0.85) {
					desc = append(desc, base+i)
				}
			case k < pi:
				smaller = append(smaller, base+i)
			default:
				larger = append(larger, base+i)
			}
		}
		pad := c - 1
		if r.Chance(0.4) {
			pad += c
		}
		for len(smaller) > pad {
			x := r.Intn(len(smaller))
			smaller = append(smaller[:x], smaller[x+1:]...)
		}
		for want := int(r.Range(2, int64(2*c))); len(larger) > want; {
			x := r.Intn(len(larger))
			larger = append(larger[:x], larger[x+1:]...)
		}
		fam := append(append(append([]int{}, smaller...), desc...), larger...)
		sort.Slice(fam, func(a, b int) bool { return cmpBytes(sumtreeKeys[fam[a]], sumtreeKeys[fam[b]]) < 0 })
		if max := c - 1 + (int(m)-1)*c; len(fam) > max { // at most m nodes on the first level: one root above them
			fam = fam[:max]
		}
		amt := func() string { return fmt.Sprint(r.Range(1, 1000000)) }
		for _, k := range fam {
			p.Steps = append(p.Steps, simcore.Step{Op: "inc", A: []int64{int64(k)}, S: []string{amt()}})
		}
		// node j >= 1 holds fam[c-1+(j-1)c : c-1+jc); node 0 holds the empty key and fam[:c-1]
		bounds := func(j int) (int, int) {
			if j == 0 {
				return 0, c - 1
			}
			return c - 1 + (j-1)*c, c - 1 + j*c
		}
		nodes := 1 + (len(fam)-(c-1)+c-1)/c
		thin := func(j, keep int) {
			lo, hi := bounds(j)
			if j == 0 {
				keep-- // the empty key stays
			}
			for x := hi - 1; x >= lo+keep && x >= 0; x-- {
				if x < len(fam) {
					p.Steps = append(p.Steps, simcore.Step{Op: "rm", A: []int64{int64(fam[x])}, S: []string{"0"}})
				}
			}
		}
		if nodes >= 3 {
			j := 1 + r.Intn(nodes-2)
			// prefer a node whose key is a proper prefix of its right neighbour's key
			var cand []int
			for x := 1; x+1 < nodes; x++ {
				lo, _ := bounds(x)
				lo2, _ := bounds(x + 1)
				if lo2 < len(fam) {
					a, b := sumtreeKeys[fam[lo]], sumtreeKeys[fam[lo2]]
					if len(b) > len(a) && string(b[:len(a)]) == string(a) {
						cand = append(cand, x)
					}
				}
			}
			if len(cand) > 0 && r.Chance(0.8) {
				j = cand[r.Intn(len(cand))]
			}
			if os.Getenv("VERIF_C16_STRUCT") == "2" {
				var names []string
				for _, k := range fam {
					names = append(names, string(sumtreeKeys[k]))
				}
				fmt.Fprintf(os.Stderr, "STRUCT m=%d c=%d nodes=%d j=%d cand=%v fam=%v\n", m, c, nodes, j, cand, names)
			}
			thin(j-1, 1+r.Intn(2))
			if r.Chance(0.8) {
				thin(j+2, 1+r.Intn(2))
			}
			if r.Chance(0.5) {
				thin(j+3, 1+r.Intn(2))
			}
			thin(j, 0)
		}
		for e := int(r.Range(2, 8)); e > 0; e-- {
			p.Steps = append(p.Steps, simcore.Step{Op: []string{"set", "inc", "dec", "inc"}[r.Intn(4)], A: []int64{int64(fam[r.Intn(len(fam))])}, S: []string{amt()}})
		}
		return p
	}
	if base > 0 && r.Chance(0.6) {
		// range sweeps over the prefix-closed family: every key is inserted in ascending order (all nodes but the last
		// stay half full), then short runs of neighbouring keys are removed from the largest down - a node is emptied
		// without ever losing its first child first, while both of its neighbours are still there - and some are re-inserted
		p.Config["m"] = []int64{3, 5, 3, 5, 2, 4, 7}[r.Intn(7)]
		sorted := make([]int, nkeys)
		for i := range sorted {
			sorted[i] = base + i
		}
		if r.Chance(0.7) {
			// a small tree (two levels): a random subset of the family
			for a := len(sorted) - 1; a > 0; a-- {
				b := r.Intn(a + 1)
				sorted[a], sorted[b] = sorted[b], sorted[a]
			}
			nkeys = int(r.Range(6, 16))
			sorted = sorted[:nkeys]
		}
		sort.Slice(sorted, func(a, b int) bool { return cmpBytes(sumtreeKeys[sorted[a]], sumtreeKeys[sorted[b]]) < 0 })
		amt := func() string { return fmt.Sprint(r.Range(1, 1000000)) }
		for _, k := range sorted {
			if r.Chance(0.9) {
				p.Steps = append(p.Steps, simcore.Step{Op: "inc", A: []int64{int64(k)}, S: []string{amt()}})
			}
		}
		rounds := int(r.Range(3, 9))
		rm := func(j int) {
			if j >= 0 && j < nkeys {
				p.Steps = append(p.Steps, simcore.Step{Op: "rm", A: []int64{int64(sorted[j])}, S: []string{"0"}})
			}
		}
		for q := 0; q < rounds; q++ {
			// thin out what lies to the right (beyond a gap) and to the left of a short run, then remove the run itself:
			// the node it empties then has small neighbours on both sides (a merge is due) while the keys in the gap stay
			i, l := r.Intn(nkeys), int(r.Range(1, 5))
			gap, rl, ll := int(r.Range(1, 7)), int(r.Range(0, 3)), int(r.Range(0, 3))
			for j := i + l + gap + rl - 1; j >= i+l+gap; j-- {
				rm(j)
			}
			for j := i - 1; j >= i-ll; j-- {
				rm(j)
			}
			for j := i + l - 1; j >= i; j-- {
				rm(j)
			}
			for e := int(r.Range(0, 3)); e > 0; e-- {
				p.Steps = append(p.Steps, simcore.Step{Op: []string{"set", "inc", "dec"}[r.Intn(3)], A: []int64{int64(sorted[r.Intn(nkeys)])}, S: []string{amt()}})
			}
			if r.Chance(0.3) {
				for _, k := range sorted { // refill in ascending order
					if r.Chance(0.7) {
						p.Steps = append(p.Steps, simcore.Step{Op: "set", A: []int64{int64(k)}, S: []string{amt()}})
					}
				}
			}
		}
		return p
	}
	faults := r.Chance(0.5)
	n := int(r.Range(5, 80))
	if tier == "thorough" && r.Chance(0.3) {
		n = int(r.Range(80, 300))
	}
	// phases bias insert-heavy then remove-heavy to force splits and merges
	// alphabet indices in byte order, for ordered removal sweeps
	order := make([]int, nkeys)
	for i := range order {
		order[i] = base + i
	}
	sort.Slice(order, func(a, b int) bool { return cmpBytes(sumtreeKeys[order[a]], sumtreeKeys[order[b]]) < 0 })
	sweep := r.Chance(0.5) // remove phases walk the keys from the largest down (empties nodes without touching first children early)
	sweepPos := nkeys - 1
	if sweep && r.Chance(0.5) {
		sweepPos = r.Intn(nkeys) // ... or from somewhere in the middle down, so that nodes are emptied while their right neighbours stay
	}
	for i := 0; i < n; i++ {
		phaseRemove := (i*3/n)%2 == 1
		w := []int{40, 20, 10, 15, 1}
		if phaseRemove {
			w = []int{10, 8, 8, 60, 1}
		}
		st := simcore.Step{}
		k := int64(base + r.Intn(nkeys))
		var amt *big.Int
		switch r.Intn(4) {
		case 0:
			amt = big.NewInt(r.Range(0, 3))
		case 1:
			amt = r.Magnitude(0, 30)
		default:
			amt = big.NewInt(r.Range(1, 1000000))
		}
		switch r.Weighted(w) {
		case 0:
			st.Op = "set"
		case 1:
			st.Op = "inc"
		case 2:
			st.Op = "dec"
		case 3:
			st.Op = "rm"
			if sweep && sweepPos > 0 {
				k = int64(order[sweepPos])
				sweepPos--
			}
		case 4:
			st.Op = "clear"
		}
		st.A = []int64{k}
		st.S = []string{amt.String()}
		if faults && r.Chance(0.2) {
			if r.Chance(0.3) {
				st.F = "abort"
			} else {
				st.F = fmt.Sprintf("oog:%d", r.Range(1, 40))
			}
		}
		p.Steps = append(p.Steps, st)
	}
	return p
}

type refMap map[string]*big.Int

func (m refMap) sortedKeys() []string {
	ks := make([]string, 0, len(m))
	for k := range m {
		ks = append(ks, k)
	}
	sort.Strings(ks)
	return ks
}

func (SumtreeEngine) Execute(run *simcore.Run) {
	p := run.Plan
	m := uint8(p.Cfg("m", 4))
	fresh := p.Cfg("fresh", 0) == 1
	base := NewBaseStore()
	ref := refMap{}
	ensureNil := func() {
		if _, ok := ref[""]; !ok {
			ref[""] = new(big.Int)
		}
	}
	// constructor on the durable store (its write is part of setup)
	long := sumtree.NewTree(base, m)
	_ = long
	ensureNil()
	run.Logf("m=%d fresh=%v", m, fresh)
	taint := "" // sticky: a documented known-finding precondition was reached (see known_findings.jsonl)

	for i, st := range p.Steps {
		run.StepIdx = i
		key := sumtreeKey(st.Arg(0))
		amt, _ := new(big.Int).SetString(st.Str(0), 10)
		if amt == nil {
			amt = big.NewInt(1)
		}
		type bulkKV struct {
			k []byte
			v *big.Int
		}
		var bulk []bulkKV
		if st.Op == "bulk" || st.Op == "bulkrm" {
			cnt, stride := st.Arg(1), st.Arg(2)
			if cnt < 0 {
				cnt = -cnt
			}
			if cnt > 800 {
				cnt = 800
			}
			if stride < 1 {
				stride = 1
			}
			start := st.Arg(0)
			if start < 0 {
				start = -start
			}
			for j := int64(0); j < cnt; j++ {
				bulk = append(bulk, bulkKV{sumtreeKey(1000 + (start+j*stride)%60000), new(big.Int).Add(amt, big.NewInt(j))})
			}
		}
		fk, fn := simcore.ParseFault(st.F)
		before := Digest(base)
		// the constructor's "create empty-key leaf" runs inside the txn too
		refNilBefore := ref[""] != nil
		outcome, _, pv, acc := Txn(base, int(map[bool]int64{true: fn, false: 0}[fk == "oog"]), fk == "abort", func(s storetypes.KVStore) error {
			t := sumtree.NewTree(s, m)
			switch st.Op {
			case "set":
				t.Set(key, osmomath.NewIntFromBigInt(amt))
			case "inc":
				t.Increase(key, osmomath.NewIntFromBigInt(amt))
			case "dec":
				t.Decrease(key, osmomath.NewIntFromBigInt(amt))
			case "rm":
				t.Remove(key)
			case "clear":
				t.Clear()
			case "bulk", "bulkrm":
				for _, bk := range bulk {
					if st.Op == "bulk" {
						t.Set(bk.k, osmomath.NewIntFromBigInt(bk.v))
					} else {
						t.Remove(bk.k)
					}
				}
			}
			return nil
		})
		run.Event(st.Op, outcome)
		run.Logf("%d %s key=%x amt=%s -> %s acc=%d", i, st.Op, key, amt, outcome, acc)
		switch outcome {
		case "panic":
			sumtreeFail(run, taint, "op-panics", st.Op, "operation %s panicked: %v", st.Op, pv)
			return
		case "oog", "abort":
			run.Fault(outcome)
			if Digest(base) != before {
				run.Fail("C16", "rollback", st.Op, "aborted operation changed the durable store")
				return
			}
		case "ok":
			if !refNilBefore {
				ensureNil() // NewTree inside the transaction re-created the empty-key leaf
			}
			switch st.Op {
			case "set":
				ref[string(key)] = new(big.Int).Set(amt)
			case "inc", "dec":
				d := new(big.Int).Set(amt)
				if st.Op == "dec" {
					d.Neg(d)
				}
				cur := ref[string(key)]
				if cur == nil {
					cur = new(big.Int)
				}
				ref[string(key)] = new(big.Int).Add(cur, d)
			case "rm":
				if _, had := ref[string(key)]; had && len(key) == 0 && taint == "" {
					taint = "sentinel-removed"
					run.Probe("sentinel-removed")
				}
				delete(ref, string(key))
			case "bulk":
				for _, bk := range bulk {
					ref[string(bk.k)] = bk.v
				}
			case "bulkrm":
				for _, bk := range bulk {
					delete(ref, string(bk.k))
				}
			case "clear":
				for k := range ref {
					delete(ref, k)
				}
				if taint == "" {
					taint = "sentinel-removed"
					run.Probe("sentinel-removed")
				}
			}
		}
		if taint == "" && sumtreeStaleSeparator(base) {
			taint = "stale-separator"
			run.Probe("stale-separator")
		}
		// queries: through a fresh tree on a throw-away branch (NewTree may write) or the long-lived handle
		var t sumtree.Tree
		var qs storetypes.KVStore = base
		if fresh {
			qs = Branch(base)
			t = sumtree.NewTree(qs, m)
		} else {
			t = long
		}
		nk := len(run.KnownHits)
		sumtreeOracle(run, t, qs, ref, fresh, st.Op, taint)
		if run.Stop() || len(run.KnownHits) > nk {
			return
		}
	}
}

// sumtreeFail reports under the known-finding key C16/remove-defect/<taint>
// once a documented known-finding precondition was reached in this run, and
// under the specific oracle otherwise.
func sumtreeFail(run *simcore.Run, taint, oracle, op, format string, a ...interface{}) {
	if taint != "" {
		run.Fail("C16", "remove-defect", taint, "["+oracle+" after "+op+"] "+format, a...)
		return
	}
	run.Fail("C16", oracle, op, format, a...)
}

// sumtreeStaleSeparator reports whether some internal node's key differs from
// its first child's key. Inserts preserve "node key == first child key"; only
// removing a node's first child breaks it (known finding KF-C16-1).
func sumtreeStaleSeparator(s storetypes.KVStore) bool {
	it := s.Iterator(nil, nil)
	defer it.Close()
	for ; it.Valid(); it.Next() {
		k := it.Key()
		if len(k) < 7 || binary.BigEndian.Uint16(k[5:7]) == 0 {
			continue
		}
		var n sumtree.Node
		if proto.Unmarshal(it.Value(), &n) != nil || len(n.Children) == 0 {
			continue
		}
		if string(n.Children[0].Index) != string(k[7:]) {
			return true
		}
	}
	return false
}

// sumtreeOracle compares every query with the sorted map and checks the
// stored structure.
func sumtreeOracle(run *simcore.Run, t sumtree.Tree, s storetypes.KVStore, ref refMap, fresh bool, op, taint string) {
	model := refMap{}
	for k, v := range ref {
		model[k] = v
	}
	if fresh {
		if _, ok := model[""]; !ok {
			model[""] = new(big.Int)
		}
	}
	ks := model.sortedKeys()
	if len(ks) == 0 {
		run.Probe("tree-totally-empty")
	}
	fail := func(oracle, format string, a ...interface{}) {
		sumtreeFail(run, taint, oracle, op, format, a...)
	}
	defer func() {
		if x := recover(); x != nil {
			sumtreeFail(run, taint, "query-panics", op, "query panicked with %d keys in the map: %v", len(ks), x)
		}
	}()
	sum := func(lo, hi []byte, loIncl, hiIncl bool, useLo, useHi bool) *big.Int {
		z := new(big.Int)
		for _, k := range ks {
			kb := []byte(k)
			if useLo {
				c := cmpBytes(kb, lo)
				if c < 0 || (c == 0 && !loIncl) {
					continue
				}
			}
			if useHi {
				c := cmpBytes(kb, hi)
				if c > 0 || (c == 0 && !hiIncl) {
					continue
				}
			}
			z.Add(z, model[k])
		}
		return z
	}
	total := sum(nil, nil, false, false, false, false)
	if got := t.TotalAccumulatedValue().BigInt(); got.Cmp(total) != 0 {
		fail("total", "TotalAccumulatedValue=%s, sorted map says %s", got, total)
		return
	}
	// probe set: all alphabet keys (members and non-members), plus a rotating sample of the wide run's keys
	// and their neighbours when the map holds any
	probes := sumtreeKeys
	if wide := sumtreeWideSample(ks, run.StepIdx); len(wide) > 0 {
		probes = append(append([][]byte{}, sumtreeKeys...), wide...)
	}
	for _, k := range probes {
		want := model[string(k)]
		if want == nil {
			want = new(big.Int)
		}
		if got := t.Get(k).BigInt(); got.Cmp(want) != 0 {
			fail("get", "Get(%x)=%s want %s", k, got, want)
			return
		}
		if got, want := t.PrefixSum(k).BigInt(), sum(nil, k, false, true, false, true); got.Cmp(want) != 0 {
			fail("prefix-sum", "PrefixSum(%x)=%s want %s", k, got, want)
			return
		}
		l, e, r := t.SplitAcc(k)
		wl, we, wr := sum(nil, k, false, false, false, true), want, sum(k, nil, false, false, true, false)
		if l.BigInt().Cmp(wl) != 0 || e.BigInt().Cmp(we) != 0 || r.BigInt().Cmp(wr) != 0 {
			fail("split", "SplitAcc(%x)=(%s,%s,%s) want (%s,%s,%s)", k, l, e, r, wl, we, wr)
			return
		}
		if got, want := t.SubsetAccumulation(k, nil).BigInt(), sum(k, nil, true, false, true, false); got.Cmp(want) != 0 {
			fail("subset", "SubsetAccumulation(%x,nil)=%s want %s", k, got, want)
			return
		}
	}
	// pairs: a subset of the alphabet (every 3rd key rotating) to keep cost bounded
	off := run.StepIdx % 3
	for i := off; i < len(sumtreeKeys); i += 3 {
		for j := 0; j < len(sumtreeKeys); j += 2 {
			a, b := sumtreeKeys[i], sumtreeKeys[j]
			if cmpBytes(a, b) > 0 {
				continue
			}
			if got, want := t.SubsetAccumulation(a, b).BigInt(), sum(a, b, true, true, true, true); got.Cmp(want) != 0 {
				fail("subset", "SubsetAccumulation(%x,%x)=%s want %s", a, b, got, want)
				return
			}
		}
	}
	// ordered iteration, forward and reverse, whole range and a sub-range
	type kv struct {
		k string
		v *big.Int
	}
	collect := func(it storetypes.Iterator) []kv {
		defer it.Close()
		var out []kv
		for ; it.Valid(); it.Next() {
			var leaf sumtree.Leaf
			if err := proto.Unmarshal(it.Value(), &leaf); err != nil {
				panic(err)
			}
			out = append(out, kv{string(it.Key()[7:]), leaf.Leaf.Accumulation.BigInt()})
			if string(leaf.Leaf.Index) != string(it.Key()[7:]) {
				fail("iter", "leaf stored under %x carries index %x", it.Key()[7:], leaf.Leaf.Index)
			}
		}
		return out
	}
	expect := func(lo, hi []byte, rev bool) []kv {
		var out []kv
		for _, k := range ks {
			if lo != nil && cmpBytes([]byte(k), lo) < 0 {
				continue
			}
			if hi != nil && cmpBytes([]byte(k), hi) >= 0 {
				continue
			}
			out = append(out, kv{k, model[k]})
		}
		if rev {
			for i, j := 0, len(out)-1; i < j; i, j = i+1, j-1 {
				out[i], out[j] = out[j], out[i]
			}
		}
		return out
	}
	same := func(a, b []kv) bool {
		if len(a) != len(b) {
			return false
		}
		for i := range a {
			if a[i].k != b[i].k || a[i].v.Cmp(b[i].v) != 0 {
				return false
			}
		}
		return true
	}
	lo := sumtreeKeys[(run.StepIdx*7)%len(sumtreeKeys)]
	hi := sumtreeKeys[(run.StepIdx*11+3)%len(sumtreeKeys)]
	if cmpBytes(lo, hi) > 0 {
		lo, hi = hi, lo
	}
	if got, want := collect(t.Iterator(nil, nil)), expect(nil, nil, false); !same(got, want) {
		fail("iter", "forward iteration has %d entries, sorted map %d (or order/values differ)", len(got), len(want))
		return
	}
	if got, want := collect(t.ReverseIterator(nil, nil)), expect(nil, nil, true); !same(got, want) {
		fail("iter", "reverse iteration differs from sorted map")
		return
	}
	if len(lo) > 0 { // a nil/empty begin means "from the start" for store iterators
		if got, want := collect(t.Iterator(lo, hi)), expect(lo, hi, false); !same(got, want) {
			fail("iter", "forward range iteration [%x,%x) differs: got %d want %d", lo, hi, len(got), len(want))
			return
		}
		if got, want := collect(t.ReverseIterator(lo, hi)), expect(lo, hi, true); !same(got, want) {
			fail("iter", "reverse range iteration [%x,%x) differs", lo, hi)
			return
		}
	}
	sumtreeStructure(run, s, model, op, taint)
}

// sumtreeWideSample picks up to ~40 probe keys around the wide run's members: every n-th member (rotating with
// the step), its successor key (mostly a non-member) and the first and last member.
func sumtreeWideSample(ks []string, step int) [][]byte {
	var w []string
	for _, k := range ks {
		if len(k) == 3 && k[0] == 'w' {
			w = append(w, k)
		}
	}
	if len(w) == 0 {
		return nil
	}
	every := len(w)/20 + 1
	var out [][]byte
	for i := step % every; i < len(w); i += every {
		k := []byte(w[i])
		out = append(out, k)
		n := (int(k[1])<<8 | int(k[2])) + 1
		out = append(out, []byte{'w', byte(n >> 8), byte(n)})
	}
	out = append(out, []byte(w[0]), []byte(w[len(w)-1]))
	return out
}

// sumtreeStructure reads the stored nodes directly: node keys are
// "node/" + level(2, big endian) + key.
func sumtreeStructure(run *simcore.Run, s storetypes.KVStore, model refMap, op, taint string) {
	type nodeRec struct {
		level    uint16
		key      string
		children []*sumtree.Child
		leaf     *big.Int
	}
	nodes := map[string]*nodeRec{}
	id := func(level uint16, key string) string { return fmt.Sprintf("%d/%s", level, key) }
	it := s.Iterator(nil, nil)
	maxLevel := uint16(0)
	for ; it.Valid(); it.Next() {
		k := it.Key()
		if len(k) < 7 || string(k[:5]) != "node/" {
			it.Close()
			sumtreeFail(run, taint, "structure", op, "foreign key %x in tree store", k)
			return
		}
		lvl := binary.BigEndian.Uint16(k[5:7])
		rec := &nodeRec{level: lvl, key: string(k[7:])}
		if lvl == 0 {
			var leaf sumtree.Leaf
			if err := proto.Unmarshal(it.Value(), &leaf); err != nil {
				it.Close()
				sumtreeFail(run, taint, "structure", op, "leaf does not decode: %v", err)
				return
			}
			rec.leaf = leaf.Leaf.Accumulation.BigInt()
		} else {
			var n sumtree.Node
			if err := proto.Unmarshal(it.Value(), &n); err != nil {
				it.Close()
				sumtreeFail(run, taint, "structure", op, "node does not decode: %v", err)
				return
			}
			rec.children = n.Children
		}
		if lvl > maxLevel {
			maxLevel = lvl
		}
		nodes[id(lvl, rec.key)] = rec
	}
	it.Close()
	run.Max("max/tree-levels", int64(maxLevel))
	if maxLevel >= 3 {
		run.Probe("tree-3-levels")
	}
	// leaves == model
	nleaves := 0
	for _, n := range nodes {
		if n.level == 0 {
			nleaves++
			w, ok := model[n.key]
			if !ok || w.Cmp(n.leaf) != 0 {
				sumtreeFail(run, taint, "structure", op, "stored leaf %x=%s not in sorted map (map has %v)", n.key, n.leaf, w)
				return
			}
		}
	}
	if nleaves != len(model) {
		sumtreeFail(run, taint, "structure", op, "%d stored leaves, sorted map has %d", nleaves, len(model))
		return
	}
	// every internal node: non-empty, children sorted, each child exists one level below,
	// child accumulation == accumulation of that subtree; every non-root node has exactly one parent.
	var subtree func(n *nodeRec) *big.Int
	subtree = func(n *nodeRec) *big.Int {
		if n.level == 0 {
			return n.leaf
		}
		z := new(big.Int)
		for _, c := range n.children {
			z.Add(z, c.Accumulation.BigInt())
		}
		return z
	}
	referenced := map[string]int{}
	for _, n := range nodes {
		if n.level == 0 {
			continue
		}
		if len(n.children) == 0 {
			sumtreeFail(run, taint, "structure", op, "empty internal node level=%d key=%x", n.level, n.key)
			return
		}
		for i, c := range n.children {
			if i > 0 && cmpBytes(n.children[i-1].Index, c.Index) >= 0 {
				sumtreeFail(run, taint, "structure", op, "children of node level=%d key=%x not strictly sorted", n.level, n.key)
				return
			}
			ch := nodes[id(n.level-1, string(c.Index))]
			if ch == nil {
				sumtreeFail(run, taint, "structure", op, "node level=%d key=%x references missing child %x", n.level, n.key, c.Index)
				return
			}
			referenced[id(ch.level, ch.key)]++
			if subtree(ch).Cmp(c.Accumulation.BigInt()) != 0 {
				sumtreeFail(run, taint, "structure", op, "aggregate for child %x at level %d is %s but the child's subtree sums to %s", c.Index, n.level, c.Accumulation, subtree(ch))
				return
			}
		}
	}
	roots := 0
	for k, n := range nodes {
		switch referenced[k] {
		case 0:
			if n.level != maxLevel {
				sumtreeFail(run, taint, "structure", op, "orphan node level=%d key=%x (tree height %d)", n.level, n.key, maxLevel)
				return
			}
			roots++
		case 1:
		default:
			sumtreeFail(run, taint, "structure", op, "node level=%d key=%x has %d parents", n.level, n.key, referenced[k])
			return
		}
	}
	if len(nodes) > 0 && roots != 1 {
		sumtreeFail(run, taint, "structure", op, "%d roots at level %d", roots, maxLevel)
	}
}
