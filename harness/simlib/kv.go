// Package simlib holds the L0 engines: real osmoutils/accum, osmoutils/sumtree
// and x/epochs code over a simulated store, clock and fault-injecting subscribers.
package simlib

import (
	"bytes"
	"crypto/sha256"
	"fmt"

	"cosmossdk.io/store/cachekv"
	"cosmossdk.io/store/dbadapter"
	storetypes "cosmossdk.io/store/types"
	dbm "github.com/cosmos/cosmos-db"
)

// NewBaseStore returns an in-memory KV store (the durable state of an L0 run).
func NewBaseStore() storetypes.KVStore {
	return dbadapter.Store{DB: dbm.NewMemDB()}
}

// Branch opens a transaction on top of parent; Write() commits it, dropping it aborts.
func Branch(parent storetypes.KVStore) *cachekv.Store {
	return cachekv.NewStore(parent)
}

// oogPanic is what the fault store raises at the chosen store access. It plays
// the role of the SDK's ErrorOutOfGas raised by the gas-metered store.
type oogPanic struct{ at int }

// FaultStore counts every store access of an operation and panics at access
// number limit (limit<=0: never). It is placed between the code under test and
// the transaction branch, like the gas-metering store of a real node.
type FaultStore struct {
	storetypes.KVStore
	N     int
	Limit int
}

func (f *FaultStore) tick() {
	f.N++
	if f.Limit > 0 && f.N == f.Limit {
		panic(oogPanic{f.N})
	}
}

func (f *FaultStore) Get(k []byte) []byte { f.tick(); return f.KVStore.Get(k) }
func (f *FaultStore) Has(k []byte) bool   { f.tick(); return f.KVStore.Has(k) }
func (f *FaultStore) Set(k, v []byte)     { f.tick(); f.KVStore.Set(k, v) }
func (f *FaultStore) Delete(k []byte)     { f.tick(); f.KVStore.Delete(k) }
func (f *FaultStore) Iterator(a, b []byte) storetypes.Iterator {
	f.tick()
	return f.KVStore.Iterator(a, b)
}
func (f *FaultStore) ReverseIterator(a, b []byte) storetypes.Iterator {
	f.tick()
	return f.KVStore.ReverseIterator(a, b)
}

// Digest hashes every key/value pair of a store in key order.
func Digest(s storetypes.KVStore) string {
	h := sha256.New()
	it := s.Iterator(nil, nil)
	defer it.Close()
	for ; it.Valid(); it.Next() {
		k, v := it.Key(), it.Value()
		fmt.Fprintf(h, "%d:", len(k))
		h.Write(k)
		fmt.Fprintf(h, "%d:", len(v))
		h.Write(v)
	}
	return fmt.Sprintf("%x", h.Sum(nil)[:12])
}

// Txn runs f against a branch of base wrapped in a FaultStore. outcome is
// "ok" (committed), "abort" (f succeeded, branch dropped because abort was
// requested), "oog" (fault store fired; branch dropped), "panic" (f panicked
// with something else; branch dropped; value in pv) or "err".
func Txn(base storetypes.KVStore, limit int, abort bool, f func(s storetypes.KVStore) error) (outcome string, err error, pv interface{}, accesses int) {
	br := Branch(base)
	fs := &FaultStore{KVStore: br, Limit: limit}
	defer func() {
		accesses = fs.N
		if x := recover(); x != nil {
			if _, ok := x.(oogPanic); ok {
				outcome = "oog"
				return
			}
			outcome, pv = "panic", x
		}
	}()
	err = f(fs)
	if err != nil {
		return "err", err, nil, fs.N
	}
	if abort {
		return "abort", nil, nil, fs.N
	}
	br.Write()
	return "ok", nil, nil, fs.N
}

func cmpBytes(a, b []byte) int { return bytes.Compare(a, b) }
