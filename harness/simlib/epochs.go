package simlib

import (
	"fmt"
	"sort"
	"time"

	"cosmossdk.io/log"
	"cosmossdk.io/store"
	"cosmossdk.io/store/metrics"
	storetypes "cosmossdk.io/store/types"
	tmproto "github.com/cometbft/cometbft/proto/tendermint/types"
	dbm "github.com/cosmos/cosmos-db"
	sdk "github.com/cosmos/cosmos-sdk/types"

	"github.com/osmosis-labs/osmosis/osmoutils"
	epochskeeper "github.com/osmosis-labs/osmosis/x/epochs/keeper"
	epochstypes "github.com/osmosis-labs/osmosis/x/epochs/types"

	"verif/harness/simcore"
)

// EpochsEngine (C17): the real x/epochs keeper and hook containment
// (MultiEpochHooks -> osmoutils.ApplyFuncIfNoError) on its own multistore,
// driven by a simulated clock, with simulator-owned subscribers that write
// state and then succeed, return an error, panic or run out of gas.
type EpochsEngine struct{}

func init() { simcore.Register(EpochsEngine{}) }

func (EpochsEngine) Name() string    { return "epochs" }
func (EpochsEngine) Props() []string { return []string{"C17"} }
func (EpochsEngine) Budget(tier, prop string) (int, int) {
	if tier == "thorough" {
		return 150000, 1200
	}
	return 12000, 150
}
func (EpochsEngine) Describe() simcore.Description {
	return simcore.Description{
		Real:        []string{"x/epochs keeper (BeginBlocker, AddEpochInfo, GetEpochInfo, hooks dispatch)", "x/epochs types.MultiEpochHooks / panicCatchingEpochHook", "osmoutils.ApplyFuncIfNoError (cache context, panic recovery, out-of-gas re-panic)", "cosmossdk.io/store rootmulti + cachemulti + gaskv over MemDB, sdk.Context"},
		Stub:        []string{"CometBFT/BaseApp: the simulator supplies header time/height and discards the block branch when BeginBlocker panics", "subscribers: simulator-owned EpochHooks implementations (the real subscribers are exercised by the app-level engines)"},
		Rule:        "one run = 1-4 timers (durations 1ns..1 week, start before/at/after the first block, one possibly added mid-run) and 1-4 subscribers; steps are blocks whose time advance is drawn from a mixture (tiny, zero, exactly to / 1ns around an epoch end, multi-epoch gaps); each subscriber's outcome at each signal (ok / error / panic / out-of-gas, with writes before and after an inner committed branch) is a function of the plan's salt; after every block timers, signal log and subscriber state are compared with an arithmetic reference.",
		Assumptions: []string{"out-of-gas inside a subscriber is produced by a finite gas meter on the subscriber's context (the gas-metered store panics), by using up the finite meter the caller put on the block context with ordinary metered writes, or by panicking with the SDK's ErrorOutOfGas value", "when BeginBlocker panics the block's state branch is discarded, as BaseApp does", "a block that is first executed speculatively runs BeginBlocker for the same header on another branch of the committed state, which is dropped; the keeper object is the same"},
	}
}

var epochDurations = []time.Duration{time.Nanosecond, time.Second, 7 * time.Second, time.Minute, time.Hour, 24 * time.Hour, 7 * 24 * time.Hour}

func (EpochsEngine) Generate(r *simcore.RNG, tier string, idx int) *simcore.Plan {
	p := &simcore.Plan{Config: map[string]int64{}}
	p.Config["subs"] = r.Range(1, 4)
	p.Config["salt"] = r.Salt()
	// outcome rates in permille; fault-free configuration on even runs
	if idx%2 == 1 {
		p.Config["err"] = r.Range(0, 250)
		p.Config["panic"] = r.Range(0, 250)
		p.Config["oog"] = r.Range(0, 60)
		p.Config["finite"] = int64(r.Intn(2)) // the block context carries a finite gas meter
	}
	if idx%4 >= 2 {
		// some blocks are first executed on a branch that is thrown away (a proposal that is processed and then not
		// decided, optimistic execution that is aborted), then for real - same process, same keeper
		p.Config["spec"] = r.Range(50, 400)
	}
	nt := int(r.Range(1, 4))
	for i := 0; i < nt; i++ {
		p.Steps = append(p.Steps, simcore.Step{Op: "addtimer", A: []int64{int64(r.Intn(len(epochDurations))), r.Range(0, 4), r.Range(0, 1000)}})
	}
	n := int(r.Range(10, 120))
	for i := 0; i < n; i++ {
		st := simcore.Step{Op: "block"}
		switch r.Weighted([]int{30, 5, 30, 12, 3}) {
		case 0: // small advance
			st.A = []int64{0, r.Range(1, 10_000_000_000)}
		case 1: // zero advance
			st.A = []int64{0, 0}
		case 2: // to the end of timer k's current epoch + offset ns
			st.A = []int64{1, r.Range(0, 3), []int64{-1, 0, 1, 1, 1000}[r.Intn(5)]}
		case 3: // gap of m epochs of timer k
			st.A = []int64{2, r.Range(0, 3), r.Range(2, 6)}
		case 4:
			st.Op = "addtimer"
			st.A = []int64{int64(r.Intn(len(epochDurations))), r.Range(0, 4), r.Range(0, 1000)}
		}
		p.Steps = append(p.Steps, st)
	}
	return p
}

type refTimer struct {
	id       string
	start    time.Time
	dur      time.Duration
	started  bool
	epoch    int64
	curStart time.Time
	height   int64
}

type signal struct {
	sub   int
	id    string
	n     int64
	start bool // false: end-of-epoch, true: start-of-epoch
}

type simSub struct {
	idx  int
	eng  *epochsWorld
	name string
}

type epochsWorld struct {
	run     *simcore.Run
	key     *storetypes.KVStoreKey
	salt    uint64
	rates   [3]int64 // err, panic, oog permille
	finite  bool     // the block context carries a finite gas meter
	log     []signal // signals delivered in the current block (harness-side observation)
	outcome map[string]string
	height  int64
}

func (w *epochsWorld) decide(sub int, id string, n int64, start bool) (string, int, int) {
	h := simcore.Mix(w.salt, fmt.Sprintf("%d/%s/%d/%v/%d", sub, id, n, start, w.height), 0)
	x := int64(h % 1000)
	pre, post := int((h>>10)%4), int((h>>14)%3)
	switch {
	case x < w.rates[0]:
		return "err", pre, post
	case x < w.rates[0]+w.rates[1]:
		return "panic", pre, post
	case x < w.rates[0]+w.rates[1]+w.rates[2]:
		return "oog", pre, post
	}
	return "ok", pre, post
}

func subKey(sub int, what string) []byte { return []byte(fmt.Sprintf("s%d/%s", sub, what)) }

func (s simSub) GetModuleName() string { return s.name }

func (s simSub) handle(ctx sdk.Context, id string, n int64, start bool) error {
	w := s.eng
	w.log = append(w.log, signal{s.idx, id, n, start})
	out, pre, post := w.decide(s.idx, id, n, start)
	kind := "end"
	if start {
		kind = "start"
	}
	w.outcome[fmt.Sprintf("%d/%s/%s/%d", s.idx, id, kind, n)] = out
	burnCallersMeter := out == "oog" && w.finite && pre%4 == 0
	if out == "oog" && pre%2 == 0 && !burnCallersMeter {
		// a finite gas meter: the gas-metered store itself raises the out-of-gas panic
		ctx = ctx.WithGasMeter(storetypes.NewGasMeter(uint64(1000 + 700*pre)))
	}
	st := ctx.KVStore(w.key)
	// the durable effect of a successful signal: one record + a read-modify-write counter
	st.Set(subKey(s.idx, fmt.Sprintf("sig/%s/%s/%d", id, kind, n)), []byte(fmt.Sprintf("%d", w.height)))
	ck := subKey(s.idx, "cnt/"+id+"/"+kind)
	c := int64(0)
	if b := st.Get(ck); b != nil {
		fmt.Sscanf(string(b), "%d", &c)
	}
	st.Set(ck, []byte(fmt.Sprintf("%d", c+1)))
	for i := 0; i < pre; i++ {
		st.Set(subKey(s.idx, fmt.Sprintf("pre/%s/%s/%d/%d", id, kind, n, i)), []byte{1})
	}
	if post > 0 {
		// writes made in an inner branch that the subscriber itself commits
		inner, write := ctx.CacheContext()
		is := inner.KVStore(w.key)
		for i := 0; i < post; i++ {
			is.Set(subKey(s.idx, fmt.Sprintf("post/%s/%s/%d/%d", id, kind, n, i)), []byte{2})
		}
		write()
	}
	switch out {
	case "err":
		return fmt.Errorf("subscriber %d fails on purpose", s.idx)
	case "panic":
		if pre%2 == 0 {
			var m map[string]int
			m["x"] = 1 // runtime error
		}
		panic(fmt.Sprintf("subscriber %d panics on purpose", s.idx))
	case "oog":
		if burnCallersMeter {
			// use up the finite gas meter the CALLER put on the context (the block's): ordinary metered writes,
			// nothing is raised by hand. Bounded, so that a wrapper that hides the caller's meter shows up as a
			// subscriber that "succeeds" instead of hanging the simulation.
			for i := 0; i < 40000; i++ {
				st.Set(subKey(s.idx, fmt.Sprintf("burn/%d", i)), make([]byte, 64))
			}
			return nil
		}
		if pre%2 == 0 {
			for i := 0; ; i++ { // burn the finite meter
				st.Set(subKey(s.idx, fmt.Sprintf("burn/%d", i)), make([]byte, 64))
			}
		}
		panic(storetypes.ErrorOutOfGas{Descriptor: "simulated subscriber"})
	}
	return nil
}

func (s simSub) AfterEpochEnd(ctx sdk.Context, id string, n int64) error {
	return s.handle(ctx, id, n, false)
}
func (s simSub) BeforeEpochStart(ctx sdk.Context, id string, n int64) error {
	return s.handle(ctx, id, n, true)
}

func storeContents(s storetypes.KVStore) map[string]string {
	out := map[string]string{}
	it := s.Iterator(nil, nil)
	defer it.Close()
	for ; it.Valid(); it.Next() {
		out[string(it.Key())] = string(it.Value())
	}
	return out
}

func (EpochsEngine) Execute(run *simcore.Run) {
	p := run.Plan
	nSubs := int(p.Cfg("subs", 1))
	db := dbm.NewMemDB()
	cms := store.NewCommitMultiStore(db, log.NewNopLogger(), metrics.NewNoOpMetrics())
	ek := storetypes.NewKVStoreKey(epochstypes.StoreKey)
	sk := storetypes.NewKVStoreKey("subscribers")
	cms.MountStoreWithDB(ek, storetypes.StoreTypeDB, nil)
	cms.MountStoreWithDB(sk, storetypes.StoreTypeDB, nil)
	if err := cms.LoadLatestVersion(); err != nil {
		panic(err)
	}
	w := &epochsWorld{run: run, key: sk, salt: uint64(p.Cfg("salt", 1)), rates: [3]int64{p.Cfg("err", 0), p.Cfg("panic", 0), p.Cfg("oog", 0)}, outcome: map[string]string{}, finite: p.Cfg("finite", 0) == 1}
	k := epochskeeper.NewKeeper(ek)
	var hooks []epochstypes.EpochHooks
	for i := 0; i < nSubs; i++ {
		hooks = append(hooks, simSub{idx: i, eng: w, name: fmt.Sprintf("sub%d", i)})
	}
	k.SetHooks(epochstypes.NewMultiEpochHooks(hooks...))

	genesis := time.Date(2026, 1, 1, 0, 0, 0, 0, time.UTC)
	now := genesis
	height := int64(1)
	var timers []*refTimer
	refSubs := map[string]string{} // expected contents of the subscriber store
	lastSeen := map[string]int64{} // per (sub,timer): last signal number seen, encoded 2n (end) / 2n+1 (start)

	newCtx := func(ms storetypes.MultiStore) sdk.Context {
		return sdk.NewContext(ms, tmproto.Header{Height: height, Time: now}, false, log.NewNopLogger()).
			WithBlockGasMeter(storetypes.NewInfiniteGasMeter()).WithGasMeter(func() storetypes.GasMeter {
			if w.finite {
				return storetypes.NewGasMeter(60_000_000) // far more than honest subscribers use, far less than the burner's 40000 writes
			}
			return storetypes.NewInfiniteGasMeter()
		}())
	}

	for i, st := range p.Steps {
		run.StepIdx = i
		switch st.Op {
		case "addtimer":
			if len(timers) >= 4 {
				run.Event("addtimer", "skip")
				continue
			}
			dur := epochDurations[int(st.Arg(0))%len(epochDurations)]
			var start time.Time
			switch st.Arg(1) {
			case 0: // zero start time: the keeper substitutes the block time
				start = time.Time{}
			case 1:
				start = now
			case 2:
				start = now.Add(-time.Duration(st.Arg(2)) * dur / 100)
			case 3:
				start = now.Add(time.Duration(st.Arg(2)) * time.Second)
			default:
				start = now.Add(time.Duration(st.Arg(2)) * dur / 7)
			}
			id := fmt.Sprintf("t%d", len(timers))
			ms := cms.CacheMultiStore()
			ctx := newCtx(ms)
			err := k.AddEpochInfo(ctx, epochstypes.EpochInfo{Identifier: id, StartTime: start, Duration: dur})
			if err != nil {
				run.Fail("C17", "add-timer", "add", "AddEpochInfo: %v", err)
				return
			}
			ms.Write()
			cms.Commit()
			if start.IsZero() {
				start = now
			}
			timers = append(timers, &refTimer{id: id, start: start, dur: dur, height: height})
			run.Event("addtimer", "ok")
			run.Logf("%d addtimer %s dur=%s start=%s", i, id, dur, start.Sub(genesis))
			height++
			continue
		case "block":
		default:
			continue
		}
		// ---- time advance, resolved relative to state ----
		var dt time.Duration
		pick := func(j int64) *refTimer {
			if len(timers) == 0 {
				return nil
			}
			return timers[int(j)%len(timers)]
		}
		switch st.Arg(0) {
		case 0:
			dt = time.Duration(st.Arg(1))
		case 1:
			if t := pick(st.Arg(1)); t != nil {
				var target time.Time
				if !t.started {
					target = t.start
				} else {
					target = t.curStart.Add(t.dur)
				}
				target = target.Add(time.Duration(st.Arg(2)))
				if target.After(now) {
					dt = target.Sub(now)
				}
			}
		case 2:
			if t := pick(st.Arg(1)); t != nil {
				dt = time.Duration(st.Arg(2)) * t.dur
				run.Probe("multi-epoch-gap")
			}
		}
		if dt < 0 {
			dt = 0
		}
		now = now.Add(dt)
		run.SimNanos += int64(dt)
		run.Blocks++
		w.height = height
		w.log = nil

		// ---- expected behaviour of this block ----
		type expSig struct {
			id    string
			n     int64
			start bool
		}
		var exp []expSig
		next := make([]refTimer, len(timers))
		for j, t := range timers {
			next[j] = *t
			nt := &next[j]
			if now.Before(nt.start) {
				continue
			}
			if !nt.started {
				nt.started, nt.epoch, nt.curStart, nt.height = true, 1, nt.start, height
				exp = append(exp, expSig{nt.id, 1, true})
				continue
			}
			if now.After(nt.curStart.Add(nt.dur)) {
				exp = append(exp, expSig{nt.id, nt.epoch, false})
				nt.epoch++
				nt.curStart = nt.curStart.Add(nt.dur)
				nt.height = height
				exp = append(exp, expSig{nt.id, nt.epoch, true})
				if now.After(nt.curStart.Add(nt.dur)) {
					run.Probe("catch-up-pending")
				}
			} else if now.Equal(nt.curStart.Add(nt.dur)) {
				run.Probe("block-exactly-at-epoch-end")
			}
		}

		// ---- fault: the same block is first executed speculatively on a branch that is discarded ----
		if spec := run.Plan.Cfg("spec", 0); spec > 0 && int64(simcore.Mix(w.salt, fmt.Sprintf("spec/%d", height), 0)%1000) < spec {
			func() {
				defer func() { _ = recover() }()
				k.BeginBlocker(newCtx(cms.CacheMultiStore()))
			}()
			w.log = nil
			run.Fault("speculative-block-discarded")
			if len(exp) > 0 {
				run.Probe("speculative-execution-of-a-ticking-block")
			}
		}

		// ---- run the real BeginBlocker on a block branch ----
		ms := cms.CacheMultiStore()
		ctx := newCtx(ms)
		var pv interface{}
		func() {
			defer func() { pv = recover() }()
			k.BeginBlocker(ctx)
		}()
		// which subscriber outcomes were drawn in this block
		anyOOG := false
		for _, s := range w.log {
			kind := "end"
			if s.start {
				kind = "start"
			}
			o := w.outcome[fmt.Sprintf("%d/%s/%s/%d", s.sub, s.id, kind, s.n)]
			if o == "oog" {
				anyOOG = true
			}
		}
		if pv != nil {
			isOOG, _ := osmoutils.IsOutOfGasError(pv)
			if !isOOG || !anyOOG {
				run.Fail("C17", "begin-block-panics", "panic", "BeginBlocker panicked with %v (an out-of-gas subscriber outcome was drawn: %v)", pv, anyOOG)
				return
			}
			// out-of-gas is propagated; the simulator (like BaseApp) discards the block branch
			run.Fault("hook-oog-propagated")
			run.Event("block", "oog-discarded")
			run.Logf("%d block h=%d t=%s -> out-of-gas propagated", i, height, now.Sub(genesis))
			got := storeContents(cms.GetKVStore(sk))
			if !sameMap(got, refSubs) {
				run.Fail("C17", "discarded-block-left-state", "oog", "state changed although the block was discarded")
				return
			}
			height++
			continue
		}
		if anyOOG {
			run.Fail("C17", "oog-not-propagated", "oog", "a subscriber ran out of gas but BeginBlocker returned normally")
			return
		}
		ms.Write()
		cms.Commit()

		// ---- signals: each expected signal reaches every subscriber exactly once, end(n) before start(n+1) ----
		want := map[string]int{}
		for _, e := range exp {
			for s := 0; s < nSubs; s++ {
				want[fmt.Sprintf("%d/%s/%d/%v", s, e.id, e.n, e.start)]++
			}
		}
		gotc := map[string]int{}
		for _, s := range w.log {
			gotc[fmt.Sprintf("%d/%s/%d/%v", s.sub, s.id, s.n, s.start)]++
			code := 2 * s.n
			if s.start {
				code = 2*s.n - 1 // start(n) comes right after end(n-1): order ... end(n-1)=2n-2, start(n)=2n-1, end(n)=2n
			}
			lk := fmt.Sprintf("%d/%s", s.sub, s.id)
			if prev, ok := lastSeen[lk]; ok && code != prev+1 {
				run.Fail("C17", "signal-order", "order", "subscriber %d timer %s: signal code %d after %d (end(n) must directly precede start(n+1), each once)", s.sub, s.id, code, prev)
				return
			}
			lastSeen[lk] = code
		}
		if !sameCount(gotc, want) {
			run.Fail("C17", "signal-set", "set", "block at t=%s delivered signals %v, reference expects %v", now.Sub(genesis), gotc, want)
			return
		}
		// per signal, subscribers are called in registration order
		for a := 0; a+1 < len(w.log); a++ {
			x, y := w.log[a], w.log[a+1]
			if x.id == y.id && x.n == y.n && x.start == y.start && y.sub != x.sub+1 {
				run.Fail("C17", "subscriber-order", "order", "signal %s/%d delivered to subscriber %d right after %d", x.id, x.n, y.sub, x.sub)
				return
			}
		}
		// ---- subscriber state: effects of ok outcomes only ----
		for _, s := range w.log {
			kind := "end"
			if s.start {
				kind = "start"
			}
			o, pre, post := w.decide(s.sub, s.id, s.n, s.start)
			run.Count("hook/" + o)
			if o != "ok" {
				run.Fault("hook-" + o)
				continue
			}
			refSubs[string(subKey(s.sub, fmt.Sprintf("sig/%s/%s/%d", s.id, kind, s.n)))] = fmt.Sprintf("%d", height)
			ck := string(subKey(s.sub, "cnt/"+s.id+"/"+kind))
			c := int64(0)
			fmt.Sscanf(refSubs[ck], "%d", &c)
			refSubs[ck] = fmt.Sprintf("%d", c+1)
			for q := 0; q < pre; q++ {
				refSubs[string(subKey(s.sub, fmt.Sprintf("pre/%s/%s/%d/%d", s.id, kind, s.n, q)))] = string([]byte{1})
			}
			for q := 0; q < post; q++ {
				refSubs[string(subKey(s.sub, fmt.Sprintf("post/%s/%s/%d/%d", s.id, kind, s.n, q)))] = string([]byte{2})
			}
		}
		if got := storeContents(cms.GetKVStore(sk)); !sameMap(got, refSubs) {
			run.Fail("C17", "containment", "state", "subscriber store differs from the effects of successful signals only: %s", diffMap(got, refSubs))
			return
		}
		// ---- timers ----
		qctx := newCtx(cms.CacheMultiStore())
		for j := range next {
			nt := next[j]
			*timers[j] = nt
			info := k.GetEpochInfo(qctx, nt.id)
			if info.EpochCountingStarted != nt.started || info.CurrentEpoch != nt.epoch ||
				(nt.started && !info.CurrentEpochStartTime.Equal(nt.curStart)) || info.CurrentEpochStartHeight != nt.height ||
				!info.StartTime.Equal(nt.start) || info.Duration != nt.dur {
				run.Fail("C17", "timer-state", "timer", "timer %s at t=%s: keeper {started=%v epoch=%d curStart=%s height=%d}, reference {started=%v epoch=%d curStart=%s height=%d}",
					nt.id, now.Sub(genesis), info.EpochCountingStarted, info.CurrentEpoch, info.CurrentEpochStartTime.Sub(genesis), info.CurrentEpochStartHeight,
					nt.started, nt.epoch, nt.curStart.Sub(genesis), nt.height)
				return
			}
			if nt.started {
				// grid: curStart == start + (epoch-1)*duration
				if !nt.curStart.Equal(nt.start.Add(time.Duration(nt.epoch-1) * nt.dur)) {
					run.Fail("C17", "timer-grid", "timer", "reference off grid (harness bug)")
					return
				}
			}
		}
		if len(exp) > 0 {
			run.Event("block", "ok")
		} else {
			run.Event("block", "idle")
		}
		run.Logf("%d block h=%d t=%s signals=%d", i, height, now.Sub(genesis), len(w.log))
		height++
	}
}

func sameMap(a, b map[string]string) bool {
	if len(a) != len(b) {
		return false
	}
	for k, v := range a {
		if w, ok := b[k]; !ok || w != v {
			return false
		}
	}
	return true
}

func sameCount(a, b map[string]int) bool {
	if len(a) != len(b) {
		return false
	}
	for k, v := range a {
		if b[k] != v {
			return false
		}
	}
	return true
}

func diffMap(got, want map[string]string) string {
	var out []string
	for k, v := range got {
		if w, ok := want[k]; !ok {
			out = append(out, "unexpected "+k)
		} else if w != v {
			out = append(out, fmt.Sprintf("%s=%q want %q", k, v, w))
		}
	}
	for k := range want {
		if _, ok := got[k]; !ok {
			out = append(out, "missing "+k)
		}
	}
	sort.Strings(out)
	if len(out) > 6 {
		out = out[:6]
	}
	return fmt.Sprint(out)
}
