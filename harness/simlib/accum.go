package simlib

import (
	"fmt"
	"math/big"
	"sort"

	storetypes "cosmossdk.io/store/types"
	sdk "github.com/cosmos/cosmos-sdk/types"

	"github.com/osmosis-labs/osmosis/osmomath"
	"github.com/osmosis-labs/osmosis/osmoutils/accum"

	"verif/harness/simcore"
)

// AccumEngine (C15): real osmoutils/accum over a simulated transactional
// store. A transaction is a group of operations sharing handles fetched inside
// it (that is how x/concentrated-liquidity uses the library: several handles
// alive inside one message); it commits or is rolled back as a whole, either
// on request or because the counting store "ran out of gas" at a seeded store
// access. The reference is an exact-rational ledger.
type AccumEngine struct{}

var posNames = []string{"p", "p1", "p12", "q3"}
var accNames = []string{"acc", "acc1", "acc12"}

func init() { simcore.Register(AccumEngine{}) }

func (AccumEngine) Name() string    { return "accum" }
func (AccumEngine) Props() []string { return []string{"C15"} }
func (AccumEngine) Budget(tier, prop string) (int, int) {
	if tier == "thorough" {
		return 600000, 1200
	}
	return 60000, 150
}
func (AccumEngine) Describe() simcore.Description {
	return simcore.Description{
		Real: []string{"osmoutils/accum (MakeAccumulator, GetAccumulator, AddToAccumulator, NewPosition[IntervalAccumulation], AddTo/RemoveFrom/UpdatePosition[IntervalAccumulation], SetPositionIntervalAccumulation, ClaimRewards, DeletePosition, AddToUnclaimedRewards, GetTotalRewards, GetTotalShares, HasPosition)", "osmoutils store helpers, sdk.DecCoins / LegacyDec arithmetic", "cosmossdk.io/store cachekv + dbadapter over MemDB"},
		Stub: []string{"gas-metered IAVL store: replaced by a counting store that aborts the enclosing transaction at a seeded store access"},
		Rule: "one run = 1-3 accumulators, 4 position names, 1-3 reward denominations; steps are grouped into transactions (commit, forced roll-back, or out-of-gas at the k-th store access); two handles per accumulator live inside a transaction and share-changing operations may go through the one fetched before the other changed shares; after every operation every position's claimable amount, claim result, total shares and position existence are compared with an exact-rational ledger.",
		Assumptions: []string{
			"a handle is a snapshot of the accumulator value: after growth through one handle the other handle is re-fetched before use; growth and DeletePosition are issued through a handle fetched after the last share change (these two write the handle's cached total shares back without re-reading them)",
			"interval accumulation values passed by the caller are component-wise <= the accumulator value (DecCoins.Sub panics otherwise, as in the callers' contract)",
			"tolerance: the decimal claimable amount may differ from the exact ledger by at most n * 0.5e-18 per denomination, n = number of 18-digit decimal products folded into it (the decimal type rounds every product to 18 digits)",
		},
	}
}

var accumDenoms = []string{"aaa", "bbb", "ccc"}

func decStr(r *simcore.RNG, loExp, hiExp int) string {
	// a non-negative decimal with up to 18 fractional digits; exponent relative to 10^-18
	m := r.Magnitude(loExp+18, hiExp+18)
	s := m.String()
	for len(s) <= 18 {
		s = "0" + s
	}
	return s[:len(s)-18] + "." + s[len(s)-18:]
}

func (AccumEngine) Generate(r *simcore.RNG, tier string, idx int) *simcore.Plan {
	p := &simcore.Plan{Config: map[string]int64{}}
	p.Config["accs"] = r.Range(1, 3)
	p.Config["denoms"] = r.Range(1, 3)
	faults := idx%2 == 1
	n := int(r.Range(8, 70))
	invalidRate := 0.08
	shareRegime := r.Intn(3) // 0 small fractional, 1 mid, 2 huge
	shares := func() string {
		switch shareRegime {
		case 0:
			return decStr(r, -18, 1)
		case 1:
			return decStr(r, -3, 9)
		}
		return decStr(r, 6, 24)
	}
	for a := int64(0); a < p.Config["accs"]; a++ {
		if r.Chance(0.9) {
			p.Steps = append(p.Steps, simcore.Step{Op: "mk", A: []int64{a, 0, 0, 0, 0}})
		}
	}
	for i := 0; i < n; i++ {
		acc, h, pos := r.Range(0, 2), r.Range(0, 1), r.Range(0, 63)
		interval := int64(0)
		if r.Chance(0.3) {
			interval = 1
		}
		bp := r.Range(0, 10000)
		if r.Chance(0.2) {
			bp = 10000
		}
		st := simcore.Step{A: []int64{acc, h, pos, interval, bp}}
		switch r.Weighted([]int{10, 4, 22, 14, 12, 8, 6, 5, 12, 4, 3, 4}) {
		case 0:
			st.Op = "tx"
			if faults && r.Chance(0.35) {
				if r.Chance(0.4) {
					st.F = "abort"
				} else {
					st.F = fmt.Sprintf("oog:%d", r.Range(1, 40))
				}
			}
		case 1:
			st.Op = "mk"
		case 2:
			st.Op = "grow"
			st.A = append(st.A, r.Range(1, 7)) // denom mask
			st.S = []string{decStr(r, -18, 12), decStr(r, -18, 12), decStr(r, -6, 3)}
		case 3:
			st.Op = "new"
			st.S = []string{shares()}
			if r.Chance(0.05) {
				st.S = []string{"0.000000000000000000"}
			}
		case 4:
			st.Op = "add"
			st.S = []string{shares()}
		case 5:
			st.Op = "rem"
			st.S = []string{"0"} // resolved as bp of current shares
		case 6:
			st.Op = "upd"
			st.S = []string{shares()}
			st.A = append(st.A, r.Range(0, 1)) // sign
		case 7:
			st.Op = "setint"
		case 8:
			st.Op = "claim"
		case 9:
			st.Op = "del"
		case 10:
			st.Op = "addunc"
			st.A = append(st.A, r.Range(1, 7))
			st.S = []string{decStr(r, -18, 9), decStr(r, -18, 9), decStr(r, -18, 9)}
		case 11:
			st.Op = "refetch"
		}
		if r.Chance(invalidRate) {
			switch st.Op {
			case "add", "rem", "upd":
				st.Op = "bad-" + st.Op // non-positive share change or unknown position
				st.A = append(st.A, r.Range(0, 2))
			case "claim", "del", "setint", "addunc":
				st.Op = "unk-" + st.Op // unknown position name
			}
		}
		p.Steps = append(p.Steps, st)
	}
	return p
}

// ---- exact reference ledger ----

type refPos struct {
	shares *big.Rat
	base   map[string]*big.Rat // interval accumulation the position was last set to
	earned map[string]*big.Rat // exact rewards folded in so far
	n      int                 // number of rounded products folded into the implementation's record
}

type refAcc struct {
	value map[string]*big.Rat
	pos   map[string]*refPos
}

func cloneRatMap(m map[string]*big.Rat) map[string]*big.Rat {
	o := map[string]*big.Rat{}
	for k, v := range m {
		o[k] = new(big.Rat).Set(v)
	}
	return o
}

func (a *refAcc) clone() *refAcc {
	o := &refAcc{value: cloneRatMap(a.value), pos: map[string]*refPos{}}
	for k, p := range a.pos {
		o.pos[k] = &refPos{shares: new(big.Rat).Set(p.shares), base: cloneRatMap(p.base), earned: cloneRatMap(p.earned), n: p.n}
	}
	return o
}

func cloneModel(m map[string]*refAcc) map[string]*refAcc {
	o := map[string]*refAcc{}
	for k, v := range m {
		o[k] = v.clone()
	}
	return o
}

func ratGet(m map[string]*big.Rat, k string) *big.Rat {
	if v, ok := m[k]; ok {
		return v
	}
	return new(big.Rat)
}

// accrue folds (value - base) * shares into earned.
func (a *refAcc) accrue(p *refPos) {
	for d, v := range a.value {
		diff := new(big.Rat).Sub(v, ratGet(p.base, d))
		if diff.Sign() != 0 && p.shares.Sign() != 0 {
			p.earned[d] = new(big.Rat).Add(ratGet(p.earned, d), diff.Mul(diff, p.shares))
		}
	}
	p.n++
}

func (a *refAcc) claimable(p *refPos) map[string]*big.Rat {
	out := cloneRatMap(p.earned)
	for d, v := range a.value {
		diff := new(big.Rat).Sub(v, ratGet(p.base, d))
		if diff.Sign() != 0 {
			out[d] = new(big.Rat).Add(ratGet(out, d), diff.Mul(diff, p.shares))
		}
	}
	return out
}

var ten18 = new(big.Int).Exp(big.NewInt(10), big.NewInt(18), nil)

func decToRat(d osmomath.Dec) *big.Rat { return new(big.Rat).SetFrac(d.BigInt(), ten18) }

func decCoinsToRat(c sdk.DecCoins) map[string]*big.Rat {
	o := map[string]*big.Rat{}
	for _, x := range c {
		o[x.Denom] = decToRat(x.Amount)
	}
	return o
}

func mustDec(s string) osmomath.Dec {
	d, err := osmomath.NewDecFromStr(s)
	if err != nil {
		panic(err)
	}
	return d
}

// ---- a store whose target can be switched, so that handles fetched inside a
// transaction read and write that transaction's branch ----

type switchStore struct{ storetypes.KVStore }

type accTx struct {
	raw     storetypes.KVStore // the transaction's branch, not metered (oracle reads)
	branch  interface{ Write() }
	fs      *FaultStore
	view    *switchStore
	handles map[string]*accum.AccumulatorObject // "acc/h"
	stale   map[string]bool                     // handle must be re-fetched before use (value changed elsewhere)
	shStale map[string]bool                     // another handle changed shares since fetch
	dead    bool                                // out-of-gas fired: remaining ops of this tx are skipped
	model0  map[string]*refAcc
	digest0 string
	abort   bool
}

func (AccumEngine) Execute(run *simcore.Run) {
	p := run.Plan
	nAcc := int(p.Cfg("accs", 1))
	nDen := int(p.Cfg("denoms", 1))
	base := NewBaseStore()
	model := map[string]*refAcc{}
	// names that are prefixes of one another: position "p" vs "p1" vs "p12", accumulator "acc" vs "acc1" vs "acc12"
	accName := func(i int64) string { return accNames[int(i)%nAcc] }
	posName := func(i int64) string { return posNames[((i%4)+4)%4] }

	var tx *accTx
	begin := func(limit int, abort bool) {
		br := Branch(base)
		fs := &FaultStore{KVStore: br, Limit: limit}
		tx = &accTx{raw: br, branch: br, fs: fs, view: &switchStore{fs}, handles: map[string]*accum.AccumulatorObject{}, stale: map[string]bool{}, shStale: map[string]bool{}, model0: cloneModel(model), digest0: Digest(base), abort: abort}
	}
	end := func() bool {
		if tx == nil {
			return true
		}
		if tx.dead || tx.abort {
			model = tx.model0
			if tx.dead {
				run.Fault("oog")
			} else {
				run.Fault("abort")
			}
			if Digest(base) != tx.digest0 {
				run.Fail("C15", "rollback", "tx", "a rolled-back transaction changed the durable store")
				return false
			}
		} else {
			tx.branch.Write()
		}
		tx = nil
		return true
	}
	begin(0, false)

	// handle returns the handle slot, fetching it when missing or marked stale.
	handle := func(a string, h int64, needFreshShares bool) (*accum.AccumulatorObject, error) {
		k := fmt.Sprintf("%s/%d", a, h)
		if tx.handles[k] == nil || tx.stale[k] || (needFreshShares && tx.shStale[k]) {
			obj, err := accum.GetAccumulator(tx.view, a)
			if err != nil {
				return nil, err
			}
			tx.handles[k] = obj
			delete(tx.stale, k)
			delete(tx.shStale, k)
		} else if tx.shStale[k] {
			run.Probe("stale-handle-share-op")
		}
		return tx.handles[k], nil
	}
	markOthers := func(a string, h int64, value bool) {
		o := fmt.Sprintf("%s/%d", a, 1-h)
		if value {
			tx.stale[o] = true
		} else {
			tx.shStale[o] = true
		}
	}

	for i, st := range p.Steps {
		run.StepIdx = i
		if st.Op == "tx" {
			if !end() {
				return
			}
			fk, fn := simcore.ParseFault(st.F)
			lim := 0
			if fk == "oog" {
				lim = int(fn)
			}
			begin(lim, fk == "abort")
			run.Logf("%d tx limit=%d abort=%v", i, lim, fk == "abort")
			continue
		}
		if tx.dead {
			run.Event(st.Op, "skipped-after-oog")
			continue
		}
		pn := posName(st.Arg(2))
		if m := model[accName(st.Arg(0))]; m != nil {
			// resolve the position argument relative to state: "new" prefers a free name,
			// operations on positions prefer a live one (unknown names have their own ops)
			var live, free []string
			for _, n := range posNames {
				if m.pos[n] != nil {
					live = append(live, n)
				} else {
					free = append(free, n)
				}
			}
			switch {
			case st.Op == "new" && len(free) > 0:
				pn = free[int(st.Arg(2))%len(free)]
			case st.Op != "new" && len(live) > 0 && st.Arg(2)%8 != 7:
				pn = live[int(st.Arg(2))%len(live)]
			}
		}
		outcome := accumStep(run, tx, model, st, accName(st.Arg(0)), st.Arg(1)%2, pn, nDen, handle, markOthers)
		run.Event(st.Op, outcome)
		run.Logf("%d %s %v %v -> %s", i, st.Op, st.A, st.S, outcome)
		if run.Stop() {
			return
		}
		if outcome == "oog" {
			tx.dead = true
			continue
		}
		// oracle on the transaction's current view (not metered)
		accumOracle(run, tx.raw, model, st.Op)
		if run.Stop() {
			return
		}
	}
	end()
}

func accumStep(run *simcore.Run, tx *accTx, model map[string]*refAcc, st simcore.Step, a string, h int64, pn string, nDen int,
	handle func(string, int64, bool) (*accum.AccumulatorObject, error), markOthers func(string, int64, bool)) (outcome string) {
	defer func() {
		if x := recover(); x != nil {
			if _, ok := x.(oogPanic); ok {
				outcome = "oog"
				return
			}
			run.Fail("C15", "op-panics", st.Op, "operation %s panicked: %v", st.Op, x)
			outcome = "panic"
		}
	}()
	m := model[a]
	expectErr := func(err error, why string) string {
		if err == nil {
			run.Fail("C15", "must-fail", st.Op, "%s succeeded but must fail (%s)", st.Op, why)
			return "ok"
		}
		return "err"
	}
	before := ""
	checkNoEffect := func() {
		if Digest(tx.raw) != before {
			run.Fail("C15", "failed-op-has-effect", st.Op, "%s returned an error but changed the store", st.Op)
		}
	}
	snapshot := func() { before = Digest(tx.raw) }
	// interval value: bp/10000 of the current value, truncated to 18 digits, dropping zeros
	intervalOf := func(obj *accum.AccumulatorObject, bp int64) sdk.DecCoins {
		out := sdk.NewDecCoins()
		for _, c := range obj.GetValue() {
			amt := c.Amount.MulInt64(bp).QuoInt64(10000) // Quo rounds; clamp to <= value
			if amt.GT(c.Amount) {
				amt = c.Amount
			}
			if amt.IsPositive() {
				out = out.Add(sdk.NewDecCoinFromDec(c.Denom, amt))
			}
		}
		return out
	}
	coinsArg := func(mask int64) sdk.DecCoins {
		out := sdk.NewDecCoins()
		for j := 0; j < nDen; j++ {
			if mask&(1<<uint(j)) != 0 {
				d := mustDec(st.Str(j))
				if d.IsPositive() {
					out = out.Add(sdk.NewDecCoinFromDec(accumDenoms[j], d))
				}
			}
		}
		return out
	}

	switch st.Op {
	case "mk":
		snapshot()
		err := accum.MakeAccumulator(tx.view, a)
		if m != nil {
			r := expectErr(err, "accumulator exists")
			checkNoEffect()
			return r
		}
		if err != nil {
			run.Fail("C15", "must-succeed", st.Op, "MakeAccumulator: %v", err)
			return "err"
		}
		model[a] = &refAcc{value: map[string]*big.Rat{}, pos: map[string]*refPos{}}
		return "ok"
	case "refetch":
		if m == nil {
			return "noacc"
		}
		k := fmt.Sprintf("%s/%d", a, h)
		tx.stale[k] = true
		if _, err := handle(a, h, true); err != nil {
			run.Fail("C15", "must-succeed", st.Op, "GetAccumulator: %v", err)
		}
		return "ok"
	}
	if m == nil {
		// operations on an accumulator that does not exist: GetAccumulator must fail
		if _, err := accum.GetAccumulator(tx.view, a); err == nil {
			run.Fail("C15", "must-fail", "get-unknown-accumulator", "GetAccumulator(%s) succeeded for an accumulator never made", a)
		}
		return "noacc"
	}
	needFresh := st.Op == "grow" || st.Op == "del"
	obj, err := handle(a, h, needFresh)
	if err != nil {
		run.Fail("C15", "must-succeed", "get", "GetAccumulator: %v", err)
		return "err"
	}
	pos := m.pos[pn]
	interval := st.Arg(3) == 1
	bp := st.Arg(4)

	switch st.Op {
	case "grow":
		amt := coinsArg(st.Arg(5))
		if amt.IsZero() {
			return "noop"
		}
		obj.AddToAccumulator(amt)
		for _, c := range amt {
			m.value[c.Denom] = new(big.Rat).Add(ratGet(m.value, c.Denom), decToRat(c.Amount))
		}
		markOthers(a, h, true)
		return "ok"
	case "new":
		if pos != nil {
			return "exists-skip" // each name is created at most once while it exists
		}
		sh := mustDec(st.Str(0))
		var err error
		np := &refPos{shares: decToRat(sh), base: map[string]*big.Rat{}, earned: map[string]*big.Rat{}}
		if interval {
			iv := intervalOf(obj, bp)
			err = obj.NewPositionIntervalAccumulation(pn, sh, iv, nil)
			np.base = decCoinsToRat(iv)
		} else {
			err = obj.NewPosition(pn, sh, nil)
			np.base = cloneRatMap(m.value)
		}
		if err != nil {
			run.Fail("C15", "must-succeed", st.Op, "NewPosition: %v", err)
			return "err"
		}
		m.pos[pn] = np
		markOthers(a, h, false)
		return "ok"
	case "add", "rem", "upd":
		if pos == nil {
			snapshot()
			var err error
			switch st.Op {
			case "add":
				err = obj.AddToPosition(pn, mustDec("1"))
			case "rem":
				err = obj.RemoveFromPosition(pn, mustDec("1"))
			default:
				err = obj.UpdatePosition(pn, mustDec("1"))
			}
			r := expectErr(err, "unknown position")
			checkNoEffect()
			return "unknown-" + r
		}
		var delta osmomath.Dec
		switch st.Op {
		case "add":
			delta = mustDec(st.Str(0))
		case "rem":
			cur := new(big.Int).Mul(pos.shares.Num(), ten18)
			cur.Quo(cur, pos.shares.Denom())
			d := new(big.Int).Mul(cur, big.NewInt(bp))
			d.Quo(d, big.NewInt(10000))
			delta = osmomath.NewDecFromBigIntWithPrec(d, 18)
			if st.Arg(4)%3 == 0 {
				delta = osmomath.NewDecFromBigIntWithPrec(cur, 18) // remove everything
			}
			if !delta.IsPositive() {
				return "noop"
			}
			delta = delta.Neg()
		case "upd":
			delta = mustDec(st.Str(0))
			if st.Arg(5) == 1 {
				cur := new(big.Int).Mul(pos.shares.Num(), ten18)
				cur.Quo(cur, pos.shares.Denom())
				cd := osmomath.NewDecFromBigIntWithPrec(cur, 18)
				if delta.GT(cd) {
					delta = cd
				}
				delta = delta.Neg()
			}
		}
		if delta.IsZero() {
			return "noop"
		}
		iv := obj.GetValue()
		if interval {
			iv = intervalOf(obj, bp)
		}
		var err error
		switch {
		case st.Op == "upd" && interval:
			err = obj.UpdatePositionIntervalAccumulation(pn, delta, iv)
		case st.Op == "upd":
			err = obj.UpdatePosition(pn, delta)
		case delta.IsPositive() && interval:
			err = obj.AddToPositionIntervalAccumulation(pn, delta, iv)
		case delta.IsPositive():
			err = obj.AddToPosition(pn, delta)
		case interval:
			err = obj.RemoveFromPositionIntervalAccumulation(pn, delta.Neg(), iv)
		default:
			err = obj.RemoveFromPosition(pn, delta.Neg())
		}
		if err != nil {
			run.Fail("C15", "must-succeed", st.Op, "%s(%s, %s): %v", st.Op, pn, delta, err)
			return "err"
		}
		m.accrue(pos)
		pos.shares = new(big.Rat).Add(pos.shares, decToRat(delta))
		if interval {
			pos.base = decCoinsToRat(iv)
		} else {
			pos.base = cloneRatMap(m.value)
		}
		if pos.shares.Sign() == 0 {
			run.Probe("position-emptied")
		}
		markOthers(a, h, false)
		return "ok"
	case "bad-add", "bad-rem", "bad-upd":
		snapshot()
		var err error
		var bad osmomath.Dec
		switch st.Arg(len(st.A) - 1) {
		case 0:
			bad = osmomath.ZeroDec()
		case 1:
			bad = mustDec("-1.5")
		default:
			bad = mustDec("-0.000000000000000001")
		}
		why := "non-positive share change"
		switch st.Op {
		case "bad-add":
			err = obj.AddToPosition(pn, bad)
		case "bad-rem":
			err = obj.RemoveFromPosition(pn, bad)
			if pos != nil && bad.IsZero() {
				why = "zero shares"
			}
		default:
			// UpdatePosition treats a negative number as a removal, so only zero is invalid;
			// removing more than the position holds is the other invalid case.
			bad = osmomath.ZeroDec()
			if pos != nil && st.Arg(len(st.A)-1) != 0 {
				cur := new(big.Int).Mul(pos.shares.Num(), ten18)
				cur.Quo(cur, pos.shares.Denom())
				bad = osmomath.NewDecFromBigIntWithPrec(cur, 18).Add(osmomath.SmallestDec()).Neg()
				why = "removing more shares than held"
			}
			err = obj.UpdatePosition(pn, bad)
		}
		r := expectErr(err, why)
		checkNoEffect()
		return r
	case "unk-claim", "unk-del", "unk-setint", "unk-addunc":
		snapshot()
		var err error
		switch st.Op {
		case "unk-claim":
			_, _, err = obj.ClaimRewards("nobody")
		case "unk-del":
			_, err = obj.DeletePosition("nobody")
		case "unk-setint":
			err = obj.SetPositionIntervalAccumulation("nobody", obj.GetValue())
		default:
			err = obj.AddToUnclaimedRewards("nobody", sdk.NewDecCoins(sdk.NewDecCoinFromDec("aaa", mustDec("1"))))
		}
		r := expectErr(err, "unknown position")
		checkNoEffect()
		return r
	}
	if pos == nil {
		// the remaining ops on a name that does not exist must fail without effect
		snapshot()
		var err error
		switch st.Op {
		case "claim":
			_, _, err = obj.ClaimRewards(pn)
		case "del":
			_, err = obj.DeletePosition(pn)
		case "setint":
			err = obj.SetPositionIntervalAccumulation(pn, obj.GetValue())
		case "addunc":
			err = obj.AddToUnclaimedRewards(pn, sdk.NewDecCoins(sdk.NewDecCoinFromDec("aaa", mustDec("1"))))
		}
		r := expectErr(err, "position does not exist")
		checkNoEffect()
		return "unknown-" + r
	}
	switch st.Op {
	case "setint":
		iv := intervalOf(obj, bp)
		if err := obj.SetPositionIntervalAccumulation(pn, iv); err != nil {
			run.Fail("C15", "must-succeed", st.Op, "SetPositionIntervalAccumulation: %v", err)
			return "err"
		}
		pos.base = decCoinsToRat(iv)
		return "ok"
	case "addunc":
		amt := coinsArg(st.Arg(5))
		if err := obj.AddToUnclaimedRewards(pn, amt); err != nil {
			run.Fail("C15", "must-succeed", st.Op, "AddToUnclaimedRewards: %v", err)
			return "err"
		}
		for _, c := range amt {
			pos.earned[c.Denom] = new(big.Rat).Add(ratGet(pos.earned, c.Denom), decToRat(c.Amount))
		}
		return "ok"
	case "claim", "del":
		want := m.claimable(pos)
		n := pos.n + 1
		var coins sdk.Coins
		var dust sdk.DecCoins
		var total sdk.DecCoins
		var err error
		if st.Op == "claim" {
			coins, dust, err = obj.ClaimRewards(pn)
			total = sdk.NewDecCoinsFromCoins(coins...).Add(dust...)
		} else {
			total, err = obj.DeletePosition(pn)
		}
		if err != nil {
			run.Fail("C15", "must-succeed", st.Op, "%s: %v", st.Op, err)
			return "err"
		}
		if !accumCompare(run, "claim-amount", st.Op, total, want, n) {
			return "ok"
		}
		if st.Op == "claim" {
			for _, c := range coins {
				for _, d := range dust {
					if d.Denom == c.Denom && !d.Amount.LT(osmomath.OneDec()) {
						run.Fail("C15", "claim-truncation", st.Op, "dust %s not below one unit", d)
					}
				}
			}
			for _, d := range dust {
				if !d.Amount.LT(osmomath.OneDec()) || d.Amount.IsNegative() {
					run.Fail("C15", "claim-truncation", st.Op, "dust %s outside [0,1)", d)
				}
			}
		}
		if st.Op == "del" || pos.shares.Sign() == 0 {
			delete(m.pos, pn)
			if st.Op == "claim" {
				run.Probe("claim-removes-empty-position")
			}
			if st.Op == "del" {
				markOthers(a, h, false)
			}
		} else {
			pos.earned = map[string]*big.Rat{}
			pos.base = cloneRatMap(m.value)
			pos.n = 0
		}
		return "ok"
	}
	return "noop"
}

// accumCompare: |impl - exact| <= n * 0.5e-18 per denom.
func accumCompare(run *simcore.Run, oracle, op string, got sdk.DecCoins, want map[string]*big.Rat, n int) bool {
	g := decCoinsToRat(got)
	ds := map[string]bool{}
	for d := range g {
		ds[d] = true
	}
	for d := range want {
		ds[d] = true
	}
	names := make([]string, 0, len(ds))
	for d := range ds {
		names = append(names, d)
	}
	sort.Strings(names)
	tol := new(big.Rat).SetFrac(big.NewInt(int64(n)), new(big.Int).Mul(big.NewInt(2), ten18))
	for _, d := range names {
		diff := new(big.Rat).Sub(ratGet(g, d), ratGet(want, d))
		diff.Abs(diff)
		if diff.Cmp(tol) > 0 {
			run.Fail("C15", oracle, op, "denom %s: implementation %s, exact ledger %s, |diff|=%s > tolerance %s (n=%d)", d, ratGet(g, d).FloatString(20), ratGet(want, d).FloatString(20), diff.FloatString(22), tol.FloatString(20), n)
			return false
		}
		if n > 0 && tol.Sign() > 0 {
			// slack used, in thousandths of the tolerance
			r := new(big.Rat).Quo(diff, tol)
			f, _ := r.Float64()
			run.Max("max/tolerance-used-permille", int64(f*1000))
		}
	}
	return true
}

func accumOracle(run *simcore.Run, view storetypes.KVStore, model map[string]*refAcc, op string) {
	defer func() {
		if x := recover(); x != nil {
			run.Fail("C15", "query-panics", op, "query panicked: %v", x)
		}
	}()
	names := make([]string, 0, len(model))
	for a := range model {
		names = append(names, a)
	}
	sort.Strings(names)
	for _, a := range names {
		m := model[a]
		obj, err := accum.GetAccumulator(view, a)
		if err != nil {
			run.Fail("C15", "accumulator-lost", op, "GetAccumulator(%s): %v", a, err)
			return
		}
		// accumulator value is exact (sums of decimals)
		if !accumCompare(run, "value", op, obj.GetValue(), m.value, 0) {
			return
		}
		total := new(big.Rat)
		for _, pn := range posNames {
			pos := m.pos[pn]
			if pos == nil {
				if obj.HasPosition(pn) {
					run.Fail("C15", "position-should-be-gone", op, "position %s/%s exists in the store but not in the ledger", a, pn)
					return
				}
				continue
			}
			total.Add(total, pos.shares)
			rec, err := obj.GetPosition(pn)
			if err != nil {
				run.Fail("C15", "position-lost", op, "position %s/%s: %v", a, pn, err)
				return
			}
			if decToRat(rec.NumShares).Cmp(pos.shares) != 0 {
				run.Fail("C15", "position-shares", op, "position %s/%s holds %s shares, ledger %s", a, pn, rec.NumShares, pos.shares.FloatString(18))
				return
			}
			want := m.claimable(pos)
			if !accumCompare(run, "claimable", op, accum.GetTotalRewards(obj, rec), want, pos.n+1) {
				return
			}
			// claim on a throw-away branch: integer part paid, fractional part returned as dust, exactly
			br := Branch(view)
			o2, _ := accum.GetAccumulator(br, a)
			coins, dust, err := o2.ClaimRewards(pn)
			if err != nil {
				run.Fail("C15", "claim-fails", op, "ClaimRewards(%s/%s): %v", a, pn, err)
				return
			}
			tot := accum.GetTotalRewards(obj, rec)
			tc, td := tot.TruncateDecimal()
			if !coins.Equal(tc) || !dust.Equal(td) {
				run.Fail("C15", "claim-truncation", op, "claim of %s paid %s + dust %s, expected floor %s + %s", tot, coins, dust, tc, td)
				return
			}
			// claim resets the claimer and nobody else
			for _, other := range posNames {
				if m.pos[other] == nil {
					continue
				}
				after, err := o2.GetPosition(other)
				if other == pn {
					if pos.shares.Sign() == 0 {
						if err == nil {
							run.Fail("C15", "empty-position-survives-claim", op, "position %s/%s has no shares but still exists after a claim", a, pn)
							return
						}
					} else if err != nil || !accum.GetTotalRewards(o2, after).IsZero() {
						run.Fail("C15", "claim-does-not-reset", op, "position %s/%s still has rewards after claiming", a, pn)
						return
					}
					continue
				}
				b4, _ := obj.GetPosition(other)
				if err != nil || !accum.GetTotalRewards(o2, after).Equal(accum.GetTotalRewards(obj, b4)) || !after.NumShares.Equal(b4.NumShares) {
					run.Fail("C15", "claim-touches-others", op, "claim by %s changed position %s", pn, other)
					return
				}
			}
		}
		if decToRat(obj.GetTotalShares()).Cmp(total) != 0 {
			run.Fail("C15", "total-shares", op, "accumulator %s records %s total shares, positions sum to %s", a, obj.GetTotalShares(), total.FloatString(18))
			return
		}
	}
}
