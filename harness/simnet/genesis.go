// Package simnet is the L2 harness: a set of replicas of the full OsmosisApp
// in one process, each on its own in-memory disk, fed the same stream of
// blocks of SIGNED transactions through the real BaseApp entry points
// (InitChain, FinalizeBlock, Commit). The simulator is the proposer: it owns
// height, header time, the transaction order, the last-commit votes, and the
// faults (restart between blocks, crash between FinalizeBlock and Commit,
// fork of a fresh replica from an export).
package simnet

import (
	"crypto/sha256"
	"encoding/json"
	"fmt"
	"time"

	sdkmath "cosmossdk.io/math"
	abci "github.com/cometbft/cometbft/abci/types"
	tmproto "github.com/cometbft/cometbft/proto/tendermint/types"
	cmttypes "github.com/cometbft/cometbft/types"
	"github.com/cosmos/cosmos-sdk/codec"
	codectypes "github.com/cosmos/cosmos-sdk/codec/types"
	"github.com/cosmos/cosmos-sdk/crypto/keys/ed25519"
	"github.com/cosmos/cosmos-sdk/crypto/keys/secp256k1"
	sdk "github.com/cosmos/cosmos-sdk/types"
	authtypes "github.com/cosmos/cosmos-sdk/x/auth/types"
	banktypes "github.com/cosmos/cosmos-sdk/x/bank/types"
	slashingtypes "github.com/cosmos/cosmos-sdk/x/slashing/types"
	stakingtypes "github.com/cosmos/cosmos-sdk/x/staking/types"

	"github.com/osmosis-labs/osmosis/osmomath"
	"github.com/osmosis-labs/osmosis/v31/app"

	"verif/harness/simchain"
)

// GenesisConfig describes the simulated world at genesis.
type GenesisConfig struct {
	Accounts    int
	Validators  int
	Fund        sdk.Coins
	MaxBlockGas int64
	// Mutate edits module genesis states (JSON) before they are serialised.
	Mutate func(cdc codec.JSONCodec, gs app.GenesisState)
}

// Genesis is a serialised genesis plus the deterministic keys behind it.
type Genesis struct {
	AppState        []byte
	Time            time.Time
	InitialHeight   int64
	ConsensusParams *tmproto.ConsensusParams
	Validators      []abci.ValidatorUpdate // empty for a fresh chain (staking derives them)

	Accts    []sdk.AccAddress
	Privs    []*secp256k1.PrivKey
	ValAddrs []sdk.ValAddress
	ValCons  [][]byte // consensus addresses (20 bytes) of the genesis validators
}

// ConsensusParams returns consensus parameters with the given block gas limit.
func ConsensusParams(maxGas int64) *tmproto.ConsensusParams {
	return &tmproto.ConsensusParams{
		Block:     &tmproto.BlockParams{MaxBytes: 2_000_000, MaxGas: maxGas},
		Evidence:  &tmproto.EvidenceParams{MaxAgeNumBlocks: 302400, MaxAgeDuration: 504 * time.Hour, MaxBytes: 10000},
		Validator: &tmproto.ValidatorParams{PubKeyTypes: []string{cmttypes.ABCIPubKeyTypeEd25519}},
	}
}

func valConsKey(i int) *ed25519.PrivKey {
	return ed25519.GenPrivKeyFromSecret([]byte(fmt.Sprintf("verif/val/%d", i)))
}

// BuildGenesis builds the same deterministic genesis as simchain.NewNode
// (accounts AcctKey(i), bonded validators with self-delegation, bond denom
// uosmo) but only serialises it: every replica is initialised from the bytes.
func BuildGenesis(cfg GenesisConfig) *Genesis {
	cdc := app.GetEncodingConfig().Marshaler
	gs := app.NewDefaultGenesisState()
	g := &Genesis{Time: simchain.GenesisTime, InitialHeight: 1}
	if cfg.MaxBlockGas == 0 {
		cfg.MaxBlockGas = 120_000_000
	}
	g.ConsensusParams = ConsensusParams(cfg.MaxBlockGas)

	var genAccs []authtypes.GenesisAccount
	var balances []banktypes.Balance
	supply := sdk.NewCoins()
	for i := 0; i < cfg.Accounts; i++ {
		pk := simchain.AcctKey(i)
		addr := sdk.AccAddress(pk.PubKey().Address())
		g.Privs = append(g.Privs, pk)
		g.Accts = append(g.Accts, addr)
		genAccs = append(genAccs, authtypes.NewBaseAccount(addr, nil, uint64(i), 0))
		if !cfg.Fund.IsZero() {
			balances = append(balances, banktypes.Balance{Address: addr.String(), Coins: cfg.Fund})
			supply = supply.Add(cfg.Fund...)
		}
	}
	nv := cfg.Validators
	if nv < 1 {
		nv = 1
	}
	bondAmt := sdk.DefaultPowerReduction
	var vals []stakingtypes.Validator
	var dels []stakingtypes.Delegation
	var signing []slashingtypes.SigningInfo
	for i := 0; i < nv; i++ {
		cpk := valConsKey(i).PubKey()
		pkAny, err := codectypes.NewAnyWithValue(cpk)
		if err != nil {
			panic(err)
		}
		oh := sha256.Sum256([]byte(fmt.Sprintf("verif/valoper/%d", i)))
		op := sdk.ValAddress(oh[:20])
		g.ValAddrs = append(g.ValAddrs, op)
		g.ValCons = append(g.ValCons, cpk.Address())
		// validators that are bonded in genesis never pass through the staking hook
		// that creates their signing info; the slashing begin-blocker needs one as
		// soon as the last-commit carries their vote
		cons := sdk.ConsAddress(cpk.Address()).String()
		signing = append(signing, slashingtypes.SigningInfo{Address: cons, ValidatorSigningInfo: slashingtypes.ValidatorSigningInfo{Address: cons, JailedUntil: time.Unix(0, 0).UTC()}})
		vals = append(vals, stakingtypes.Validator{
			OperatorAddress: op.String(), ConsensusPubkey: pkAny, Status: stakingtypes.Bonded,
			Tokens: bondAmt, DelegatorShares: sdkmath.LegacyOneDec().MulInt(bondAmt),
			Description: stakingtypes.Description{Moniker: fmt.Sprintf("v%d", i)}, UnbondingTime: time.Unix(0, 0).UTC(),
			Commission:        stakingtypes.NewCommission(osmomath.ZeroDec(), osmomath.ZeroDec(), osmomath.ZeroDec()),
			MinSelfDelegation: sdkmath.ZeroInt(),
		})
		dels = append(dels, stakingtypes.NewDelegation(sdk.AccAddress(op).String(), op.String(), sdkmath.LegacyOneDec().MulInt(bondAmt)))
		genAccs = append(genAccs, authtypes.NewBaseAccount(sdk.AccAddress(op), nil, uint64(cfg.Accounts+i), 0))
		supply = supply.Add(sdk.NewCoin(simchain.BondDenom, bondAmt))
	}
	gs[authtypes.ModuleName] = cdc.MustMarshalJSON(authtypes.NewGenesisState(authtypes.DefaultParams(), genAccs))
	sp := stakingtypes.DefaultParams()
	sp.BondDenom = simchain.BondDenom
	gs[stakingtypes.ModuleName] = cdc.MustMarshalJSON(stakingtypes.NewGenesisState(sp, vals, dels))
	gs[slashingtypes.ModuleName] = cdc.MustMarshalJSON(slashingtypes.NewGenesisState(slashingtypes.DefaultParams(), signing, nil))
	balances = append(balances, banktypes.Balance{
		Address: authtypes.NewModuleAddress(stakingtypes.BondedPoolName).String(),
		Coins:   sdk.NewCoins(sdk.NewCoin(simchain.BondDenom, bondAmt.MulRaw(int64(nv)))),
	})
	gs[banktypes.ModuleName] = cdc.MustMarshalJSON(banktypes.NewGenesisState(banktypes.DefaultGenesisState().Params, balances, supply, nil, nil))
	if cfg.Mutate != nil {
		cfg.Mutate(cdc, gs)
	}
	// encoding/json sorts map keys: the genesis bytes are deterministic
	b, err := json.Marshal(gs)
	if err != nil {
		panic(err)
	}
	g.AppState = b
	return g
}
