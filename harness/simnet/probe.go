package simnet

import (
	"fmt"
	"sort"
	"time"

	abci "github.com/cometbft/cometbft/abci/types"
	sdk "github.com/cosmos/cosmos-sdk/types"
	banktypes "github.com/cosmos/cosmos-sdk/x/bank/types"

	"github.com/cosmos/cosmos-sdk/codec"
	"github.com/osmosis-labs/osmosis/v31/app"
	txfeestypes "github.com/osmosis-labs/osmosis/v31/x/txfees/types"

	"verif/harness/simchain"
)

// Probe is a plumbing smoke test with timings.
func Probe() {
	t0 := time.Now()
	g := BuildGenesis(GenesisConfig{Accounts: 3, Validators: 2, Fund: sdk.NewCoins(sdk.NewInt64Coin("uosmo", 1e15), sdk.NewInt64Coin("uion", 1e15)),
		Mutate: func(cdc codec.JSONCodec, gs app.GenesisState) {
			var tg txfeestypes.GenesisState
			cdc.MustUnmarshalJSON(gs[txfeestypes.ModuleName], &tg)
			tg.Basedenom = "uosmo"
			gs[txfeestypes.ModuleName] = cdc.MustMarshalJSON(&tg)
		}})
	fmt.Println("genesis", len(g.AppState), time.Since(t0))
	t0 = time.Now()
	a, err := NewReplicaFromGenesis("A", g)
	if err != nil {
		panic(err)
	}
	fmt.Println("replica", time.Since(t0), a.Height)
	txCfg := app.GetEncodingConfig().TxConfig
	votes := []abci.VoteInfo{}
	for _, c := range g.ValCons {
		votes = append(votes, abci.VoteInfo{Validator: abci.Validator{Address: c, Power: 1}, BlockIdFlag: 2})
	}
	for h := int64(2); h < 8; h++ {
		ctx := a.QueryCtx()
		acc := a.App.AccountKeeper.GetAccount(ctx, g.Accts[0])
		bd, _ := a.App.TxFeesKeeper.GetBaseDenom(ctx)
		gas := uint64(200000)
		if h == 4 {
			gas = 60000
		}
		if h == 5 {
			gas = 20000
		}
		fee := sdk.NewCoins(sdk.NewInt64Coin("uosmo", int64(gas)*3/100+1))
		if h == 6 {
			fee = nil
		}
		tx, err := SignTx(txCfg, simchain.ChainID, g.Privs[0], acc.GetAccountNumber(), acc.GetSequence(), gas, fee, "",
			&banktypes.MsgSend{FromAddress: g.Accts[0].String(), ToAddress: g.Accts[1].String(), Amount: sdk.NewCoins(sdk.NewInt64Coin("uion", 5))})
		if err != nil {
			panic(err)
		}
		t1 := time.Now()
		res := a.FinalizeAndCommit(&Block{Height: h, Time: g.Time.Add(time.Duration(h) * 5 * time.Second), Txs: [][]byte{tx}, Proposer: g.ValCons[0], Votes: votes})
		fmt.Println("h", h, "basedenom", bd, "seq", acc.GetSequence(), "err", res.Err, res.Panic, time.Since(t1))
		for _, t := range res.Txs {
			fmt.Printf("  code=%d cs=%s gw=%d gu=%d ev=%d log=%.150q\n", t.Code, t.Codespace, t.GasWanted, t.GasUsed, len(t.Events), t.Log)
		}
		fmt.Printf("  hash %x blockevents=%d\n", res.AppHash, len(res.Events))
	}
	// export in place (old app object while newer ones exist? none yet)
	_, err = a.ExportInPlace()
	fmt.Println("export in place, only app in process:", err)
	t0 = time.Now()
	exp, err := a.Export()
	fmt.Println("export via fresh app:", err, len(exp.AppState), exp.Height, len(exp.Validators), time.Since(t0))
	mods, _ := SplitModules(exp.AppState)
	names := []string{}
	for k := range mods {
		names = append(names, k)
	}
	sort.Strings(names)
	fmt.Println("modules:", names)
	fmt.Println("genesis modules:", a.GenesisModules())
	t0 = time.Now()
	d, err := NewReplicaFromExport("D", exp, a.Time, false)
	fmt.Println("import:", err, time.Since(t0))
	if err != nil {
		return
	}
	pm, err := d.ExportPending(nil)
	fmt.Println("pending export:", err, len(pm))
	dm, cerr := CanonModules(pm)
	fmt.Println("canon err:", cerr)
	for _, n := range names {
		if mods[n] != dm[n] {
			fmt.Println("DIFF", n)
			for _, l := range JSONDiff(mods[n], dm[n], 8) {
				fmt.Println("   ", l)
			}
		}
	}
	// crash before commit
	blk := &Block{Height: 8, Time: g.Time.Add(50 * time.Second), Proposer: g.ValCons[0], Votes: votes}
	r1 := a.Finalize(blk)
	a.Restart()
	r2 := a.FinalizeAndCommit(blk)
	fmt.Printf("crash-before-commit: %x %x\n", r1.AppHash, r2.AppHash)
	rd := d.FinalizeAndCommit(blk)
	fmt.Printf("D first block: err=%v panic=%v %x\n", rd.Err, rd.Panic, rd.AppHash)
	for _, l := range DiffStores(a, d, 3) {
		fmt.Println("  ", l)
	}
}
