package simnet

import (
	"context"

	"github.com/cosmos/cosmos-sdk/client"
	cryptotypes "github.com/cosmos/cosmos-sdk/crypto/types"
	sdk "github.com/cosmos/cosmos-sdk/types"
	"github.com/cosmos/cosmos-sdk/types/tx/signing"
	authsigning "github.com/cosmos/cosmos-sdk/x/auth/signing"
)

// SignTx builds, signs (SIGN_MODE_DIRECT, one signer) and encodes a
// transaction. Nothing here is random: secp256k1 signatures are RFC 6979
// deterministic and the memo is given (sims.GenSignedMockTx draws a random
// memo from math/rand and is therefore not used).
func SignTx(txCfg client.TxConfig, chainID string, priv cryptotypes.PrivKey, accNum, seq, gas uint64, fee sdk.Coins, memo string, msgs ...sdk.Msg) ([]byte, error) {
	b := txCfg.NewTxBuilder()
	if err := b.SetMsgs(msgs...); err != nil {
		return nil, err
	}
	b.SetMemo(memo)
	b.SetFeeAmount(fee)
	b.SetGasLimit(gas)
	mode := signing.SignMode_SIGN_MODE_DIRECT
	sig := signing.SignatureV2{PubKey: priv.PubKey(), Data: &signing.SingleSignatureData{SignMode: mode}, Sequence: seq}
	if err := b.SetSignatures(sig); err != nil {
		return nil, err
	}
	sd := authsigning.SignerData{Address: sdk.AccAddress(priv.PubKey().Address()).String(), ChainID: chainID, AccountNumber: accNum, Sequence: seq, PubKey: priv.PubKey()}
	signBytes, err := authsigning.GetSignBytesAdapter(context.Background(), txCfg.SignModeHandler(), mode, sd, b.GetTx())
	if err != nil {
		return nil, err
	}
	s, err := priv.Sign(signBytes)
	if err != nil {
		return nil, err
	}
	sig.Data = &signing.SingleSignatureData{SignMode: mode, Signature: s}
	if err := b.SetSignatures(sig); err != nil {
		return nil, err
	}
	return txCfg.TxEncoder()(b.GetTx())
}
