package simnet

import (
	"bytes"
	"encoding/json"
	"fmt"
	"sort"
)

// Canon re-encodes JSON with object keys sorted and insignificant white space
// removed. Arrays keep their order. Numbers are kept as written.
func Canon(raw []byte) (string, error) {
	if len(bytes.TrimSpace(raw)) == 0 {
		return "null", nil // a module that exports nothing (json.Marshal writes null for it)
	}
	dec := json.NewDecoder(bytes.NewReader(raw))
	dec.UseNumber()
	var v interface{}
	if err := dec.Decode(&v); err != nil {
		return "", err
	}
	// encoding/json sorts map keys
	b, err := json.Marshal(v)
	return string(b), err
}

// SplitModules parses an exported application state into canonical JSON per module.
func SplitModules(appState []byte) (map[string]string, error) {
	var m map[string]json.RawMessage
	if err := json.Unmarshal(appState, &m); err != nil {
		return nil, err
	}
	return CanonModules(m)
}

func CanonModules(m map[string]json.RawMessage) (map[string]string, error) {
	out := map[string]string{}
	for k, v := range m {
		c, err := Canon(v)
		if err != nil {
			return nil, fmt.Errorf("module %s: %w", k, err)
		}
		out[k] = c
	}
	return out, nil
}

// JSONDiff lists up to max paths at which two JSON documents differ.
func JSONDiff(a, b string, max int) []string {
	var va, vb interface{}
	da := json.NewDecoder(bytes.NewReader([]byte(a)))
	da.UseNumber()
	db := json.NewDecoder(bytes.NewReader([]byte(b)))
	db.UseNumber()
	if da.Decode(&va) != nil || db.Decode(&vb) != nil {
		return []string{"<unparsable>"}
	}
	var out []string
	var walk func(path string, x, y interface{})
	short := func(v interface{}) string {
		s, _ := json.Marshal(v)
		if len(s) > 160 {
			return string(s[:160]) + "..."
		}
		return string(s)
	}
	walk = func(path string, x, y interface{}) {
		if len(out) >= max {
			return
		}
		switch xv := x.(type) {
		case map[string]interface{}:
			yv, ok := y.(map[string]interface{})
			if !ok {
				out = append(out, fmt.Sprintf("%s: %s != %s", path, short(x), short(y)))
				return
			}
			keys := map[string]bool{}
			for k := range xv {
				keys[k] = true
			}
			for k := range yv {
				keys[k] = true
			}
			ks := make([]string, 0, len(keys))
			for k := range keys {
				ks = append(ks, k)
			}
			sort.Strings(ks)
			for _, k := range ks {
				xe, xok := xv[k]
				ye, yok := yv[k]
				switch {
				case !xok:
					out = append(out, fmt.Sprintf("%s.%s: <absent> != %s", path, k, short(ye)))
				case !yok:
					out = append(out, fmt.Sprintf("%s.%s: %s != <absent>", path, k, short(xe)))
				default:
					walk(path+"."+k, xe, ye)
				}
				if len(out) >= max {
					return
				}
			}
		case []interface{}:
			yv, ok := y.([]interface{})
			if !ok {
				out = append(out, fmt.Sprintf("%s: %s != %s", path, short(x), short(y)))
				return
			}
			if len(xv) != len(yv) {
				out = append(out, fmt.Sprintf("%s: array length %d != %d", path, len(xv), len(yv)))
			} else if len(xv) > 1 {
				// the same elements in another order is one difference, not one per element
				ex, ey := make([]string, len(xv)), make([]string, len(yv))
				first := -1
				for i := range xv {
					bx, _ := json.Marshal(xv[i])
					by, _ := json.Marshal(yv[i])
					ex[i], ey[i] = string(bx), string(by)
					if first < 0 && ex[i] != ey[i] {
						first = i
					}
				}
				if first >= 0 {
					sx, sy := append([]string(nil), ex...), append([]string(nil), ey...)
					sort.Strings(sx)
					sort.Strings(sy)
					same := true
					for i := range sx {
						if sx[i] != sy[i] {
							same = false
							break
						}
					}
					if same {
						out = append(out, fmt.Sprintf("%s<order>: same %d elements in a different order, first at index %d: %s != %s", path, len(xv), first, short(xv[first]), short(yv[first])))
						return
					}
				}
			}
			n := len(xv)
			if len(yv) < n {
				n = len(yv)
			}
			for i := 0; i < n; i++ {
				walk(fmt.Sprintf("%s[%d]", path, i), xv[i], yv[i])
			}
		default:
			if short(x) != short(y) {
				out = append(out, fmt.Sprintf("%s: %s != %s", path, short(x), short(y)))
			}
		}
	}
	walk("$", va, vb)
	return out
}
