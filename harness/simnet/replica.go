package simnet

import (
	"bytes"
	"encoding/json"
	"fmt"
	"sort"
	"time"

	abci "github.com/cometbft/cometbft/abci/types"
	tmproto "github.com/cometbft/cometbft/proto/tendermint/types"
	cmttypes "github.com/cometbft/cometbft/types"
	dbm "github.com/cosmos/cosmos-db"
	servertypes "github.com/cosmos/cosmos-sdk/server/types"
	sdk "github.com/cosmos/cosmos-sdk/types"
	"github.com/cosmos/cosmos-sdk/x/crisis"

	"github.com/osmosis-labs/osmosis/v31/app"

	"verif/harness/simchain"
)

// AppOptions is a map-backed servertypes.AppOptions.
type AppOptions map[string]interface{}

func (o AppOptions) Get(k string) interface{} { return o[k] }

// Block is one entry of the block stream every replica is fed.
type Block struct {
	Height   int64
	Time     time.Time
	Txs      [][]byte
	Proposer []byte
	Votes    []abci.VoteInfo
}

// TxResult is what a replica reports for one transaction.
type TxResult struct {
	Code      uint32
	Codespace string
	Data      []byte
	GasWanted int64
	GasUsed   int64
	Events    []abci.Event
	Log       string
}

// BlockResult is what a replica reports for one block.
type BlockResult struct {
	Height     int64
	Txs        []TxResult
	Events     []abci.Event // begin/end-block events
	ValUpdates []abci.ValidatorUpdate
	AppHash    []byte      // working hash returned by FinalizeBlock (== committed hash)
	Err        error       // FinalizeBlock returned an error (node would halt)
	Panic      interface{} // FinalizeBlock panicked (node would crash)
}

// Halted is true when the block could not be executed.
func (b *BlockResult) Halted() bool { return b.Err != nil || b.Panic != nil }

// Replica is one node: an application object over its own disk.
type Replica struct {
	Name     string
	App      *app.OsmosisApp
	DB       dbm.DB
	Height   int64 // last committed height
	Time     time.Time
	Restarts int
	pending  *Block
}

// NewReplicaFromGenesis runs InitChain on a fresh disk and commits the first
// block (height g.InitialHeight, empty, at genesis time) exactly like
// simchain.NewNode does, so that the InitChain state is durable.
func NewReplicaFromGenesis(name string, g *Genesis) (*Replica, error) {
	r := &Replica{Name: name, DB: dbm.NewMemDB(), Time: g.Time}
	r.App = simchain.NewAppWithOptions(r.DB, AppOptions{})
	if err := r.initChain(g); err != nil {
		return nil, err
	}
	res := r.FinalizeAndCommit(&Block{Height: g.InitialHeight, Time: g.Time})
	if res.Halted() {
		return nil, fmt.Errorf("first block: err=%v panic=%v", res.Err, res.Panic)
	}
	return r, nil
}

func (r *Replica) initChain(g *Genesis) (err error) {
	defer func() {
		if x := recover(); x != nil {
			err = fmt.Errorf("InitChain panicked: %v", x)
		}
	}()
	_, err = r.App.InitChain(&abci.RequestInitChain{
		ChainId: simchain.ChainID, Time: g.Time, ConsensusParams: g.ConsensusParams,
		Validators: g.Validators, AppStateBytes: g.AppState, InitialHeight: g.InitialHeight,
	})
	r.Height = g.InitialHeight - 1
	return err
}

// Finalize runs the real FinalizeBlock (pre-blocker, begin-blocker, every tx
// through ante handler / message router / post handler, end-blocker) WITHOUT
// committing. A panic that escapes BaseApp is caught and reported.
func (r *Replica) Finalize(b *Block) (out *BlockResult) {
	// The ABCI call runs on a goroutine of its own, as it does in a real node (CometBFT calls the application
	// from its own goroutines). The application stores Go stack traces in consensus state in at least one place
	// (the SDK's gov module keeps "failed to run legacy handler ... %+v" of a failed legacy proposal in the
	// proposal record): with the call made directly, the trace would end in the simulator's own frames, which
	// differ from replica to replica - an artefact of the harness, not of the application.
	done := make(chan *BlockResult, 1)
	go func() { done <- r.finalize(b) }()
	return <-done
}

func (r *Replica) finalize(b *Block) (out *BlockResult) {
	out = &BlockResult{Height: b.Height}
	defer func() {
		if x := recover(); x != nil {
			out.Panic = x
		}
	}()
	res, err := r.App.FinalizeBlock(&abci.RequestFinalizeBlock{
		Height: b.Height, Time: b.Time, Txs: b.Txs, ProposerAddress: b.Proposer,
		DecidedLastCommit: abci.CommitInfo{Votes: b.Votes},
	})
	if err != nil {
		out.Err = err
		return out
	}
	for _, t := range res.TxResults {
		out.Txs = append(out.Txs, TxResult{Code: t.Code, Codespace: t.Codespace, Data: t.Data, GasWanted: t.GasWanted, GasUsed: t.GasUsed, Events: t.Events, Log: t.Log})
	}
	out.Events = res.Events
	out.ValUpdates = res.ValidatorUpdates
	out.AppHash = res.AppHash
	r.pending = b
	return out
}

// Commit persists the block finalized last.
func (r *Replica) Commit() {
	if r.pending == nil {
		panic("Commit without Finalize")
	}
	if _, err := r.App.Commit(); err != nil {
		panic(err)
	}
	r.Height, r.Time = r.pending.Height, r.pending.Time
	r.pending = nil
}

// FinalizeAndCommit executes and persists one block. After a halt nothing is committed.
func (r *Replica) FinalizeAndCommit(b *Block) *BlockResult {
	res := r.Finalize(b)
	if res.Halted() {
		r.pending = nil
		return res
	}
	r.Commit()
	if h := r.App.LastCommitID().Hash; !bytes.Equal(h, res.AppHash) {
		panic(fmt.Sprintf("%s: committed hash %x differs from working hash %x at height %d", r.Name, h, res.AppHash, b.Height))
	}
	return res
}

// Restart drops the application object (every in-memory keeper cache, and a
// finalized-but-uncommitted block if there is one) and builds a new one over
// the same disk.
func (r *Replica) Restart() {
	r.pending = nil
	r.App = simchain.NewAppWithOptions(r.DB, AppOptions{})
	if r.App.LastBlockHeight() != r.Height {
		panic(fmt.Sprintf("%s restart: durable height %d, expected %d", r.Name, r.App.LastBlockHeight(), r.Height))
	}
	r.Restarts++
}

// QueryCtx is a throw-away branch of the last committed state.
func (r *Replica) QueryCtx() sdk.Context {
	ctx := r.App.NewContextLegacy(true, tmproto.Header{ChainID: simchain.ChainID, Height: r.Height, Time: r.Time})
	c, _ := ctx.CacheContext()
	return c
}

// PendingCtx is a throw-away branch of the state written by InitChain that no
// block has committed yet.
func (r *Replica) PendingCtx() sdk.Context {
	ctx := r.App.NewContextLegacy(false, tmproto.Header{ChainID: simchain.ChainID, Height: r.Height, Time: r.Time})
	c, _ := ctx.CacheContext()
	return c
}

// Export stops-and-exports: a fresh application object is opened over the
// replica's disk (as `osmosisd export` does in a fresh process) and the real
// whole-application export runs on it. The replica itself is not disturbed.
func (r *Replica) Export() (exp servertypes.ExportedApp, err error) {
	defer func() {
		if x := recover(); x != nil {
			err = fmt.Errorf("export panicked: %v", x)
		}
	}()
	tmp := simchain.NewAppWithOptions(r.DB, AppOptions{})
	if tmp.LastBlockHeight() != r.Height {
		return exp, fmt.Errorf("export: durable height %d, expected %d", tmp.LastBlockHeight(), r.Height)
	}
	return tmp.ExportAppStateAndValidators(false, nil, nil)
}

// ExportInPlace runs the whole-application export on the replica's own
// (long-lived) application object.
func (r *Replica) ExportInPlace() (exp servertypes.ExportedApp, err error) {
	defer func() {
		if x := recover(); x != nil {
			err = fmt.Errorf("export panicked: %v", x)
		}
	}()
	return r.App.ExportAppStateAndValidators(false, nil, nil)
}

// GenesisModules lists (sorted) the modules that take part in genesis export.
func (r *Replica) GenesisModules() []string {
	mm := r.App.ModuleManager()
	names := append([]string(nil), mm.OrderExportGenesis...)
	sort.Strings(names)
	return names
}

// ExportPending exports module genesis from the state written by InitChain
// that no block has committed yet (the "right after import" state). It uses
// the same module-manager entry point and the same kind of context (header
// with only the height) as ExportAppStateAndValidators.
func (r *Replica) ExportPending(modules []string) (out map[string]json.RawMessage, err error) {
	defer func() {
		if x := recover(); x != nil {
			err = fmt.Errorf("export panicked: %v", x)
		}
	}()
	ctx := r.App.NewContextLegacy(false, tmproto.Header{Height: r.Height})
	ctx, _ = ctx.CacheContext()
	mm := r.App.ModuleManager()
	return mm.ExportGenesisForModules(ctx, r.App.AppCodec(), modules)
}

// NewReplicaFromExport initialises a fresh replica from an export, the way an
// operator restarts a chain from an exported genesis: InitChain with the
// exported application state, validators, consensus parameters and initial
// height. genesisTime is the genesis_time the operator writes. Nothing is
// committed: the first block of the new chain is exp.Height.
//
// skipGenesisInvariants is the operator flag --x-crisis-skip-assert-invariants.
// It only matters during InitChain, so a later Restart (which builds the
// application object with default options) does not change behaviour.
func NewReplicaFromExport(name string, exp servertypes.ExportedApp, genesisTime time.Time, skipGenesisInvariants bool) (*Replica, error) {
	r := &Replica{Name: name, DB: dbm.NewMemDB(), Time: genesisTime}
	r.App = simchain.NewAppWithOptions(r.DB, AppOptions{crisis.FlagSkipGenesisInvariants: skipGenesisInvariants})
	vals := make([]*cmttypes.Validator, 0, len(exp.Validators))
	for _, v := range exp.Validators {
		vals = append(vals, cmttypes.NewValidator(v.PubKey, v.Power))
	}
	g := &Genesis{AppState: exp.AppState, Time: genesisTime, InitialHeight: exp.Height,
		ConsensusParams: &exp.ConsensusParams, Validators: cmttypes.TM2PB.ValidatorUpdates(cmttypes.NewValidatorSet(vals))}
	if err := r.initChain(g); err != nil {
		return nil, err
	}
	return r, nil
}

// DiffStores compares the committed KV stores of two replicas store by store
// and describes the first few differing keys (debugging aid for app-hash
// mismatches).
func DiffStores(a, b *Replica, maxPerStore int) []string {
	out, _ := DiffStoresNamed(a, b, maxPerStore)
	return out
}

// DiffStoresNamed is DiffStores that also returns the names of the stores that differ.
func DiffStoresNamed(a, b *Replica, maxPerStore int) ([]string, []string) {
	var out, differing []string
	ka, kb := a.App.GetKVStoreKey(), b.App.GetKVStoreKey()
	names := make([]string, 0, len(ka))
	for n := range ka {
		names = append(names, n)
	}
	sort.Strings(names)
	ca, cb := a.QueryCtx(), b.QueryCtx()
	for _, n := range names {
		if kb[n] == nil {
			out = append(out, fmt.Sprintf("[%s] missing on %s", n, b.Name))
			differing = append(differing, n)
			continue
		}
		ia := ca.MultiStore().GetKVStore(ka[n]).Iterator(nil, nil)
		ib := cb.MultiStore().GetKVStore(kb[n]).Iterator(nil, nil)
		cnt := 0
		for (ia.Valid() || ib.Valid()) && cnt < maxPerStore {
			switch {
			case !ib.Valid() || (ia.Valid() && bytes.Compare(ia.Key(), ib.Key()) < 0):
				out = append(out, fmt.Sprintf("[%s] only %s: %x (%q) = %x", n, a.Name, ia.Key(), ia.Key(), ia.Value()))
				cnt++
				ia.Next()
			case !ia.Valid() || bytes.Compare(ia.Key(), ib.Key()) > 0:
				out = append(out, fmt.Sprintf("[%s] only %s: %x (%q) = %x", n, b.Name, ib.Key(), ib.Key(), ib.Value()))
				cnt++
				ib.Next()
			default:
				if !bytes.Equal(ia.Value(), ib.Value()) {
					out = append(out, fmt.Sprintf("[%s] key %x (%q): %s=%x %s=%x", n, ia.Key(), ia.Key(), a.Name, ia.Value(), b.Name, ib.Value()))
					cnt++
				}
				ia.Next()
				ib.Next()
			}
		}
		ia.Close()
		ib.Close()
		if cnt > 0 {
			differing = append(differing, n)
		}
	}
	return out, differing
}

// keyClass names the kind of a raw store key: its leading run of letters,
// digits-free (an ASCII prefix such as "denom_pair_taker_fee"), or else its
// first byte in hex.
func keyClass(k []byte) string {
	n := 0
	for n < len(k) && n < 32 && (k[n] >= 'a' && k[n] <= 'z' || k[n] == '_') {
		n++
	}
	if n >= 3 {
		return string(k[:n])
	}
	if len(k) == 0 {
		return "empty"
	}
	if len(k) > 1 && k[1] == '/' {
		// <prefix byte><empty name>/...: a per-denomination sub-store opened with an empty denomination
		return fmt.Sprintf("0x%02x-empty-name", k[0])
	}
	return fmt.Sprintf("0x%02x", k[0])
}

// DiffStoreClasses compares the committed KV stores of two replicas and
// returns, sorted, one entry "<store>/<key class>/<only-A|only-B|value>" per
// class of differing keys.
func DiffStoreClasses(a, b *Replica) []string {
	out, _ := DiffStoreClassesEx(a, b, nil)
	return out
}

// DiffStoreClassesEx is DiffStoreClasses that also returns one example key per class. refine, when set,
// may return a suffix that splits a class by what the differing entry holds (va / vb nil = absent).
func DiffStoreClassesEx(a, b *Replica, refine func(store string, key, va, vb []byte) string) ([]string, map[string]string) {
	return DiffStoreClassesCtx(a, b, a.QueryCtx(), b.QueryCtx(), refine)
}

// DiffStoreClassesCtx is DiffStoreClassesEx over explicit contexts (for instance the committed state of a
// and the not yet committed state of b right after its InitChain).
func DiffStoreClassesCtx(a, b *Replica, ca, cb sdk.Context, refine func(store string, key, va, vb []byte) string) ([]string, map[string]string) {
	cls := func(store string, key, va, vb []byte) string {
		c := keyClass(key)
		if refine != nil {
			c += refine(store, key, va, vb)
		}
		return store + "/" + c
	}
	set := map[string]bool{}
	ex := map[string]string{}
	note := func(c string, format string, args ...interface{}) {
		if !set[c] {
			set[c] = true
			ex[c] = fmt.Sprintf(format, args...)
		}
	}
	ka, kb := a.App.GetKVStoreKey(), b.App.GetKVStoreKey()
	names := make([]string, 0, len(ka))
	for n := range ka {
		names = append(names, n)
	}
	sort.Strings(names)
	for _, n := range names {
		if kb[n] == nil {
			continue
		}
		ia := ca.MultiStore().GetKVStore(ka[n]).Iterator(nil, nil)
		ib := cb.MultiStore().GetKVStore(kb[n]).Iterator(nil, nil)
		for ia.Valid() || ib.Valid() {
			switch {
			case !ib.Valid() || (ia.Valid() && bytes.Compare(ia.Key(), ib.Key()) < 0):
				note(cls(n, ia.Key(), ia.Value(), nil)+"/only-"+a.Name, "key %x (%q) = %x exists on %s only", ia.Key(), ia.Key(), ia.Value(), a.Name)
				ia.Next()
			case !ia.Valid() || bytes.Compare(ia.Key(), ib.Key()) > 0:
				note(cls(n, ib.Key(), nil, ib.Value())+"/only-"+b.Name, "key %x (%q) = %x exists on %s only", ib.Key(), ib.Key(), ib.Value(), b.Name)
				ib.Next()
			default:
				if !bytes.Equal(ia.Value(), ib.Value()) {
					note(cls(n, ia.Key(), ia.Value(), ib.Value())+"/value", "key %x (%q): %s=%x %s=%x", ia.Key(), ia.Key(), a.Name, ia.Value(), b.Name, ib.Value())
				}
				ia.Next()
				ib.Next()
			}
		}
		ia.Close()
		ib.Close()
	}
	out := make([]string, 0, len(set))
	for c := range set {
		out = append(out, c)
	}
	sort.Strings(out)
	return out, ex
}
