package authz

import (
	"fmt"
	"time"

	sdk "github.com/cosmos/cosmos-sdk/types"
	banktypes "github.com/cosmos/cosmos-sdk/x/bank/types"

	"github.com/osmosis-labs/osmosis/osmomath"
	clmodel "github.com/osmosis-labs/osmosis/v31/x/concentrated-liquidity/model"
	cltypes "github.com/osmosis-labs/osmosis/v31/x/concentrated-liquidity/types"
	"github.com/osmosis-labs/osmosis/v31/x/gamm/pool-models/balancer"
	gammtypes "github.com/osmosis-labs/osmosis/v31/x/gamm/types"
	lockuptypes "github.com/osmosis-labs/osmosis/v31/x/lockup/types"
	pmtypes "github.com/osmosis-labs/osmosis/v31/x/poolmanager/types"
	sftypes "github.com/osmosis-labs/osmosis/v31/x/superfluid/types"
	tftypes "github.com/osmosis-labs/osmosis/v31/x/tokenfactory/types"

	"verif/harness/simchain"
	"verif/harness/simcore"
)

var spreadFactors = []string{"0.003", "0.0005", "0.005"}

// bootstrap creates, by messages, the pools every run needs and registers
// their share denoms as superfluid assets (keeper call: governance-only).
func (w *world) bootstrap(spreadSel int64) bool {
	n, run := w.n, w.run
	must := func(what string, msg sdk.Msg) (simchain.Result, bool) {
		res := n.Deliver(msg, 0, false)
		run.Logf("bootstrap %s -> %s %v", what, res.Outcome, res.Err)
		if !res.OK() {
			run.Logf("bootstrap failed at %s: %v %v", what, res.Err, res.Panic)
			return res, false
		}
		return res, true
	}
	ub, err := n.App.StakingKeeper.UnbondingTime(n.Ctx)
	if err != nil {
		return false
	}
	w.unbonding = ub
	bp := balancer.NewMsgCreateBalancerPool(n.Accts[0], balancer.PoolParams{SwapFee: osmomath.MustNewDecFromStr("0.01"), ExitFee: osmomath.ZeroDec()},
		[]balancer.PoolAsset{
			{Token: sdk.NewInt64Coin("uion", 20_000_000_000), Weight: osmomath.NewInt(1)},
			{Token: sdk.NewInt64Coin(simchain.BondDenom, 20_000_000_000), Weight: osmomath.NewInt(1)},
		}, "")
	res, ok := must("balancer-pool", &bp)
	if !ok {
		return false
	}
	w.bpool = respOf(res).(*balancer.MsgCreateBalancerPoolResponse).PoolID
	share := osmomath.NewInt(10).Mul(osmomath.NewInt(1_000_000_000_000_000_000)) // 10 shares of the initial 100
	for u := 1; u < w.users; u++ {
		if _, ok := must("join", &gammtypes.MsgJoinPool{Sender: w.addr(u), PoolId: w.bpool, ShareOutAmount: share,
			TokenInMaxs: sdk.NewCoins(sdk.NewInt64Coin("uion", 10_000_000_000), sdk.NewInt64Coin(simchain.BondDenom, 10_000_000_000))}); !ok {
			return false
		}
	}
	cp := clmodel.NewMsgCreateConcentratedPool(n.Accts[0], "uion", simchain.BondDenom, 100, osmomath.MustNewDecFromStr(spreadFactors[int(spreadSel)%len(spreadFactors)]))
	res, ok = must("cl-pool", &cp)
	if !ok {
		return false
	}
	w.cpool = respOf(res).(*clmodel.MsgCreateConcentratedPoolResponse).PoolID
	// base full-range position (user 0), so that the pool has a price and a full-range liquidity
	res, ok = must("base-position", &cltypes.MsgCreatePosition{PoolId: w.cpool, Sender: w.addr(0), LowerTick: cltypes.MinInitializedTick, UpperTick: cltypes.MaxTick,
		TokensProvided: sdk.NewCoins(sdk.NewInt64Coin("uion", 5_000_000_000), sdk.NewInt64Coin(simchain.BondDenom, 5_000_000_000)), TokenMinAmount0: osmomath.ZeroInt(), TokenMinAmount1: osmomath.ZeroInt()})
	if !ok {
		return false
	}
	id := respOf(res).(*cltypes.MsgCreatePositionResponse).PositionId
	w.pos[id] = &refPos{id: id, owner: 0}
	// governance-only: superfluid assets
	for _, a := range []sftypes.SuperfluidAsset{
		{Denom: w.gammDenom(), AssetType: sftypes.SuperfluidAssetTypeLPShare},
		{Denom: w.clDenom(), AssetType: sftypes.SuperfluidAssetTypeConcentratedShare},
	} {
		if err := n.App.SuperfluidKeeper.AddNewSuperfluidAsset(n.Ctx, a); err != nil {
			run.Logf("bootstrap: AddNewSuperfluidAsset(%s): %v", a.Denom, err)
			return false
		}
	}
	return true
}

func (w *world) pickPos(sel int64) *refPos {
	ids := w.livePositions()
	if len(ids) == 0 {
		return nil
	}
	return w.pos[ids[int(sel%int64(len(ids)))]]
}

func (w *world) pickLock(sel int64, keep func(l *lockuptypes.PeriodLock) bool) (*refLock, *lockuptypes.PeriodLock) {
	var cand []uint64
	for _, id := range w.liveLocks() {
		l, _ := w.n.App.LockupKeeper.GetLockByID(w.n.Ctx, id)
		if keep == nil || keep(l) {
			cand = append(cand, id)
		}
	}
	if len(cand) == 0 {
		return nil, nil
	}
	id := cand[int(sel%int64(len(cand)))]
	l, _ := w.n.App.LockupKeeper.GetLockByID(w.n.Ctx, id)
	return w.locks[id], l
}

func (w *world) otherUser(not int, sel int64) int {
	return (not + 1 + int(sel%int64(w.users-1))) % w.users
}

// sfState classifies a lock for superfluid purposes.
//
//	0 none, 1 eligible for delegation, 2 delegated (bonded), 3 undelegating (synthetic lock unlocking)
func (w *world) sfState(l *lockuptypes.PeriodLock) int {
	n := w.n
	if !n.App.SuperfluidKeeper.GetLockIdIntermediaryAccountConnection(n.Ctx, l.ID).Empty() {
		return 2
	}
	if n.App.LockupKeeper.HasAnySyntheticLockups(n.Ctx, l.ID) {
		return 3
	}
	if len(l.Coins) == 1 && l.Coins[0].Denom == w.gammDenom() && !l.IsUnlocking() && l.Duration >= w.unbonding {
		return 1
	}
	return 0
}

func (w *world) durations() []time.Duration {
	return []time.Duration{24 * time.Hour, w.unbonding, w.unbonding + 9*24*time.Hour}
}

// holder returns a user holding a positive spendable balance of denom,
// starting the search at sel, or -1.
func (w *world) holder(denom string, sel int64) int {
	for k := 0; k < w.users; k++ {
		u := (int(sel%int64(w.users)) + k) % w.users
		if w.n.Balance(w.n.Ctx, w.n.Accts[u], denom).IsPositive() {
			return u
		}
	}
	return -1
}

func metadataFor(denom string, variant int64) banktypes.Metadata {
	return banktypes.Metadata{
		Description: fmt.Sprintf("described #%d", variant),
		DenomUnits:  []*banktypes.DenomUnit{{Denom: denom, Exponent: 0}, {Denom: fmt.Sprintf("m%dtoken", variant), Exponent: 6}},
		Base:        denom, Display: denom, Name: fmt.Sprintf("name%d", variant), Symbol: fmt.Sprintf("SYM%d", variant),
	}
}

// legit executes one step of legitimate activity: the sender is the owner or
// admin according to the reference. An unexpected failure is not a C20 matter.
func (w *world) legit(i int, st simcore.Step) {
	n, run := w.n, w.run
	var msg sdk.Msg
	var apply func(res simchain.Result)
	switch st.Op {
	case "clpos":
		u := int(st.Arg(0) % int64(w.users))
		pool, err := n.App.ConcentratedLiquidityKeeper.GetConcentratedPoolById(n.Ctx, w.cpool)
		if err != nil {
			break
		}
		sp := int64(pool.GetTickSpacing())
		cur := pool.GetCurrentTick()
		base := cur - ((cur%sp)+sp)%sp
		k := st.Arg(2)
		lo, hi := cltypes.MinInitializedTick, cltypes.MaxTick
		switch st.Arg(1) {
		case 1:
			lo, hi = base-k*sp, base+(k+1)*sp
		case 2:
			lo, hi = base-k*100*sp, base+(k*100+1)*sp
		case 3:
			lo, hi = base+k*sp, base+(2*k+1)*sp
		}
		if lo < cltypes.MinInitializedTick {
			lo = cltypes.MinInitializedTick
		}
		if hi > cltypes.MaxTick {
			hi = cltypes.MaxTick
		}
		amt := st.Arg(3)
		msg = &cltypes.MsgCreatePosition{PoolId: w.cpool, Sender: w.addr(u), LowerTick: lo, UpperTick: hi,
			TokensProvided: sdk.NewCoins(sdk.NewInt64Coin("uion", amt), sdk.NewInt64Coin(simchain.BondDenom, amt)), TokenMinAmount0: osmomath.ZeroInt(), TokenMinAmount1: osmomath.ZeroInt()}
		apply = func(res simchain.Result) {
			id := respOf(res).(*cltypes.MsgCreatePositionResponse).PositionId
			w.pos[id] = &refPos{id: id, owner: u}
		}
	case "cltransfer":
		p := w.pickPos(st.Arg(0))
		if p == nil {
			break
		}
		to := w.otherUser(p.owner, st.Arg(1))
		msg = &cltypes.MsgTransferPositions{PositionIds: []uint64{p.id}, Sender: w.addr(p.owner), NewOwner: w.addr(to)}
		apply = func(res simchain.Result) {
			p.prev = append(p.prev, p.owner)
			p.owner = to
			run.Probe("position-transferred")
		}
	case "clswap":
		u := int(st.Arg(0) % int64(w.users))
		in, out := "uion", simchain.BondDenom
		if st.Arg(1) == 1 {
			in, out = out, in
		}
		msg = &pmtypes.MsgSwapExactAmountIn{Sender: w.addr(u), Routes: []pmtypes.SwapAmountInRoute{{PoolId: w.cpool, TokenOutDenom: out}},
			TokenIn: sdk.NewInt64Coin(in, st.Arg(2)), TokenOutMinAmount: osmomath.OneInt()}
	case "clwithdraw":
		p := w.pickPos(st.Arg(0))
		if p == nil {
			break
		}
		pos, _ := n.App.ConcentratedLiquidityKeeper.GetPosition(n.Ctx, p.id)
		liq := pos.Liquidity
		if bp := st.Arg(1); bp != 10000 {
			liq = pos.Liquidity.MulInt64(bp).QuoInt64(10000)
		}
		if !liq.IsPositive() {
			break
		}
		msg = &cltypes.MsgWithdrawPosition{PositionId: p.id, Sender: w.addr(p.owner), LiquidityAmount: liq}
	case "clcollect":
		p := w.pickPos(st.Arg(0))
		if p == nil {
			break
		}
		if st.Arg(1) == 0 {
			msg = &cltypes.MsgCollectSpreadRewards{PositionIds: []uint64{p.id}, Sender: w.addr(p.owner)}
		} else {
			msg = &cltypes.MsgCollectIncentives{PositionIds: []uint64{p.id}, Sender: w.addr(p.owner)}
		}
	case "cladd":
		p := w.pickPos(st.Arg(0))
		if p == nil {
			break
		}
		msg = &cltypes.MsgAddToPosition{PositionId: p.id, Sender: w.addr(p.owner), Amount0: osmomath.NewInt(st.Arg(1)), Amount1: osmomath.NewInt(st.Arg(2)),
			TokenMinAmount0: osmomath.ZeroInt(), TokenMinAmount1: osmomath.ZeroInt()}
		apply = func(res simchain.Result) {
			id := respOf(res).(*cltypes.MsgAddToPositionResponse).PositionId
			w.pos[id] = &refPos{id: id, owner: p.owner, prev: p.prev}
			delete(w.pos, p.id)
			run.Probe("position-replaced-by-add")
		}
	case "clsf":
		u := int(st.Arg(0) % int64(w.users))
		amt := st.Arg(1)
		msg = &sftypes.MsgCreateFullRangePositionAndSuperfluidDelegate{Sender: w.addr(u), PoolId: w.cpool, ValAddr: w.val,
			Coins: sdk.NewCoins(sdk.NewInt64Coin("uion", amt), sdk.NewInt64Coin(simchain.BondDenom, amt))}
		apply = func(res simchain.Result) {
			r := respOf(res).(*sftypes.MsgCreateFullRangePositionAndSuperfluidDelegateResponse)
			w.pos[r.PositionID] = &refPos{id: r.PositionID, owner: u}
			w.locks[r.LockID] = &refLock{id: r.LockID, owner: u}
			run.Probe("superfluid-staked-position")
		}
	case "lock":
		u := int(st.Arg(0) % int64(w.users))
		denom := "uion"
		switch st.Arg(1) {
		case 1, 2:
			denom = w.gammDenom()
		case 3, 4:
			for k := 0; k < len(w.denoms); k++ {
				d := w.denoms[(int(st.Arg(0)/8)+k)%len(w.denoms)]
				if n.Balance(n.Ctx, n.Accts[u], d.denom).IsPositive() {
					denom = d.denom
					run.Probe("factory-tokens-locked")
					break
				}
			}
		}
		dur := w.durations()[int(st.Arg(2))%3]
		amt := n.Balance(n.Ctx, n.Accts[u], denom).MulRaw(st.Arg(3)).QuoRaw(20000)
		if !amt.IsPositive() {
			break
		}
		msg = &lockuptypes.MsgLockTokens{Owner: w.addr(u), Duration: dur, Coins: sdk.NewCoins(coin(denom, amt))}
		apply = func(res simchain.Result) {
			id := respOf(res).(*lockuptypes.MsgLockTokensResponse).ID
			if old := w.locks[id]; old != nil && old.owner != u {
				run.Fail("C20", "ownership-drift", "lock", "MsgLockTokens of user %d added to lock %d owned by user %d", u, id, old.owner)
				return
			}
			w.locks[id] = &refLock{id: id, owner: u}
		}
	case "begin":
		rl, l := w.pickLock(st.Arg(0), func(l *lockuptypes.PeriodLock) bool { return !l.IsUnlocking() && w.sfState(l) < 2 })
		if rl == nil {
			break
		}
		var coins sdk.Coins
		if bp := st.Arg(1); bp != 0 {
			part := l.Coins[0].Amount.MulRaw(bp).QuoRaw(10000)
			if !part.IsPositive() {
				part = osmomath.OneInt()
			}
			coins = sdk.NewCoins(coin(l.Coins[0].Denom, part))
		}
		msg = &lockuptypes.MsgBeginUnlocking{Owner: w.addr(rl.owner), ID: rl.id, Coins: coins}
		apply = func(res simchain.Result) {
			r := respOf(res).(*lockuptypes.MsgBeginUnlockingResponse)
			if r.UnlockingLockID != rl.id {
				w.locks[r.UnlockingLockID] = &refLock{id: r.UnlockingLockID, owner: rl.owner}
				run.Probe("partial-unlock-splits-lock")
			}
		}
	case "setrecv":
		rl, l := w.pickLock(st.Arg(0), nil)
		if rl == nil {
			break
		}
		to := w.otherUser(rl.owner, st.Arg(1))
		if l.RewardReceiverAddress == w.addr(to) {
			to = rl.owner // back to the owner
		}
		msg = &lockuptypes.MsgSetRewardReceiverAddress{Owner: w.addr(rl.owner), LockID: rl.id, RewardReceiver: w.addr(to)}
		apply = func(res simchain.Result) { run.Probe("reward-receiver-set") }
	case "extend":
		rl, l := w.pickLock(st.Arg(0), func(l *lockuptypes.PeriodLock) bool { return !l.IsUnlocking() && w.sfState(l) < 2 })
		if rl == nil {
			break
		}
		msg = &lockuptypes.MsgExtendLockup{Owner: w.addr(rl.owner), ID: rl.id, Duration: l.Duration + time.Duration(st.Arg(1))*w.unbonding}
	case "sfdel":
		rl, _ := w.pickLock(st.Arg(0), func(l *lockuptypes.PeriodLock) bool { return w.sfState(l) == 1 })
		if rl == nil {
			break
		}
		msg = &sftypes.MsgSuperfluidDelegate{Sender: w.addr(rl.owner), LockId: rl.id, ValAddr: w.val}
		apply = func(res simchain.Result) { run.Probe("lock-superfluid-delegated") }
	case "sfundel":
		rl, _ := w.pickLock(st.Arg(0), func(l *lockuptypes.PeriodLock) bool { return w.sfState(l) == 2 })
		if rl == nil {
			break
		}
		msg = &sftypes.MsgSuperfluidUndelegate{Sender: w.addr(rl.owner), LockId: rl.id}
		apply = func(res simchain.Result) { run.Probe("lock-superfluid-undelegated") }
	case "sfunbond":
		rl, _ := w.pickLock(st.Arg(0), func(l *lockuptypes.PeriodLock) bool { return w.sfState(l) == 3 && !l.IsUnlocking() })
		if rl == nil {
			break
		}
		msg = &sftypes.MsgSuperfluidUnbondLock{Sender: w.addr(rl.owner), LockId: rl.id}
	case "tfcreate":
		u := int(st.Arg(0) % int64(w.users))
		sub := subdenoms[int(st.Arg(1))%len(subdenoms)]
		msg = &tftypes.MsgCreateDenom{Sender: w.addr(u), Subdenom: sub}
		apply = func(res simchain.Result) {
			d := respOf(res).(*tftypes.MsgCreateDenomResponse).NewTokenDenom
			w.denoms = append(w.denoms, &refDenom{denom: d, creator: u, admin: u})
		}
	case "tfmint", "tfchadmin", "tfrenounce", "tfmeta", "tfburn", "tfforce", "tfhook":
		ds := w.adminDenoms(false)
		if len(ds) == 0 {
			break
		}
		d := ds[int(st.Arg(0)%int64(len(ds)))]
		admin := w.addr(d.admin)
		switch st.Op {
		case "tfmint":
			to := ""
			if t := st.Arg(2); t >= 0 {
				to = w.addr(int(t % int64(w.users)))
			}
			msg = &tftypes.MsgMint{Sender: admin, Amount: sdk.NewInt64Coin(d.denom, st.Arg(1)), MintToAddress: to}
		case "tfchadmin":
			to := w.otherUser(d.admin, st.Arg(1))
			msg = &tftypes.MsgChangeAdmin{Sender: admin, Denom: d.denom, NewAdmin: w.addr(to)}
			apply = func(res simchain.Result) {
				d.prev = append(d.prev, d.admin)
				d.admin = to
				run.Probe("admin-changed")
			}
		case "tfrenounce":
			msg = &tftypes.MsgChangeAdmin{Sender: admin, Denom: d.denom, NewAdmin: ""}
			apply = func(res simchain.Result) {
				d.prev = append(d.prev, d.admin)
				d.admin = -1
				run.Probe("admin-renounced-by-message")
			}
		case "tfmeta":
			msg = &tftypes.MsgSetDenomMetadata{Sender: admin, Metadata: metadataFor(d.denom, st.Arg(1))}
		case "tfburn":
			h := w.holder(d.denom, st.Arg(2))
			if h < 0 {
				break
			}
			amt := n.Balance(n.Ctx, n.Accts[h], d.denom).MulRaw(st.Arg(1)).QuoRaw(20000)
			if !amt.IsPositive() {
				amt = osmomath.OneInt()
			}
			from := w.addr(h)
			if h == d.admin && st.Arg(1)%2 == 0 {
				from = ""
			}
			msg = &tftypes.MsgBurn{Sender: admin, Amount: coin(d.denom, amt), BurnFromAddress: from}
		case "tfforce":
			h := w.holder(d.denom, st.Arg(1))
			if h < 0 {
				break
			}
			amt := n.Balance(n.Ctx, n.Accts[h], d.denom).MulRaw(st.Arg(3)).QuoRaw(20000)
			if !amt.IsPositive() {
				amt = osmomath.OneInt()
			}
			msg = &tftypes.MsgForceTransfer{Sender: admin, Amount: coin(d.denom, amt), TransferFromAddress: w.addr(h), TransferToAddress: w.addr(w.otherUser(h, st.Arg(2)))}
		case "tfhook":
			msg = &tftypes.MsgSetBeforeSendHook{Sender: admin, Denom: d.denom, CosmwasmAddress: ""}
		}
	}
	if msg == nil {
		run.Event(st.Op, "skip")
		return
	}
	fk, fa := simcore.ParseFault(st.F)
	var before string
	if fk != "" {
		before = n.Digest(n.Ctx)
	}
	res := n.DeliverFault(msg, fk, fa)
	run.Event(st.Op, res.Outcome)
	run.Logf("%d %s %v f=%s -> %s gas=%d err=%v", i, st.Op, st.A, st.F, res.Outcome, res.GasUsed, res.Err)
	switch res.Outcome {
	case "ok":
		if apply != nil {
			apply(res)
		}
	case "oog", "abort":
		run.Fault(res.Outcome)
	case "invalid":
		if st.Op == "tfrenounce" {
			run.Probe("renounce-message-rejected-by-validate-basic")
		}
	case "panic":
		run.Probe("legit-message-panicked/" + st.Op)
	}
	if fk != "" && res.Outcome != "ok" {
		if after := n.Digest(n.Ctx); after != before {
			run.Fail("C20", "failed-message-changed-state", st.Op, "%s by its rightful sender ended %s but the state digest changed %s -> %s", st.Op, res.Outcome, before, after)
		}
	}
}
