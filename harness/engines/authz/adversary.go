package authz

import (
	"fmt"
	"strings"

	sdk "github.com/cosmos/cosmos-sdk/types"
	banktypes "github.com/cosmos/cosmos-sdk/x/bank/types"

	"github.com/osmosis-labs/osmosis/osmomath"
	cltypes "github.com/osmosis-labs/osmosis/v31/x/concentrated-liquidity/types"
	lockuptypes "github.com/osmosis-labs/osmosis/v31/x/lockup/types"
	sftypes "github.com/osmosis-labs/osmosis/v31/x/superfluid/types"
	tftypes "github.com/osmosis-labs/osmosis/v31/x/tokenfactory/types"

	"verif/harness/simchain"
	"verif/harness/simcore"
)

var senderClasses = []string{"other-user", "previous", "pool-address", "module-account", "empty"}

// poolAddrs: the CL pool's own, spread-reward and incentive addresses and the balancer pool's address.
func (w *world) poolAddrs() []string {
	var out []string
	if pool, err := w.n.App.ConcentratedLiquidityKeeper.GetConcentratedPoolById(w.n.Ctx, w.cpool); err == nil {
		out = append(out, pool.GetAddress().String(), pool.GetSpreadRewardsAddress().String(), pool.GetIncentivesAddress().String())
	}
	if bp, err := w.n.App.GAMMKeeper.GetPoolAndPoke(w.n.Ctx, w.bpool); err == nil {
		out = append(out, bp.GetAddress().String())
	}
	return out
}

// advSender resolves an adversary sender that differs from the rightful one.
// prev are former owners/admins (for locks: the reward receiver). noGov
// excludes the governance module account (see Assumptions).
func (w *world) advSender(class, sel int64, rightful string, prev []string, noGov bool) (string, string) {
	switch class {
	case 4:
		return "", "empty"
	case 3:
		name := senderModules[int(sel%int64(len(senderModules)))]
		if noGov && name == "gov" {
			name = "gamm"
		}
		return moduleSender(name), "module-account"
	case 2:
		if pa := w.poolAddrs(); len(pa) > 0 {
			return pa[int(sel%int64(len(pa)))], "pool-address"
		}
	case 1:
		var cand []string
		for _, p := range prev {
			if p != rightful && p != "" {
				cand = append(cand, p)
			}
		}
		if len(cand) > 0 {
			return cand[int(sel%int64(len(cand)))], "previous"
		}
	}
	var cand []string
	for u := 0; u < w.users; u++ {
		if w.addr(u) != rightful {
			cand = append(cand, w.addr(u))
		}
	}
	return cand[int(sel%int64(len(cand)))], "other-user"
}

// thirdUser returns a user address different from a and b.
func (w *world) thirdUser(sel int64, a, b string) string {
	for k := 0; k < w.users; k++ {
		u := (int(sel%int64(w.users)) + k) % w.users
		if w.addr(u) != a && w.addr(u) != b {
			return w.addr(u)
		}
	}
	return w.addr(0)
}

// judge delivers the adversary's message and evaluates the C20 oracle:
// it must not succeed and must leave the digest of all stores unchanged.
// sibling, when not nil, is the attribution message (same message from the
// rightful sender, or aimed at an unprotected account) run on a discarded branch.
func (w *world) judge(i int, op, kind, cls, what string, advMsg, sibling sdk.Msg, oracle string) {
	n, run := w.n, w.run
	before := n.Digest(n.Ctx)
	res := n.Deliver(advMsg, 0, false)
	after := n.Digest(n.Ctx)
	outcome := "rejected"
	if res.Outcome == "ok" {
		run.Logf("%d %s %s by %s -> ok", i, op, kind, cls)
		run.Fail("C20", oracle, kind, "%s: %s succeeded: %v", what, kind, advMsg)
		return
	}
	if after != before {
		run.Fail("C20", "rejected-message-changed-state", kind, "%s: %s ended %s (%v) but the state digest changed %s -> %s", what, kind, res.Outcome, res.Err, before, after)
		return
	}
	if res.Outcome == "panic" {
		run.Probe("adversary-message-panicked/" + kind)
	}
	var sres simchain.Result
	if sibling != nil {
		branch, _ := n.Ctx.CacheContext()
		sres = n.DeliverOn(branch, sibling, 0, false)
		w.advTotal++
		if sres.Outcome == "ok" {
			w.advAttrib++
		} else {
			outcome = "unattributable"
		}
	}
	run.Event(op+"/"+kind, outcome)
	run.Count("cover/" + op + "/" + kind + "/" + cls)
	run.Logf("%d %s %s by %s -> %s (%v) ; rightful: %s (%v) digest=%s", i, op, kind, cls, res.Outcome, res.Err, sres.Outcome, sres.Err, after)
}

func (w *world) adversary(i int, st simcore.Step) {
	n, run := w.n, w.run
	fam, objSel, kindSel, class, sel, variant, amt := st.Arg(0), st.Arg(1), st.Arg(2), st.Arg(3), st.Arg(4), st.Arg(5), st.Arg(6)
	if amt < 1 {
		amt = 1
	}
	var kind, rightful, what string
	var prev []string
	var mk func(sender, adv string) sdk.Msg
	noGov := false
	isUser := func(a string) bool { return w.userIndex(a) >= 0 }

	switch fam {
	case 0: // concentrated-liquidity position
		p := w.pickPos(objSel)
		if class == 1 {
			// prefer a position that has a previous owner
			var had []uint64
			for _, id := range w.livePositions() {
				for _, o := range w.pos[id].prev {
					if o != w.pos[id].owner {
						had = append(had, id)
						break
					}
				}
			}
			if len(had) > 0 {
				p = w.pos[had[int(objSel%int64(len(had)))]]
			}
		}
		if p == nil {
			run.Event("adv/cl", "skip")
			return
		}
		pos, _ := n.App.ConcentratedLiquidityKeeper.GetPosition(n.Ctx, p.id)
		rightful = w.addr(p.owner)
		for _, o := range p.prev {
			prev = append(prev, w.addr(o))
		}
		what = fmt.Sprintf("position %d of user %d", p.id, p.owner)
		kinds := []string{"withdraw", "add-to-position", "transfer-positions", "collect-spread-rewards", "collect-incentives"}
		if locked, _, _ := n.App.ConcentratedLiquidityKeeper.PositionHasActiveUnderlyingLock(n.Ctx, p.id); locked {
			kinds = []string{"sf-add-to-position", "sf-add-to-position", "sf-add-to-position", "collect-spread-rewards", "collect-incentives", "withdraw", "transfer-positions", "add-to-position"}
		}
		kind = kinds[int(kindSel%int64(len(kinds)))]
		noGov = kind == "transfer-positions"
		// another position of the same owner / a position of the adversary, for multi-id messages
		sameOwner, advOwn := uint64(0), func(adv string) uint64 {
			for _, id := range w.livePositions() {
				if w.addr(w.pos[id].owner) == adv {
					return id
				}
			}
			return 0
		}
		for _, id := range w.livePositions() {
			if id != p.id && w.pos[id].owner == p.owner {
				sameOwner = id
				break
			}
		}
		ids := func(adv string) []uint64 {
			switch variant % 5 {
			case 1, 2:
				if sameOwner != 0 {
					return []uint64{p.id, sameOwner}
				}
			case 3:
				if own := advOwn(adv); own != 0 {
					run.Probe("mixed-own-and-foreign-position-ids")
					return []uint64{own, p.id}
				}
			}
			return []uint64{p.id}
		}
		mk = func(sender, adv string) sdk.Msg {
			switch kind {
			case "withdraw":
				liq := pos.Liquidity
				if variant%2 == 0 {
					liq = pos.Liquidity.MulInt64(amt).QuoInt64(10000)
					if !liq.IsPositive() {
						liq = pos.Liquidity
					}
				}
				return &cltypes.MsgWithdrawPosition{PositionId: p.id, Sender: sender, LiquidityAmount: liq}
			case "add-to-position":
				return &cltypes.MsgAddToPosition{PositionId: p.id, Sender: sender, Amount0: osmomath.NewInt(amt * 100), Amount1: osmomath.NewInt(amt * 100), TokenMinAmount0: osmomath.ZeroInt(), TokenMinAmount1: osmomath.ZeroInt()}
			case "transfer-positions":
				if variant%7 == 6 {
					// "transfer" to the current owner: still a message of a non-owner acting on the position
					return &cltypes.MsgTransferPositions{PositionIds: []uint64{p.id}, Sender: sender, NewOwner: rightful}
				}
				return &cltypes.MsgTransferPositions{PositionIds: ids(adv), Sender: sender, NewOwner: w.thirdUser(variant, rightful, adv)}
			case "collect-spread-rewards":
				return &cltypes.MsgCollectSpreadRewards{PositionIds: ids(adv), Sender: sender}
			case "collect-incentives":
				return &cltypes.MsgCollectIncentives{PositionIds: ids(adv), Sender: sender}
			default:
				return &sftypes.MsgAddToConcentratedLiquiditySuperfluidPosition{PositionId: p.id, Sender: sender, TokenDesired0: sdk.NewInt64Coin("uion", amt*100), TokenDesired1: sdk.NewInt64Coin(simchain.BondDenom, amt*100)}
			}
		}
	case 1: // lock, lockup messages
		rl, l := w.pickLock(objSel, nil)
		if class == 1 {
			// prefer a lock whose rewards are redirected to somebody else
			if rl2, l2 := w.pickLock(objSel, func(l *lockuptypes.PeriodLock) bool { return l.RewardReceiverAddress != "" }); rl2 != nil {
				rl, l = rl2, l2
			}
		}
		if rl == nil {
			run.Event("adv/lock", "skip")
			return
		}
		rightful = w.addr(rl.owner)
		if l.RewardReceiverAddress != "" {
			prev = []string{l.RewardReceiverAddress}
		}
		what = fmt.Sprintf("lock %d of user %d", rl.id, rl.owner)
		kinds := []string{"begin-unlocking", "begin-unlocking-partial", "extend-lockup", "set-reward-receiver", "force-unlock"}
		if w.sfState(l) >= 2 {
			kinds = []string{"set-reward-receiver", "set-reward-receiver", "set-reward-receiver", "begin-unlocking", "extend-lockup", "force-unlock"}
		} else if l.IsUnlocking() {
			kinds = []string{"set-reward-receiver", "set-reward-receiver", "force-unlock", "force-unlock", "begin-unlocking"}
		}
		kind = kinds[int(kindSel%int64(len(kinds)))]
		if kind == "force-unlock" && !w.allow[rl.owner] && kindSel%3 != 0 {
			kind = "set-reward-receiver" // the owner itself may not force-unlock: keep most steps attributable
		}
		mk = func(sender, adv string) sdk.Msg {
			switch kind {
			case "begin-unlocking":
				return &lockuptypes.MsgBeginUnlocking{Owner: sender, ID: rl.id}
			case "begin-unlocking-partial":
				part := l.Coins[0].Amount.QuoRaw(2)
				if !part.IsPositive() {
					part = osmomath.OneInt()
				}
				return &lockuptypes.MsgBeginUnlocking{Owner: sender, ID: rl.id, Coins: sdk.NewCoins(coin(l.Coins[0].Denom, part))}
			case "extend-lockup":
				return &lockuptypes.MsgExtendLockup{Owner: sender, ID: rl.id, Duration: l.Duration + w.unbonding}
			case "set-reward-receiver":
				to := adv
				if !isUser(adv) || adv == l.RewardReceiverAddress {
					to = w.thirdUser(variant, rightful, l.RewardReceiverAddress)
				}
				if variant%4 == 3 && l.RewardReceiverAddress != "" {
					to = rightful // take the redirection away from the receiver
				}
				return &lockuptypes.MsgSetRewardReceiverAddress{Owner: sender, LockID: rl.id, RewardReceiver: to}
			default:
				return &lockuptypes.MsgForceUnlock{Owner: sender, ID: rl.id}
			}
		}
	case 2: // lock, superfluid messages
		rl, l := w.pickLock(objSel, func(l *lockuptypes.PeriodLock) bool { return w.sfState(l) >= 1 })
		if rl == nil {
			rl, l = w.pickLock(objSel, nil)
		}
		if rl == nil {
			run.Event("adv/sf", "skip")
			return
		}
		rightful = w.addr(rl.owner)
		if l.RewardReceiverAddress != "" {
			prev = []string{l.RewardReceiverAddress}
		}
		what = fmt.Sprintf("lock %d of user %d (superfluid state %d)", rl.id, rl.owner, w.sfState(l))
		all := []string{"sf-delegate", "sf-undelegate", "sf-unbond-lock", "sf-undelegate-and-unbond"}
		if l.Coins[0].Denom == w.gammDenom() {
			all = append(all, "unbond-convert-and-stake")
		}
		kinds := all
		if kindSel%10 != 0 {
			switch w.sfState(l) {
			case 1:
				kinds = []string{"sf-delegate"}
				if l.Coins[0].Denom == w.gammDenom() {
					// a plain lock of pool shares: convert-and-stake exits the pool from the SENDER's liquid shares,
					// so an adversary holding enough shares is the interesting case
					kinds = append(kinds, "unbond-convert-and-stake")
				}
			case 2:
				kinds = []string{"sf-undelegate", "sf-undelegate-and-unbond", "sf-undelegate-and-unbond-partial"}
				if l.Coins[0].Denom == w.gammDenom() {
					kinds = append(kinds, "unbond-convert-and-stake")
				}
			case 3:
				if !l.IsUnlocking() {
					kinds = []string{"sf-unbond-lock"}
				}
				if l.Coins[0].Denom == w.gammDenom() {
					kinds = append(kinds, "unbond-convert-and-stake")
				}
			}
		}
		kind = kinds[int((kindSel/10)%int64(len(kinds)))]
		mk = func(sender, adv string) sdk.Msg {
			switch kind {
			case "sf-delegate":
				return &sftypes.MsgSuperfluidDelegate{Sender: sender, LockId: rl.id, ValAddr: w.val}
			case "sf-undelegate":
				return &sftypes.MsgSuperfluidUndelegate{Sender: sender, LockId: rl.id}
			case "sf-unbond-lock":
				return &sftypes.MsgSuperfluidUnbondLock{Sender: sender, LockId: rl.id}
			case "sf-undelegate-and-unbond":
				return &sftypes.MsgSuperfluidUndelegateAndUnbondLock{Sender: sender, LockId: rl.id, Coin: l.Coins[0]}
			case "sf-undelegate-and-unbond-partial":
				part := l.Coins[0].Amount.QuoRaw(2)
				if !part.IsPositive() {
					part = osmomath.OneInt()
				}
				return &sftypes.MsgSuperfluidUndelegateAndUnbondLock{Sender: sender, LockId: rl.id, Coin: coin(l.Coins[0].Denom, part)}
			default:
				return &sftypes.MsgUnbondConvertAndStake{LockId: rl.id, Sender: sender, ValAddr: w.val, MinAmtToStake: osmomath.ZeroInt(), SharesToConvert: sdk.NewInt64Coin(w.gammDenom(), 0)}
			}
		}
	default: // token-factory denom with an admin
		ds := w.adminDenoms(false)
		if len(ds) == 0 {
			run.Event("adv/tf", "skip")
			return
		}
		d := ds[int(objSel%int64(len(ds)))]
		if class == 1 {
			// prefer a denom whose admin is no longer its creator
			var had []*refDenom
			for _, c := range ds {
				if c.creator != c.admin {
					had = append(had, c)
				}
			}
			if len(had) > 0 {
				d = had[int(objSel%int64(len(had)))]
			}
		}
		rightful = w.addr(d.admin)
		prev = append(prev, w.addr(d.creator))
		for _, o := range d.prev {
			prev = append(prev, w.addr(o))
		}
		what = fmt.Sprintf("denom %s (admin user %d, creator user %d)", d.denom, d.admin, d.creator)
		kinds := []string{"mint", "mint-to", "burn", "burn-from", "force-transfer", "change-admin", "set-denom-metadata", "set-before-send-hook"}
		kind = kinds[int(kindSel%int64(len(kinds)))]
		if kindSel%41 == 0 {
			kind = "set-before-send-hook-address"
		}
		h := w.holder(d.denom, variant)
		if kind == "burn" && !n.Balance(n.Ctx, n.Accts[d.admin], d.denom).IsPositive() {
			kind = "burn-from"
		}
		if (kind == "burn-from" || kind == "force-transfer") && h < 0 {
			kind = "mint-to"
		}
		share := func(u int) osmomath.Int {
			a := n.Balance(n.Ctx, n.Accts[u], d.denom).MulRaw(amt).QuoRaw(20000)
			if !a.IsPositive() {
				a = osmomath.OneInt()
			}
			return a
		}
		mk = func(sender, adv string) sdk.Msg {
			target := adv
			if !isUser(adv) {
				target = w.thirdUser(variant, rightful, "")
			}
			if variant%5 == 4 {
				target = rightful // the admin as beneficiary / new admin: still not the admin's message
			}
			switch kind {
			case "mint":
				return &tftypes.MsgMint{Sender: sender, Amount: sdk.NewInt64Coin(d.denom, amt)}
			case "mint-to":
				return &tftypes.MsgMint{Sender: sender, Amount: sdk.NewInt64Coin(d.denom, amt), MintToAddress: target}
			case "burn":
				return &tftypes.MsgBurn{Sender: sender, Amount: coin(d.denom, share(d.admin))}
			case "burn-from":
				return &tftypes.MsgBurn{Sender: sender, Amount: coin(d.denom, share(h)), BurnFromAddress: w.addr(h)}
			case "force-transfer":
				to := target
				if to == w.addr(h) {
					to = w.thirdUser(variant, w.addr(h), "")
				}
				return &tftypes.MsgForceTransfer{Sender: sender, Amount: coin(d.denom, share(h)), TransferFromAddress: w.addr(h), TransferToAddress: to}
			case "change-admin":
				return &tftypes.MsgChangeAdmin{Sender: sender, Denom: d.denom, NewAdmin: target}
			case "set-denom-metadata":
				return &tftypes.MsgSetDenomMetadata{Sender: sender, Metadata: metadataFor(d.denom, 10+variant%4)}
			case "set-before-send-hook":
				return &tftypes.MsgSetBeforeSendHook{Sender: sender, Denom: d.denom, CosmwasmAddress: ""}
			default:
				return &tftypes.MsgSetBeforeSendHook{Sender: sender, Denom: d.denom, CosmwasmAddress: target}
			}
		}
	}
	adv, cls := w.advSender(class, sel, rightful, prev, noGov)
	if adv == rightful {
		run.Event("adv/"+kind, "skip")
		return
	}
	if fam == 1 && cls == "previous" {
		cls = "reward-receiver"
	}
	if fam == 2 && cls == "previous" {
		cls = "reward-receiver"
	}
	w.judge(i, "adv", kind, cls, what+" attacked by "+cls+" "+adv, mk(adv, adv), mk(rightful, adv), "non-owner-succeeded")
	if noGov && class == 3 {
		// documented exception, counted only (see Assumptions)
		branch, _ := n.Ctx.CacheContext()
		if r := n.DeliverOn(branch, mk(moduleSender("gov"), moduleSender("gov")), 0, false); r.Outcome == "ok" {
			run.Probe("gov-module-account-transfers-a-position")
		}
	}
}

// advRenounced: nobody, not even the creator or a former admin, can exercise
// admin powers over a denom whose admin is "".
func (w *world) advRenounced(i int, st simcore.Step) {
	run := w.run
	ds := w.adminDenoms(true)
	if len(ds) == 0 {
		run.Event("advren", "skip")
		return
	}
	d := ds[int(st.Arg(0)%int64(len(ds)))]
	kinds := []string{"mint", "mint-to", "burn", "burn-from", "force-transfer", "change-admin", "set-denom-metadata", "set-before-send-hook"}
	kind := kinds[int(st.Arg(1)%int64(len(kinds)))]
	prev := []string{w.addr(d.creator)}
	for _, o := range d.prev {
		prev = append(prev, w.addr(o))
	}
	// rightful "" : every address is a non-admin; class 0 draws from all users
	adv, cls := w.advSender(st.Arg(2), st.Arg(3), "", prev, false)
	if cls == "previous" {
		cls = "creator-or-former-admin"
	}
	amt := st.Arg(4)
	if amt < 1 {
		amt = 1
	}
	h := w.holder(d.denom, st.Arg(3))
	if (kind == "burn-from" || kind == "force-transfer") && h < 0 {
		kind = "mint-to"
	}
	target := adv
	if w.userIndex(adv) < 0 {
		target = w.addr(int(st.Arg(3) % int64(w.users)))
	}
	var msg sdk.Msg
	switch kind {
	case "mint":
		msg = &tftypes.MsgMint{Sender: adv, Amount: sdk.NewInt64Coin(d.denom, amt)}
	case "mint-to":
		msg = &tftypes.MsgMint{Sender: adv, Amount: sdk.NewInt64Coin(d.denom, amt), MintToAddress: target}
	case "burn":
		msg = &tftypes.MsgBurn{Sender: adv, Amount: sdk.NewInt64Coin(d.denom, 1+amt%1000)}
	case "burn-from":
		msg = &tftypes.MsgBurn{Sender: adv, Amount: sdk.NewInt64Coin(d.denom, 1+amt%1000), BurnFromAddress: w.addr(h)}
	case "force-transfer":
		msg = &tftypes.MsgForceTransfer{Sender: adv, Amount: sdk.NewInt64Coin(d.denom, 1+amt%1000), TransferFromAddress: w.addr(h), TransferToAddress: w.thirdUser(st.Arg(3), w.addr(h), "")}
	case "change-admin":
		msg = &tftypes.MsgChangeAdmin{Sender: adv, Denom: d.denom, NewAdmin: target}
	case "set-denom-metadata":
		msg = &tftypes.MsgSetDenomMetadata{Sender: adv, Metadata: metadataFor(d.denom, 20+amt%4)}
	default:
		msg = &tftypes.MsgSetBeforeSendHook{Sender: adv, Denom: d.denom, CosmwasmAddress: ""}
	}
	w.judge(i, "advren", kind, cls, fmt.Sprintf("renounced denom %s (creator user %d) attacked by %s %q", d.denom, d.creator, cls, adv), msg, nil, "power-exercised-after-renounce")
}

// advModule: the admin itself cannot mint into, burn from or force-transfer
// from/to a protected module account.
func (w *world) advModule(i int, st simcore.Step) {
	n, run := w.n, w.run
	ds := w.adminDenoms(false)
	if len(ds) == 0 {
		run.Event("advmod", "skip")
		return
	}
	kind := []string{"mint-to-module", "burn-from-module", "force-transfer-from-module", "force-transfer-to-module"}[int(st.Arg(1)%4)]
	funded := func(d *refDenom) []string {
		var out []string
		for _, m := range w.moduleAddrs {
			if n.Balance(n.Ctx, sdk.MustAccAddressFromBech32(m), d.denom).IsPositive() {
				out = append(out, m)
			}
		}
		return out
	}
	// prefer a denom some module account holds (e.g. locked factory tokens sit in the lockup module account)
	d := ds[int(st.Arg(0)%int64(len(ds)))]
	for k := 0; k < len(ds); k++ {
		c := ds[(int(st.Arg(0)%int64(len(ds)))+k)%len(ds)]
		if len(funded(c)) > 0 {
			d = c
			break
		}
	}
	admin := w.addr(d.admin)
	mod := w.moduleAddrs[int(st.Arg(2)%int64(len(w.moduleAddrs)))]
	fundedTag := "unfunded"
	if f := funded(d); len(f) > 0 && (kind == "burn-from-module" || kind == "force-transfer-from-module") {
		mod = f[int(st.Arg(2)%int64(len(f)))]
		fundedTag = "funded"
	}
	amt := osmomath.NewInt(1 + st.Arg(4)%1000)
	if fundedTag == "funded" {
		amt = n.Balance(n.Ctx, sdk.MustAccAddressFromBech32(mod), d.denom).MulRaw(st.Arg(4)).QuoRaw(10000)
		if !amt.IsPositive() {
			amt = osmomath.OneInt()
		}
	}
	h := w.holder(d.denom, st.Arg(3))
	user := w.addr(int(st.Arg(3) % int64(w.users)))
	var msg, sib sdk.Msg
	switch kind {
	case "mint-to-module":
		msg = &tftypes.MsgMint{Sender: admin, Amount: coin(d.denom, amt), MintToAddress: mod}
		sib = &tftypes.MsgMint{Sender: admin, Amount: coin(d.denom, amt), MintToAddress: user}
	case "burn-from-module":
		msg = &tftypes.MsgBurn{Sender: admin, Amount: coin(d.denom, amt), BurnFromAddress: mod}
		if h >= 0 {
			sib = &tftypes.MsgBurn{Sender: admin, Amount: coin(d.denom, osmomath.OneInt()), BurnFromAddress: w.addr(h)}
		}
	case "force-transfer-from-module":
		msg = &tftypes.MsgForceTransfer{Sender: admin, Amount: coin(d.denom, amt), TransferFromAddress: mod, TransferToAddress: user}
		if h >= 0 {
			sib = &tftypes.MsgForceTransfer{Sender: admin, Amount: coin(d.denom, osmomath.OneInt()), TransferFromAddress: w.addr(h), TransferToAddress: w.thirdUser(st.Arg(3), w.addr(h), "")}
		}
	default:
		if h < 0 {
			run.Event("advmod/"+kind, "skip")
			return
		}
		a := osmomath.OneInt()
		msg = &tftypes.MsgForceTransfer{Sender: admin, Amount: coin(d.denom, a), TransferFromAddress: w.addr(h), TransferToAddress: mod}
		sib = &tftypes.MsgForceTransfer{Sender: admin, Amount: coin(d.denom, a), TransferFromAddress: w.addr(h), TransferToAddress: w.thirdUser(st.Arg(3), w.addr(h), "")}
		fundedTag = "funded"
	}
	if sib == nil {
		// nobody holds the denom: mint first on the sibling? keep it simple, no attribution possible
		sib = &tftypes.MsgMint{Sender: admin, Amount: coin(d.denom, amt), MintToAddress: user}
	}
	w.judge(i, "advmod", kind, fundedTag, fmt.Sprintf("admin (user %d) of %s reaching into module account %s", d.admin, d.denom, mod), msg, sib, "admin-reached-module-account")
}

// advNamespace: X tries to create a denom that lands in Y's namespace.
func (w *world) advNamespace(i int, st simcore.Step) {
	n, run := w.n, w.run
	x := int(st.Arg(0) % int64(w.users))
	y := w.otherUser(x, st.Arg(1))
	ya := w.addr(y)
	sub := subdenoms[int(st.Arg(3))%len(subdenoms)]
	v := st.Arg(2)
	switch v {
	case 0:
		sub = ya
	case 1:
		sub = ya + "/"
	case 2:
		for _, d := range w.denoms {
			if d.creator == y {
				if _, s, err := tftypes.DeconstructDenom(d.denom); err == nil {
					sub = s
				}
			}
		}
	case 3:
		sub = "/" + ya
	case 4:
		sub = ya[:20] + "/" + sub
	}
	type snap struct {
		list  []string
		metas []banktypes.Metadata
	}
	take := func() map[int]snap {
		out := map[int]snap{}
		for u := 0; u < w.users; u++ {
			if u == x {
				continue
			}
			r, err := n.App.TokenFactoryKeeper.DenomsFromCreator(n.Ctx, &tftypes.QueryDenomsFromCreatorRequest{Creator: w.addr(u)})
			s := snap{}
			if err == nil {
				s.list = r.Denoms
			}
			for _, d := range w.denoms {
				if d.creator == u {
					m, _ := n.App.BankKeeper.GetDenomMetaData(n.Ctx, d.denom)
					s.metas = append(s.metas, m)
				}
			}
			out[u] = s
		}
		return out
	}
	s0 := take()
	before := n.Digest(n.Ctx)
	msg := &tftypes.MsgCreateDenom{Sender: w.addr(x), Subdenom: sub}
	res := n.Deliver(msg, 0, false)
	kind := fmt.Sprintf("create-denom-v%d", v)
	run.Event("advns/"+kind, res.Outcome)
	run.Logf("%d advns %s x=%d y=%d sub=%q -> %s %v", i, kind, x, y, sub, res.Outcome, res.Err)
	if res.Outcome != "ok" {
		if after := n.Digest(n.Ctx); after != before {
			run.Fail("C20", "rejected-message-changed-state", kind, "MsgCreateDenom{%s,%q} ended %s but the state digest changed", w.addr(x), sub, res.Outcome)
		}
		return
	}
	nd := respOf(res).(*tftypes.MsgCreateDenomResponse).NewTokenDenom
	parts := strings.Split(nd, "/")
	creator, _, err := tftypes.DeconstructDenom(nd)
	if err != nil || creator != w.addr(x) || len(parts) < 3 || parts[1] != w.addr(x) {
		run.Fail("C20", "namespace-breach", kind, "user %d (%s) created %s whose creator component is not the sender (deconstructs to %q, err %v)", x, w.addr(x), nd, creator, err)
		return
	}
	md, err := n.App.TokenFactoryKeeper.GetAuthorityMetadata(n.Ctx, nd)
	if err != nil || md.Admin != w.addr(x) {
		run.Fail("C20", "namespace-breach", kind, "denom %s created by user %d has admin %q (err %v)", nd, x, md.Admin, err)
		return
	}
	s1 := take()
	for u := 0; u < w.users; u++ {
		if u == x {
			continue
		}
		if fmt.Sprint(s0[u].list) != fmt.Sprint(s1[u].list) {
			run.Fail("C20", "namespace-breach", kind, "creation of %s by user %d changed the denoms recorded for creator user %d: %v -> %v", nd, x, u, s0[u].list, s1[u].list)
			return
		}
		if fmt.Sprint(s0[u].metas) != fmt.Sprint(s1[u].metas) {
			run.Fail("C20", "namespace-breach", kind, "creation of %s by user %d changed bank metadata of a denom created by user %d", nd, x, u)
			return
		}
	}
	if w.findDenom(nd) == nil {
		w.denoms = append(w.denoms, &refDenom{denom: nd, creator: x, admin: x})
	}
	if v != 5 {
		run.Probe("namespace-lookalike-denom-created")
	}
}
