// Package authz is the C20 engine: "only the owner or admin can move or alter
// what they own". It builds a world of owned objects (concentrated-liquidity
// positions, lockup locks, superfluid-delegated locks, token-factory denoms)
// through real messages inside the full application and then lets every kind
// of non-owner try every owner-only message on them.
package authz

import (
	"fmt"
	"sort"
	"time"

	"github.com/cosmos/cosmos-sdk/codec"
	sdk "github.com/cosmos/cosmos-sdk/types"
	authtypes "github.com/cosmos/cosmos-sdk/x/auth/types"
	banktypes "github.com/cosmos/cosmos-sdk/x/bank/types"
	stakingtypes "github.com/cosmos/cosmos-sdk/x/staking/types"

	"github.com/osmosis-labs/osmosis/osmomath"
	"github.com/osmosis-labs/osmosis/v31/app"
	cltypes "github.com/osmosis-labs/osmosis/v31/x/concentrated-liquidity/types"
	clgenesis "github.com/osmosis-labs/osmosis/v31/x/concentrated-liquidity/types/genesis"
	incentivestypes "github.com/osmosis-labs/osmosis/v31/x/incentives/types"
	lockuptypes "github.com/osmosis-labs/osmosis/v31/x/lockup/types"
	tftypes "github.com/osmosis-labs/osmosis/v31/x/tokenfactory/types"

	"verif/harness/simchain"
	"verif/harness/simcore"
)

type Engine struct{}

func init() { simcore.Register(Engine{}) }

func (Engine) Name() string    { return "authz" }
func (Engine) Props() []string { return []string{"C20"} }
func (Engine) Budget(tier, prop string) (int, int) {
	if tier == "thorough" {
		return 12000, 840
	}
	return 3600, 130
}

func (Engine) Describe() simcore.Description {
	return simcore.Description{
		Real: []string{"full OsmosisApp: x/concentrated-liquidity, x/lockup, x/superfluid, x/tokenfactory, x/gamm, x/poolmanager msg servers and keepers, their ValidateBasic, bank, staking, epochs, real BeginBlocker/EndBlocker of every module, IAVL commit per block, SDK gas metering"},
		Stub: []string{"CometBFT (the simulator supplies header time/height and message order)", "ante/post handlers: the declared sender of a message is taken as authenticated (equivalent to a correctly signed tx, or to a message dispatched by gov/authz/a contract in the sender's name), no fees", "no cosmwasm contract is uploaded: MsgSetBeforeSendHook is exercised with the empty (clear hook) address and with a non-contract address only"},
		Rule: "one run = 3-5 users; fixed bootstrap by messages (balancer pool uosmo/uion -> gamm shares for every user, CL pool uion/uosmo with a full-range base position; both share denoms registered as superfluid assets through the keeper, which only governance can do); the plan interleaves (a) legitimate activity by owners: create/transfer/add-to/withdraw/collect positions, swaps (spread rewards), full-range position + superfluid delegate, lock / begin-unlock (full, partial) / extend / set reward receiver, superfluid delegate / undelegate / unbond, token-factory create / mint / change-admin / renounce attempt / set-metadata / burn / force-transfer / clear hook, clock advances incl. epoch crossings, node restarts, out-of-gas and forced roll-back on legitimate messages; and (b) adversary steps: pick an owned object (state-relative), a message type acting on it (MsgWithdrawPosition, MsgAddToPosition, MsgTransferPositions, MsgCollectSpreadRewards, MsgCollectIncentives, MsgAddToConcentratedLiquiditySuperfluidPosition; MsgBeginUnlocking, MsgExtendLockup, MsgSetRewardReceiverAddress, MsgForceUnlock; MsgSuperfluidDelegate, MsgSuperfluidUndelegate, MsgSuperfluidUnbondLock, MsgSuperfluidUndelegateAndUnbondLock, MsgUnbondConvertAndStake; MsgMint incl. mint-to, MsgBurn incl. burn-from, MsgForceTransfer, MsgChangeAdmin, MsgSetDenomMetadata, MsgSetBeforeSendHook) and a sender that is not the current owner/admin: another user, a previous owner/admin/creator (for locks: the reward receiver), the CL pool's own / spread-reward / incentive address or the balancer pool address, a module account, or the empty string; beneficiaries named in the message are the adversary, a third user or the owner itself (e.g. a non-owner 'transferring' a position to its owner, minting to the admin). Oracle per adversary step: outcome is not success (ValidateBasic rejection, handler error and recovered panic all count as rejected) and the digest of ALL KV stores is unchanged; attribution: on a discarded sibling branch the same message with only the sender replaced by the rightful owner/admin succeeds (otherwise the step is counted 'unattributable', never a violation). Renounced denoms (admin \"\", from genesis): every sender incl. creator must be rejected. Protected module accounts: mint-to / burn-from / force-transfer from or to a module account must be rejected even for the admin (attribution: the same message aimed at a plain user account succeeds). Namespace: MsgCreateDenom by X with subdenoms built from Y's address / '/' / Y's existing subdenoms never yields a denom whose creator component is Y, the new denom's admin is X, Y's denoms, admins and creator index are untouched. After every step the owner/admin recorded on chain for every tracked object equals the reference, which changes only on a successful message of the rightful owner.",
		Assumptions: []string{
			"MsgTransferPositions sent by the governance module account is treated as sent by an administrator (x/concentrated-liquidity/position.go documents 'the sender is the owner of the position (or the governance module account)'); the gov module account is therefore excluded from the adversary senders of that one message type and its success is only counted as a probe",
			"'protected module accounts' = the accounts of the application's module-account permission table (app.ModuleAccountAddrs(), the same table tokenfactory's keeper receives to build its block list, bankactions.go IsModuleAcc / forceTransfer loop); pool addresses and superfluid intermediary accounts are not in that table and are not tested as protected",
			"MsgChangeAdmin with an empty new admin is rejected by ValidateBasic in this version (the README's renounce path is unreachable by message); renounced denoms therefore come from genesis (admin \"\"), which the module's genesis validation explicitly allows",
			"MsgBeginUnlockingAll and MsgLockTokens act on the sender's own locks and are not attacks; queries are out of scope",
			"a sender string that fails ValidateBasic (e.g. the empty string) counts as rejected, as it would be by BaseApp before execution",
		},
	}
}

const fundEach = int64(1_000_000_000_000_000)

var subdenoms = []string{"gold", "silver", "usd", "a/b", "x"}

// module names whose derived addresses are used as adversary senders (not all
// of them are registered module accounts: any address can be a sender).
var senderModules = []string{"bonded_tokens_pool", "concentratedliquidity", "distribution", "gamm", "gov", "incentives", "lockup", "mint", "poolmanager", "protorev", "superfluid", "tokenfactory", "txfees"}

func (Engine) Generate(r *simcore.RNG, tier string, idx int) *simcore.Plan {
	p := &simcore.Plan{Config: map[string]int64{}}
	p.Config["users"] = r.Range(3, 5)
	p.Config["allow"] = r.Range(0, 7) // bit i: user i on the force-unlock allow-list
	p.Config["spread"] = r.Range(0, 2)
	if r.Chance(0.35) {
		p.Config["reimport"] = 1 // restarts are restarts from the chain's own export: who owns and administers what must survive it
	}
	faults := idx%2 == 1
	if idx%4 == 3 {
		p.Config["spec"] = 60 + int64(idx/4%5)*60 // permille of blocks first executed speculatively on a discarded branch (simchain.Node.Spec)
	}
	sal := func() int64 { return r.Range(0, 1<<20) }
	world := func(build bool) simcore.Step {
		st := simcore.Step{}
		// weights: creation-heavy while building the world
		w := []int{10, 5, 8, 2, 3, 3, 4, 12, 5, 4, 3, 5, 3, 2, 8, 7, 5, 1, 3, 2, 2, 1, 7, 1}
		if build {
			w = []int{14, 5, 5, 0, 0, 1, 5, 16, 4, 3, 1, 6, 2, 1, 12, 10, 5, 1, 2, 0, 0, 0, 3, 0}
		}
		switch r.Weighted(w) {
		case 0:
			st.Op, st.A = "clpos", []int64{sal(), r.Range(0, 3), r.Range(1, 30), r.Range(1000, 100000000)}
		case 1:
			st.Op, st.A = "cltransfer", []int64{sal(), sal()}
		case 2:
			st.Op, st.A = "clswap", []int64{sal(), r.Range(0, 1), r.Range(1000, 50000000)}
		case 3:
			st.Op, st.A = "clwithdraw", []int64{sal(), []int64{10000, 5000, 1, 2500, 10000}[r.Intn(5)]}
		case 4:
			st.Op, st.A = "clcollect", []int64{sal(), r.Range(0, 1)}
		case 5:
			st.Op, st.A = "cladd", []int64{sal(), r.Range(0, 1000000), r.Range(1, 1000000)}
		case 6:
			st.Op, st.A = "clsf", []int64{sal(), r.Range(10000, 100000000)}
		case 7:
			st.Op, st.A = "lock", []int64{sal(), r.Range(0, 4), r.Range(0, 2), r.Range(1, 1000)}
		case 8:
			st.Op, st.A = "begin", []int64{sal(), []int64{0, 10000, 5000, 1, 2500}[r.Intn(5)]}
		case 9:
			st.Op, st.A = "setrecv", []int64{sal(), sal()}
		case 10:
			st.Op, st.A = "extend", []int64{sal(), r.Range(1, 2)}
		case 11:
			st.Op, st.A = "sfdel", []int64{sal()}
		case 12:
			st.Op, st.A = "sfundel", []int64{sal()}
		case 13:
			st.Op, st.A = "sfunbond", []int64{sal()}
		case 14:
			st.Op, st.A = "tfcreate", []int64{sal(), r.Range(0, int64(len(subdenoms)-1))}
		case 15:
			st.Op, st.A = "tfmint", []int64{sal(), r.Range(1, 1000000000), r.Range(-1, 4)}
		case 16:
			st.Op, st.A = "tfchadmin", []int64{sal(), sal()}
		case 17:
			st.Op, st.A = "tfrenounce", []int64{sal()}
		case 18:
			st.Op, st.A = "tfmeta", []int64{sal(), r.Range(0, 3)}
		case 19:
			st.Op, st.A = "tfburn", []int64{sal(), r.Range(1, 10000), sal()}
		case 20:
			st.Op, st.A = "tfforce", []int64{sal(), sal(), sal(), r.Range(1, 10000)}
		case 21:
			st.Op, st.A = "tfhook", []int64{sal()}
		case 22:
			// kind 0: seconds, 1: hours, 2: across a day boundary, 3: weeks
			st.Op, st.A = "advance", []int64{int64(r.Weighted([]int{10, 5, 3, 1})), r.Range(1, 50)}
		case 23:
			st.Op = "restart"
		}
		if faults && r.Chance(0.15) && st.Op != "advance" && st.Op != "restart" {
			if r.Chance(0.4) {
				st.F = "abort"
			} else {
				st.F = fmt.Sprintf("oog:%d", r.Range(1, 999))
			}
		}
		return st
	}
	adversary := func() simcore.Step {
		switch r.Weighted([]int{70, 8, 12, 10}) {
		case 0:
			// family, object, kind, sender class, sender selector, variant, amount
			return simcore.Step{Op: "adv", A: []int64{int64(r.Weighted([]int{30, 22, 18, 30})), sal(), sal(), int64(r.Weighted([]int{30, 25, 17, 20, 8})), sal(), sal(), r.Range(1, 10000)}}
		case 1:
			return simcore.Step{Op: "advren", A: []int64{sal(), sal(), int64(r.Weighted([]int{30, 35, 10, 15, 10})), sal(), r.Range(1, 1000000)}}
		case 2:
			return simcore.Step{Op: "advmod", A: []int64{sal(), r.Range(0, 3), sal(), sal(), r.Range(1, 10000)}}
		default:
			return simcore.Step{Op: "advns", A: []int64{sal(), sal(), r.Range(0, 5), r.Range(0, int64(len(subdenoms)-1))}}
		}
	}
	nb := int(r.Range(10, 22))
	for i := 0; i < nb; i++ {
		p.Steps = append(p.Steps, world(true))
	}
	n := int(r.Range(25, 70))
	for i := 0; i < n; i++ {
		if r.Chance(0.55) {
			p.Steps = append(p.Steps, adversary())
		} else {
			p.Steps = append(p.Steps, world(false))
		}
	}
	return p
}

// ---- reference: who owns what (and who used to) ----

type refPos struct {
	id    uint64
	owner int
	prev  []int
}

type refLock struct {
	id    uint64
	owner int
}

type refDenom struct {
	denom   string
	creator int
	admin   int // -1: renounced
	prev    []int
}

type world struct {
	run   *simcore.Run
	n     *simchain.Node
	users int
	allow map[int]bool
	bpool uint64 // balancer pool (gamm shares are a superfluid asset)
	cpool uint64 // concentrated pool
	val   string
	// unbonding is the staking unbonding time (minimum lock duration for superfluid)
	unbonding time.Duration

	pos    map[uint64]*refPos
	locks  map[uint64]*refLock
	denoms []*refDenom

	moduleAddrs []string // protected module accounts, sorted
	advTotal    int
	advAttrib   int
}

func (w *world) addr(i int) string { return w.n.Accts[i].String() }

func (w *world) userIndex(a string) int {
	for i := 0; i < w.users; i++ {
		if w.addr(i) == a {
			return i
		}
	}
	return -1
}

func (w *world) gammDenom() string { return fmt.Sprintf("gamm/pool/%d", w.bpool) }
func (w *world) clDenom() string   { return cltypes.GetConcentratedLockupDenomFromPoolId(w.cpool) }

// livePositions prunes reference entries whose position no longer exists on
// chain (withdrawn in full) and returns the remaining ids in order.
func (w *world) livePositions() []uint64 {
	ids := make([]uint64, 0, len(w.pos))
	for id := range w.pos {
		ids = append(ids, id)
	}
	sort.Slice(ids, func(i, j int) bool { return ids[i] < ids[j] })
	out := ids[:0]
	for _, id := range ids {
		if _, err := w.n.App.ConcentratedLiquidityKeeper.GetPosition(w.n.Ctx, id); err != nil {
			delete(w.pos, id)
			continue
		}
		out = append(out, id)
	}
	return out
}

// liveLocks prunes reference entries whose lock is gone (matured and paid out,
// or consumed by a conversion) and returns the remaining ids in order.
func (w *world) liveLocks() []uint64 {
	ids := make([]uint64, 0, len(w.locks))
	for id := range w.locks {
		ids = append(ids, id)
	}
	sort.Slice(ids, func(i, j int) bool { return ids[i] < ids[j] })
	out := ids[:0]
	for _, id := range ids {
		if _, err := w.n.App.LockupKeeper.GetLockByID(w.n.Ctx, id); err != nil {
			delete(w.locks, id)
			continue
		}
		out = append(out, id)
	}
	return out
}

func (w *world) adminDenoms(renounced bool) []*refDenom {
	var out []*refDenom
	for _, d := range w.denoms {
		if (d.admin < 0) == renounced {
			out = append(out, d)
		}
	}
	return out
}

func (w *world) findDenom(denom string) *refDenom {
	for _, d := range w.denoms {
		if d.denom == denom {
			return d
		}
	}
	return nil
}

func respOf(res simchain.Result) interface{} {
	if res.Resp == nil || len(res.Resp.MsgResponses) == 0 {
		return nil
	}
	return res.Resp.MsgResponses[0].GetCachedValue()
}

func (Engine) Execute(run *simcore.Run) {
	p := run.Plan
	users := int(p.Cfg("users", 3))
	if users < 3 {
		users = 3
	}
	allowMask := p.Cfg("allow", 1)
	fund := sdk.NewCoins(sdk.NewInt64Coin(simchain.BondDenom, fundEach), sdk.NewInt64Coin("uion", fundEach))
	acct := func(i int) string { return sdk.AccAddress(simchain.AcctKey(i).PubKey().Address()).String() }
	// genesis token-factory denoms: two renounced (admin ""), one whose admin is not its creator
	ren0 := "factory/" + acct(0) + "/ren"
	ren1 := "factory/" + acct(1) + "/ren"
	gift := "factory/" + acct(0) + "/gift"
	n := simchain.NewNode(simchain.Config{Accounts: users, Validators: 1, Fund: fund, Mutate: func(cdc codec.JSONCodec, gs app.GenesisState) {
		var lg lockuptypes.GenesisState
		cdc.MustUnmarshalJSON(gs[lockuptypes.ModuleName], &lg)
		var allowed []string
		for i := 0; i < users; i++ {
			if allowMask&(1<<uint(i)) != 0 {
				allowed = append(allowed, acct(i))
			}
		}
		lg.Params = &lockuptypes.Params{ForceUnlockAllowedAddresses: allowed}
		gs[lockuptypes.ModuleName] = cdc.MustMarshalJSON(&lg)

		var cg clgenesis.GenesisState
		cdc.MustUnmarshalJSON(gs[cltypes.ModuleName], &cg)
		cg.Params.IsPermissionlessPoolCreationEnabled = true
		gs[cltypes.ModuleName] = cdc.MustMarshalJSON(&cg)

		// superfluid creates a gauge per intermediary account whose duration is the
		// staking unbonding time: it must be a lockable duration (as on mainnet)
		var ig incentivestypes.GenesisState
		cdc.MustUnmarshalJSON(gs[incentivestypes.ModuleName], &ig)
		ig.LockableDurations = append(ig.LockableDurations, stakingtypes.DefaultUnbondingTime)
		gs[incentivestypes.ModuleName] = cdc.MustMarshalJSON(&ig)

		var tg tftypes.GenesisState
		cdc.MustUnmarshalJSON(gs[tftypes.ModuleName], &tg)
		tg.FactoryDenoms = append(tg.FactoryDenoms,
			tftypes.GenesisDenom{Denom: ren0, AuthorityMetadata: tftypes.DenomAuthorityMetadata{Admin: ""}},
			tftypes.GenesisDenom{Denom: ren1, AuthorityMetadata: tftypes.DenomAuthorityMetadata{Admin: ""}},
			tftypes.GenesisDenom{Denom: gift, AuthorityMetadata: tftypes.DenomAuthorityMetadata{Admin: acct(1)}},
		)
		gs[tftypes.ModuleName] = cdc.MustMarshalJSON(&tg)

		// supply of the genesis factory denoms, held by users 0..2
		var bg banktypes.GenesisState
		cdc.MustUnmarshalJSON(gs[banktypes.ModuleName], &bg)
		extra := sdk.NewCoins(sdk.NewInt64Coin(ren0, 1_000_000_000), sdk.NewInt64Coin(ren1, 1_000_000_000), sdk.NewInt64Coin(gift, 1_000_000_000))
		for i := range bg.Balances {
			for u := 0; u < 3; u++ {
				if bg.Balances[i].Address == acct(u) {
					bg.Balances[i].Coins = bg.Balances[i].Coins.Add(extra...)
					bg.Supply = bg.Supply.Add(extra...)
				}
			}
		}
		gs[banktypes.ModuleName] = cdc.MustMarshalJSON(&bg)
	}})
	n.Spec = run.Plan.Cfg("spec", 0)
	defer func() {
		for i := 0; i < n.Specs; i++ {
			run.Fault("speculative-block-discarded")
		}
	}()
	w := &world{run: run, n: n, users: users, allow: map[int]bool{}, pos: map[uint64]*refPos{}, locks: map[uint64]*refLock{}}
	for i := 0; i < users; i++ {
		w.allow[i] = allowMask&(1<<uint(i)) != 0
	}
	w.val = n.ValAddrs[0].String()
	// what a later message of a transaction that is about to be rolled back could read: who administers / owns what
	n.BranchReads = func(ctx sdk.Context) {
		for _, d := range w.denoms {
			_, _ = n.App.TokenFactoryKeeper.GetAuthorityMetadata(ctx, d.denom)
		}
		for id := range w.locks {
			_, _ = n.App.LockupKeeper.GetLockByID(ctx, id)
		}
		for id := range w.pos {
			_, _ = n.App.ConcentratedLiquidityKeeper.GetPosition(ctx, id)
		}
	}
	w.denoms = []*refDenom{
		{denom: ren0, creator: 0, admin: -1},
		{denom: ren1, creator: 1, admin: -1},
		{denom: gift, creator: 0, admin: 1},
	}
	for a := range app.ModuleAccountAddrs() {
		w.moduleAddrs = append(w.moduleAddrs, a)
	}
	sort.Strings(w.moduleAddrs)

	begin := func(dt time.Duration) bool {
		if pv := n.BeginBlock(dt); pv != nil {
			// not a C20 matter; the run cannot continue
			run.Probe("begin-block-panic")
			run.Logf("begin-block panic: %v", pv)
			return false
		}
		run.Blocks++
		run.SimNanos += int64(dt)
		return true
	}
	end := func() bool {
		if pv := n.EndBlock(); pv != nil {
			run.Probe("end-block-panic")
			run.Logf("end-block panic: %v", pv)
			return false
		}
		return true
	}
	if !begin(5 * time.Second) {
		return
	}
	if !w.bootstrap(p.Cfg("spread", 1)) {
		run.Probe("bootstrap-failed")
		return
	}
	if !w.ownership("bootstrap") {
		return
	}
	for i, st := range p.Steps {
		run.StepIdx = i
		switch st.Op {
		case "advance", "restart":
			if !end() {
				return
			}
			dt := time.Duration(1+st.Arg(1)) * time.Second
			if st.Op == "restart" {
				if p.Cfg("reimport", 0) == 1 {
					if err := n.Reimport(); err != nil {
						// that the export can be imported at all is C19's subject, not C20's: ordinary restart instead
						run.Probe("restart-from-export-refused")
						run.Logf("%d reimport refused: %v", i, err)
						n.Restart()
						run.Fault("restart")
					} else {
						run.Fault("restart-from-export")
					}
				} else {
					n.Restart()
					run.Fault("restart")
				}
			} else {
				switch st.Arg(0) {
				case 1:
					dt = time.Duration(1+st.Arg(1)) * time.Hour
				case 2:
					dt = 24*time.Hour + time.Duration(st.Arg(1))*time.Minute
				case 3:
					dt = time.Duration(1+st.Arg(1)%5) * 7 * 24 * time.Hour
				}
			}
			if !begin(dt) {
				return
			}
			run.Event(st.Op, "ok")
			run.Logf("%d %s -> h=%d t=%s hash=%x", i, st.Op, n.Height, n.Time.Sub(simchain.GenesisTime), n.LastAppHash[:6])
		case "adv":
			w.adversary(i, st)
		case "advren":
			w.advRenounced(i, st)
		case "advmod":
			w.advModule(i, st)
		case "advns":
			w.advNamespace(i, st)
		default:
			w.legit(i, st)
		}
		if run.Stop() {
			return
		}
		if !w.ownership(st.Op) {
			return
		}
	}
	if w.advTotal > 0 {
		run.Add("adv/steps", int64(w.advTotal))
		run.Add("adv/attributable", int64(w.advAttrib))
	}
	end()
	run.Logf("final h=%d hash=%x", n.Height, n.LastAppHash[:6])
}

// ownership compares the owner/admin stored on chain for every tracked object
// with the reference. The reference changes only when a message of the
// rightful owner/admin succeeded, so any difference means somebody else
// altered the object (or an owner's failed message did).
func (w *world) ownership(op string) bool {
	n := w.n
	for _, id := range w.livePositions() {
		pos, _ := n.App.ConcentratedLiquidityKeeper.GetPosition(n.Ctx, id)
		if want := w.addr(w.pos[id].owner); pos.Address != want {
			w.run.Fail("C20", "ownership-drift", "position", "after %s: position %d is owned by %s on chain, the reference (changed only by successful messages of the owner) says %s", op, id, pos.Address, want)
			return false
		}
	}
	for _, id := range w.liveLocks() {
		l, _ := n.App.LockupKeeper.GetLockByID(n.Ctx, id)
		if want := w.addr(w.locks[id].owner); l.Owner != want {
			w.run.Fail("C20", "ownership-drift", "lock", "after %s: lock %d is owned by %s on chain, the reference says %s", op, id, l.Owner, want)
			return false
		}
	}
	for _, d := range w.denoms {
		md, err := n.App.TokenFactoryKeeper.GetAuthorityMetadata(n.Ctx, d.denom)
		want := ""
		if d.admin >= 0 {
			want = w.addr(d.admin)
		}
		if err != nil || md.Admin != want {
			w.run.Fail("C20", "ownership-drift", "denom", "after %s: admin of %s is %q on chain (err %v), the reference (changed only by successful messages of the admin) says %q", op, d.denom, md.Admin, err, want)
			return false
		}
	}
	return true
}

// moduleSender returns the address derived from a module name.
func moduleSender(name string) string { return authtypes.NewModuleAddress(name).String() }

func coin(denom string, amt osmomath.Int) sdk.Coin { return sdk.NewCoin(denom, amt) }
