// Package superfluid is the C11 engine: the real x/superfluid module inside the
// full application (with x/lockup, x/staking, x/gamm, x/concentrated-liquidity,
// x/epochs, bank with supply offsets), driven through its messages, checked
// after every message, every block and every epoch refresh against a lock-table
// reference model in exact arithmetic.
package superfluid

import (
	"fmt"
	"math/big"
	"sort"
	"strings"
	"time"

	"github.com/cosmos/cosmos-sdk/codec"
	sdk "github.com/cosmos/cosmos-sdk/types"
	stakingtypes "github.com/cosmos/cosmos-sdk/x/staking/types"

	"github.com/osmosis-labs/osmosis/osmomath"
	"github.com/osmosis-labs/osmosis/v31/app"
	clmodel "github.com/osmosis-labs/osmosis/v31/x/concentrated-liquidity/model"
	cltypes "github.com/osmosis-labs/osmosis/v31/x/concentrated-liquidity/types"
	clgenesis "github.com/osmosis-labs/osmosis/v31/x/concentrated-liquidity/types/genesis"
	"github.com/osmosis-labs/osmosis/v31/x/gamm/pool-models/balancer"
	gammtypes "github.com/osmosis-labs/osmosis/v31/x/gamm/types"
	lockuptypes "github.com/osmosis-labs/osmosis/v31/x/lockup/types"
	minttypes "github.com/osmosis-labs/osmosis/v31/x/mint/types"
	poolmanagertypes "github.com/osmosis-labs/osmosis/v31/x/poolmanager/types"
	protorevtypes "github.com/osmosis-labs/osmosis/v31/x/protorev/types"
	sfgov "github.com/osmosis-labs/osmosis/v31/x/superfluid/keeper/gov"
	sftypes "github.com/osmosis-labs/osmosis/v31/x/superfluid/types"
	epochstypes "github.com/osmosis-labs/osmosis/x/epochs/types"

	"verif/harness/simchain"
	"verif/harness/simcore"
)

type Engine struct{}

func init() { simcore.Register(Engine{}) }

func (Engine) Name() string    { return "superfluid" }
func (Engine) Props() []string { return []string{"C11"} }
func (Engine) Budget(tier, prop string) (int, int) {
	if tier == "thorough" {
		return 9000, 1500
	}
	return 2000, 170
}
func (Engine) Describe() simcore.Description {
	return simcore.Description{
		Real: []string{"full OsmosisApp: x/superfluid keeper, msg server and governance handler, x/lockup (synthetic locks, end-blocker at heights divisible by 120), x/staking and x/distribution of the SDK fork, bank with supply offsets, x/gamm balancer pool, x/concentrated-liquidity full-range positions, x/epochs, x/incentives gauges, real BeginBlocker/EndBlocker of every module, IAVL commit per block, SDK gas metering"},
		Stub: []string{"CometBFT (the simulator supplies header time/height and message order; no votes, so no downtime slashing: slashing and jailing are injected through the staking keeper as faults)", "ante/post handlers (sender taken as authenticated, no fees)", "governance voting (superfluid assets are enabled by calling the proposal handler directly)"},
		Rule: "one run = 2-3 validators, 2-4 owners, a uosmo/uion balancer pool and (3 of 4 runs) a uosmo/uion concentrated pool, both enabled as superfluid assets through the governance handler; risk factor, staking unbonding time, epoch length, pool depth and price drawn per run; steps are lock / add-to-lock / superfluid-delegate / lock-and-delegate / undelegate / unbond-lock / undelegate-and-unbond (full, partial) / full-range create-and-delegate / add to a delegated full-range position / begin-unlocking (on delegated, undelegating and plain locks) / withdraw-position on locked positions / price-moving swaps / clock advances (small, to the next epoch, several epochs, across unbonding time, to a marker's end +-1s) / empty-block bursts to the next height divisible by 120 / node restarts, with seeded out-of-gas and forced roll-back on every message kind; after every message, block and epoch refresh the stake of every (denomination, validator) intermediary account, all synthetic locks, all lock-to-account connections, every lock record, owners' share balances and the bond-denom supply-with-offset are compared with a lock-table reference.; a governance step takes a share denomination off the superfluid asset list (the next refresh then unstakes everything staked for it) or lists it again (between such a change and the next refresh nothing is demanded of that denomination's stake)",
		Assumptions: []string{
			"'matches exactly after the epoch refresh' is read as: the integer stake is one of the two integers adjacent to the exact rational value sum(lock amounts) x published multiplier x (1 - MinimumRiskFactor); neither the property nor the README fixes a rounding direction (the README's 'below 1 uosmo is rounded to 0' clause is not enforced)",
			"the reference value uses the multiplier published by the AssetMultiplier store after the latest refresh and the sum of the amounts of the locks connected to the account (one rounding per account, as the README's invariant section says)",
			"validators are slashed and jailed only as injected faults; until the first slash of a run delegation shares convert to tokens 1:1 (the oracle always converts through the validator's public exchange rate). After a slash the between-refresh stake oracles are off for the rest of the run and the after-refresh oracle of classic denominations is 4 base units wide (share/token conversions truncate in both directions at an exchange rate below one); lock amounts follow the chain's cut",
			"maturity instants exactly equal to the block time are not tested (the engine resynchronises from the chain at equality)",
			"the between-refresh tolerance is taken literally from the property (one base unit per lock currently connected, oracle stake-within-one-unit-per-lock); a second, wider oracle (stake-tracks-locks: one unit per connected lock or per lock operation since the refresh, whichever is larger; every operation rounds once by less than a unit) keeps watching when the literal one is listed as a known finding",
			"liveness of undelegation/delegation messages is not part of C11: natural failures are followed, not judged; only BeginUnlocking on a delegated lock and WithdrawPosition on a position whose lock has not matured are required to fail",
		},
	}
}

const (
	fundOsmo = int64(100_000_000_000_000)
	fundIon  = int64(10_000_000_000_000_000)
	otherDen = "uion"
	epochID  = "week" // incentives DistrEpochIdentifier default; x/superfluid refreshes on it
)

var riskChoices = []int64{0, 100, 500, 2500, 3333, 5000}
var unbondChoices = []int64{3600, 10800}     // both are default incentives lockable durations
var epochChoices = []int64{1200, 3600, 7200} // seconds
var depthChoices = []int64{8, 9, 10, 11, 12} // uosmo in the balancer pool = 10^k
var priceChoices = []int64{-2, 0, 2}         // uion depth = uosmo depth * 10^p
var weightChoices = []int64{1, 1, 4}         // weight of uosmo (uion has 1)
var swapFeeChoices = []int64{0, 30}          // basis points

func (Engine) Generate(r *simcore.RNG, tier string, idx int) *simcore.Plan {
	p := &simcore.Plan{Config: map[string]int64{}}
	p.Config["owners"] = r.Range(2, 4)
	p.Config["vals"] = r.Range(2, 3)
	p.Config["riskbp"] = riskChoices[r.Intn(len(riskChoices))]
	p.Config["unbond"] = unbondChoices[r.Intn(len(unbondChoices))]
	p.Config["epoch"] = epochChoices[r.Intn(len(epochChoices))]
	p.Config["depth"] = depthChoices[r.Intn(len(depthChoices))]
	p.Config["price"] = priceChoices[r.Intn(len(priceChoices))]
	p.Config["weight"] = weightChoices[r.Intn(len(weightChoices))]
	p.Config["swapfee"] = swapFeeChoices[r.Intn(len(swapFeeChoices))]
	cl := int64(1)
	if idx%4 == 3 {
		cl = 0
	}
	p.Config["cl"] = cl
	dust := r.Chance(0.3)
	faults := idx%2 == 1
	if idx%4 == 3 {
		p.Config["spec"] = 60 + int64(idx/4%5)*60 // permille of blocks first executed speculatively on a discarded branch (simchain.Node.Spec)
	}
	n := int(r.Range(20, 55))
	sweeps := 0
	for i := 0; i < n; i++ {
		st := simcore.Step{}
		clw := 0
		if cl == 1 {
			clw = 1
		}
		switch r.Weighted([]int{14, 12, 10, 10, 5, 8, 8, 7 * clw, 4 * clw, 3 * clw, 6, 13, 3, 2, 4, 3, 2, 2}) {
		case 0:
			st.Op = "lock"
			kind := r.Weighted([]int{70, 0, 4, 6})
			if dust {
				kind = r.Weighted([]int{30, 50, 5, 15})
			}
			st.A = []int64{r.Range(0, 3), r.Range(0, 5), int64(kind), r.Range(1, 3000), r.Range(0, 2)}
		case 1:
			st.Op = "delegate"
			st.A = []int64{r.Range(0, 63), r.Range(0, 2), r.Range(0, 14), r.Range(0, 9)}
		case 2:
			st.Op = "lockdelegate"
			kind := 0
			if dust {
				kind = r.Weighted([]int{40, 60})
			}
			st.A = []int64{r.Range(0, 3), r.Range(0, 2), int64(kind), r.Range(1, 3000), r.Range(0, 2)}
		case 3:
			st.Op = "undelegate"
			st.A = []int64{r.Range(0, 63), r.Range(0, 14), r.Range(0, 9)}
		case 4:
			st.Op = "unbond"
			st.A = []int64{r.Range(0, 63), r.Range(0, 9)}
		case 5:
			st.Op = "undunbond"
			st.A = []int64{r.Range(0, 63), []int64{10000, 10000, 5000, 1, 9999, 2500, 3333, 12000}[r.Intn(8)], r.Range(0, 9)}
		case 6:
			st.Op = "beginunlock"
			st.A = []int64{r.Range(0, 63), []int64{0, 0, 10000, 5000, 1}[r.Intn(5)], int64(r.Weighted([]int{50, 30, 20}))}
		case 7:
			st.Op = "clcreate"
			st.A = []int64{r.Range(0, 3), r.Range(0, 2), r.Range(1, 500), r.Range(1, 500)}
		case 8:
			st.Op = "cladd"
			st.A = []int64{r.Range(0, 63), r.Range(1, 300), r.Range(1, 300)}
		case 9:
			st.Op = "clwithdraw"
			st.A = []int64{r.Range(0, 63), r.Range(0, 9)}
		case 10:
			st.Op = "swap"
			st.A = []int64{r.Range(0, 1), r.Range(0, 1), r.Range(1, 2500)}
		case 11:
			st.Op = "advance"
			// kind 0 small; 1 to next epoch (+delta s); 2 unbonding time +-2s; 3 to a marker/lock end +-1s; 4 several epochs
			st.A = []int64{int64(r.Weighted([]int{25, 35, 12, 20, 8})), r.Range(0, 63), []int64{-1, 1}[r.Intn(2)], r.Range(1, 600)}
		case 12:
			if sweeps >= 4 {
				st.Op = "advance"
				st.A = []int64{0, 0, 1, r.Range(1, 600)}
				break
			}
			sweeps++
			st.Op = "sweep"
			st.A = []int64{r.Range(1, 30)}
		case 13:
			st.Op = "restart"
			// (A[1] == 1 would restart the chain from its own export instead. Not generated: after an import
			// x/superfluid runs its epoch-start routine in the first block with multipliers that read as zero,
			// x/twap may refuse the export altogether, supply offsets are gone - consequences of the export/import
			// gaps recorded under C19 that would drown this property's own oracles. The lockup engine does use it.)
		case 14:
			st.Op = "beginall" // the bulk message: must refuse as a whole while one of the owner's locks is delegated
			st.A = []int64{r.Range(0, 3)}
		case 15:
			// governance takes a share denomination off the superfluid asset list, or puts it back
			st.Op = "govasset"
			st.A = []int64{r.Range(0, 1)}
		case 17:
			// a validator is jailed (fault: downtime) or released again; locks stay delegated to it meanwhile
			st.Op = "jail"
			st.A = []int64{r.Range(0, 2)}
		case 16:
			// a validator is slashed for misbehaviour (fault): every lock staked or unstaking through it loses the fraction
			st.Op = "slash"
			st.A = []int64{r.Range(0, 2), r.Range(0, 3)}
		}
		if faults && r.Chance(0.2) && st.Op != "advance" && st.Op != "sweep" && st.Op != "restart" && st.Op != "govasset" && st.Op != "slash" && st.Op != "jail" {
			if r.Chance(0.35) {
				st.F = "abort"
			} else {
				st.F = fmt.Sprintf("oog:%d", r.Range(1, 999))
			}
		}
		p.Steps = append(p.Steps, st)
	}
	// give undelegations and unlocks a chance to mature and return, then one more refresh
	p.Steps = append(p.Steps,
		simcore.Step{Op: "advance", A: []int64{2, 0, 1, 1}},
		simcore.Step{Op: "sweep", A: []int64{5}},
		simcore.Step{Op: "advance", A: []int64{1, 0, 1, 7}})
	return p
}

// ---- reference model ----

type lstate int

const (
	plain lstate = iota
	delegated
	undelegating
)

func (s lstate) String() string { return [...]string{"plain", "delegated", "undelegating"}[s] }

type refLock struct {
	id        uint64
	owner     int
	denom     string
	cl        bool
	posID     uint64 // full-range position backing a concentrated lock (0: none / withdrawn)
	amount    osmomath.Int
	duration  time.Duration
	state     lstate
	val       int
	synthEnd  time.Time // undelegating: undelegate block time + staking unbonding time
	unlockEnd time.Time // zero: not unlocking
}

func (l *refLock) unlocking() bool { return !l.unlockEnd.IsZero() }

type world struct {
	run    *simcore.Run
	n      *simchain.Node
	owners int
	vals   int
	trader int // account index of the liquidity provider / swapper
	U      time.Duration
	E      time.Duration
	rf     osmomath.Dec

	gammPool  uint64
	gammDenom string
	clPool    uint64
	clDenom   string
	denoms    []string

	locks      map[uint64]*refLock
	shares     []osmomath.Int // gamm shares acquired per owner
	baseSupply osmomath.Int
	ops        map[string]int  // lock operations per intermediary account since the last refresh
	unsettled  map[string]bool // denominations whose listing governance changed since the last refresh
	slashed    bool            // some validator has been slashed in this run
}

func (w *world) sortedIDs() []uint64 {
	ids := make([]uint64, 0, len(w.locks))
	for id := range w.locks {
		ids = append(ids, id)
	}
	sort.Slice(ids, func(i, j int) bool { return ids[i] < ids[j] })
	return ids
}

// pick selects the sel-th lock (mod count) among those matching f; when none
// matches, or when any is set, among all locks.
func (w *world) pick(sel int64, any bool, f func(l *refLock) bool) *refLock {
	ids := w.sortedIDs()
	if len(ids) == 0 {
		return nil
	}
	var m []uint64
	if !any {
		for _, id := range ids {
			if f(w.locks[id]) {
				m = append(m, id)
			}
		}
	}
	if len(m) == 0 {
		m = ids
	}
	return w.locks[m[int(sel)%len(m)]]
}

func iaKey(denom string, val int) string { return fmt.Sprintf("%s|%d", denom, val) }

func (w *world) bump(l *refLock, k int) { w.ops[iaKey(l.denom, l.val)] += k }

func decRat(d osmomath.Dec) *big.Rat {
	return new(big.Rat).SetFrac(d.BigInt(), new(big.Int).Exp(big.NewInt(10), big.NewInt(18), nil))
}

func coinsOf(denom string, amt osmomath.Int) sdk.Coins { return sdk.NewCoins(sdk.NewCoin(denom, amt)) }

func pow10(k int64) osmomath.Int {
	return osmomath.NewIntFromBigInt(new(big.Int).Exp(big.NewInt(10), big.NewInt(k), nil))
}

var digestStores = []string{"acc", "bank", "concentratedliquidity", "distribution", "gamm", "incentives", "lockup", "poolmanager", "staking", "superfluid"}

func (w *world) must(what string, res simchain.Result) simchain.Result {
	if !res.OK() {
		panic(fmt.Sprintf("setup: %s: %s err=%v panic=%v", what, res.Outcome, res.Err, res.Panic))
	}
	return res
}

func (w *world) supplyWithOffset(ctx sdk.Context) osmomath.Int {
	return w.n.App.BankKeeper.GetSupplyWithOffset(ctx, simchain.BondDenom).Amount
}

func (w *world) checkSupply(ctx sdk.Context, op string) bool {
	if got := w.supplyWithOffset(ctx); !got.Equal(w.baseSupply) {
		w.run.Fail("C11", "supply-neutral", op, "height %d: bank SupplyWithOffset(%s) is %s, was %s before (raw supply %s); superfluid minting and burning must not change the supply reported to users", w.n.Height, simchain.BondDenom, got, w.baseSupply, w.n.Supply(ctx, simchain.BondDenom))
		return false
	}
	return true
}

func (Engine) Execute(run *simcore.Run) {
	p := run.Plan
	w := &world{run: run, locks: map[uint64]*refLock{}, ops: map[string]int{}, unsettled: map[string]bool{}}
	w.owners = int(p.Cfg("owners", 3))
	w.vals = int(p.Cfg("vals", 2))
	w.trader = w.owners
	w.U = time.Duration(p.Cfg("unbond", 3600)) * time.Second
	w.E = time.Duration(p.Cfg("epoch", 3600)) * time.Second
	w.rf = osmomath.NewDecWithPrec(p.Cfg("riskbp", 5000), 4)
	hasCL := p.Cfg("cl", 1) == 1
	fund := sdk.NewCoins(sdk.NewInt64Coin(simchain.BondDenom, fundOsmo), sdk.NewInt64Coin(otherDen, fundIon))
	n := simchain.NewNode(simchain.Config{Accounts: w.owners + 1, Validators: w.vals, Fund: fund, Mutate: func(cdc codec.JSONCodec, gs app.GenesisState) {
		var sg stakingtypes.GenesisState
		cdc.MustUnmarshalJSON(gs[stakingtypes.ModuleName], &sg)
		sg.Params.UnbondingTime = w.U
		gs[stakingtypes.ModuleName] = cdc.MustMarshalJSON(&sg)

		var fg sftypes.GenesisState
		cdc.MustUnmarshalJSON(gs[sftypes.ModuleName], &fg)
		fg.Params.MinimumRiskFactor = w.rf
		gs[sftypes.ModuleName] = cdc.MustMarshalJSON(&fg)

		var eg epochstypes.GenesisState
		cdc.MustUnmarshalJSON(gs[epochstypes.ModuleName], &eg)
		for i := range eg.Epochs {
			if eg.Epochs[i].Identifier == epochID {
				eg.Epochs[i].Duration = w.E
			}
		}
		gs[epochstypes.ModuleName] = cdc.MustMarshalJSON(&eg)

		// no inflation: every change of the bond-denom supply is attributable to superfluid
		var mg minttypes.GenesisState
		cdc.MustUnmarshalJSON(gs[minttypes.ModuleName], &mg)
		mg.Minter.EpochProvisions = osmomath.ZeroDec()
		mg.Params.GenesisEpochProvisions = osmomath.ZeroDec()
		mg.Params.MintingRewardsDistributionStartEpoch = 1 << 40
		gs[minttypes.ModuleName] = cdc.MustMarshalJSON(&mg)

		var pg protorevtypes.GenesisState
		cdc.MustUnmarshalJSON(gs[protorevtypes.ModuleName], &pg)
		pg.Params.Enabled = false
		gs[protorevtypes.ModuleName] = cdc.MustMarshalJSON(&pg)

		var cg clgenesis.GenesisState
		cdc.MustUnmarshalJSON(gs[cltypes.ModuleName], &cg)
		cg.Params.IsPermissionlessPoolCreationEnabled = true
		gs[cltypes.ModuleName] = cdc.MustMarshalJSON(&cg)
	}})
	n.Spec = run.Plan.Cfg("spec", 0)
	defer func() {
		for i := 0; i < n.Specs; i++ {
			run.Fault("speculative-block-discarded")
		}
	}()
	w.n = n
	w.baseSupply = w.supplyWithOffset(n.QueryCtx())

	begin := func(dt time.Duration) bool {
		if pv := n.BeginBlock(dt); pv != nil {
			run.Fail("C11", "chain-halt", "begin-block", "BeginBlocker panicked at height %d: %v", n.Height, pv)
			return false
		}
		run.Blocks++
		run.SimNanos += int64(dt)
		if !w.checkSupply(n.Ctx, "begin-block") {
			return false
		}
		if ei := n.App.EpochsKeeper.GetEpochInfo(n.Ctx, epochID); ei.CurrentEpochStartHeight == n.Height {
			// the superfluid BeginBlocker refreshed multipliers and delegations in this block
			run.Probe("epoch-refresh")
			w.ops = map[string]int{}
			w.unsettled = map[string]bool{}
			run.Logf("  refresh h=%d epoch=%d", n.Height, ei.CurrentEpoch)
			if !w.stakeOracle(n.QueryCtx(), "epoch-refresh", true) {
				return false
			}
		}
		return true
	}
	end := func() bool {
		if pv := n.EndBlock(); pv != nil {
			run.Fail("C11", "chain-halt", "end-block", "EndBlocker panicked at height %d: %v", n.Height+1, pv)
			return false
		}
		ctx := n.QueryCtx()
		if n.Height%120 == 0 {
			w.mature(ctx)
		}
		return w.checkSupply(ctx, "end-block")
	}

	if !begin(time.Second) {
		return
	}
	w.setup(p, hasCL)
	if !w.checkSupply(n.Ctx, "setup") || !w.oracle("setup") {
		return
	}

	for i, st := range p.Steps {
		run.StepIdx = i
		fk, fa := simcore.ParseFault(st.F)
		switch st.Op {
		case "advance", "sweep", "restart":
			if !end() || !w.oracle("block") {
				return
			}
			switch st.Op {
			case "restart":
				if st.Arg(1) == 1 && (n.Height+1)%120 != 0 {
					// the chain is restarted from an export: only what the modules' genesis carries survives. The
					// block that commits the import runs x/superfluid's epoch-start routine (x/epochs resets the epoch
					// start height to the import height), i.e. a refresh; bank supply offsets are in no genesis (both
					// recorded under C19), so the reported supply is re-based here.
					if err := n.Reimport(); err != nil {
						sig := "fails"
						if strings.Contains(err.Error(), "twap record p0 and p1 last spot price must be zero") {
							// x/twap's genesis validation refuses records its own end-blocker writes (known finding, an
							// export/import matter recorded under C19): the node is restarted the ordinary way instead
							sig = "twap-genesis-validation"
						}
						run.Fail("C11", "reimport", sig, "restarting the chain from its own export failed: %v", err)
						if sig == "fails" || run.Stop() {
							return
						}
						n.Restart()
						run.Fault("restart")
					} else {
						run.Fault("restart-from-export")
					}
					w.ops = map[string]int{}
					w.unsettled = map[string]bool{}
					w.baseSupply = w.supplyWithOffset(n.QueryCtx())
					if !w.oracle("restart-from-export") {
						return
					}
				} else {
					n.Restart()
					run.Fault("restart")
				}
				if !begin(time.Duration(1+st.Arg(0)) * time.Second) {
					return
				}
			case "advance":
				if !begin(w.advanceDt(st)) {
					return
				}
			case "sweep":
				for {
					if !begin(time.Duration(1+st.Arg(0)) * time.Second) {
						return
					}
					if n.Height%120 == 0 {
						break
					}
					if !end() {
						return
					}
				}
				run.Fault("height-burst")
			}
			run.Event(st.Op, "ok")
			run.Logf("%d %s %v -> h=%d t=%s hash=%x", i, st.Op, st.A, n.Height, n.Time.Sub(simchain.GenesisTime), n.LastAppHash[:6])
			if !w.oracle("block") {
				return
			}
			continue
		}
		if st.Op == "govasset" {
			denom := w.denoms[int(st.Arg(0))%len(w.denoms)]
			var err error
			what := "removed"
			if asset, e := n.App.SuperfluidKeeper.GetSuperfluidAsset(n.Ctx, denom); e == nil && asset.Denom == denom {
				err = sfgov.HandleRemoveSuperfluidAssetsProposal(n.Ctx, *n.App.SuperfluidKeeper, &sftypes.RemoveSuperfluidAssetsProposal{Title: "sf", Description: "sf", SuperfluidAssetDenoms: []string{denom}})
				run.Probe("superfluid-asset-removed")
			} else {
				what = "listed again"
				at := sftypes.SuperfluidAssetTypeLPShare
				if denom == w.clDenom {
					at = sftypes.SuperfluidAssetTypeConcentratedShare
				}
				err = sfgov.HandleSetSuperfluidAssetsProposal(n.Ctx, *n.App.SuperfluidKeeper, *n.App.EpochsKeeper, &sftypes.SetSuperfluidAssetsProposal{Title: "sf", Description: "sf", Assets: []sftypes.SuperfluidAsset{{Denom: denom, AssetType: at}}})
				run.Probe("superfluid-asset-listed-again")
			}
			if err != nil {
				panic(fmt.Sprintf("harness: governance change of %s failed: %v", denom, err))
			}
			// the multiplier changes at once, stake follows at the next refresh: nothing is
			// demanded of this denomination's stake in between
			w.unsettled[denom] = true
			run.Event(st.Op, "ok")
			run.Logf("%d govasset %s %s", i, denom, what)
			if !w.checkSupply(n.Ctx, "govasset") || !w.oracle("govasset") {
				return
			}
			continue
		}
		if st.Op == "slash" {
			if !w.slash(i, st) {
				return
			}
			continue
		}
		if st.Op == "jail" {
			v := int(st.Arg(0)) % w.vals
			val, err := n.App.StakingKeeper.GetValidator(n.Ctx, n.ValAddrs[v])
			if err != nil {
				run.Event("jail", "skip")
				continue
			}
			cons, _ := val.GetConsAddr()
			if val.IsJailed() {
				if err := n.App.StakingKeeper.Unjail(n.Ctx, cons); err != nil {
					panic(fmt.Sprintf("harness: unjail: %v", err))
				}
				run.Probe("validator-unjailed")
			} else {
				others := 0
				for u := 0; u < w.vals; u++ {
					if o, err := n.App.StakingKeeper.GetValidator(n.Ctx, n.ValAddrs[u]); err == nil && u != v && o.IsBonded() && !o.IsJailed() {
						others++
					}
				}
				if others == 0 {
					run.Event("jail", "skip") // the last active validator stays
					continue
				}
				if err := n.App.StakingKeeper.Jail(n.Ctx, cons); err != nil {
					panic(fmt.Sprintf("harness: jail: %v", err))
				}
				run.Fault("validator-jailed")
			}
			run.Event("jail", "ok")
			run.Logf("%d jail validator=%d jailed-before=%v", i, v, val.IsJailed())
			if !w.checkSupply(n.Ctx, "jail") || !w.oracle("jail") {
				return
			}
			continue
		}
		msg, apply, mustFail := w.build(st)
		if msg == nil {
			run.Event(st.Op, "skip")
			run.Logf("%d %s %v skip", i, st.Op, st.A)
			continue
		}
		pre := ""
		if st.F != "" || mustFail {
			pre = n.Digest(n.Ctx, digestStores...)
		}
		res := n.DeliverFault(msg, fk, fa)
		run.Event(st.Op, res.Outcome)
		run.Logf("%d %s %v f=%s -> %s gas=%d err=%v", i, st.Op, st.A, st.F, res.Outcome, res.GasUsed, res.Err)
		switch res.Outcome {
		case "ok":
			if mustFail {
				run.Fail("C11", "must-fail", st.Op, "%s succeeded although the lock is superfluid-delegated / its undelegation has not matured: %v", st.Op, msg)
				return
			}
			apply(res)
		case "err", "invalid":
			if mustFail {
				run.Probe("adversarial-" + st.Op + "-rejected")
			}
			if (st.Op == "undelegate" || st.Op == "undunbond") && res.Err != nil && strings.Contains(res.Err.Error(), "shares") {
				// liveness, not judged by C11: rounding left the account with less stake than
				// this lock's value, the staking module refuses to unbond more than is there
				run.Probe("undelegate-refused-for-lack-of-stake")
				run.Logf("  undelegate refused: %v", res.Err)
			}
		case "oog", "abort":
			run.Fault(res.Outcome)
		case "panic":
			run.Fail("C11", "msg-panics", st.Op, "%s panicked: %v", st.Op, res.Panic)
			return
		}
		if pre != "" && res.Outcome != "ok" {
			if post := n.Digest(n.Ctx, digestStores...); post != pre {
				run.Fail("C11", "failed-msg-changed-state", st.Op, "%s ended with %s but the state digest changed %s -> %s", st.Op, res.Outcome, pre, post)
				return
			}
		}
		if run.Stop() || !w.checkSupply(n.Ctx, st.Op) || !w.oracle(st.Op) {
			return
		}
	}
	if end() {
		w.oracle("final")
	}
}

// advanceDt resolves an advance step relative to the current state.
func (w *world) advanceDt(st simcore.Step) time.Duration {
	n := w.n
	dt := time.Duration(st.Arg(3)) * time.Second
	switch st.Arg(0) {
	case 1: // just past the next epoch boundary
		ei := n.App.EpochsKeeper.GetEpochInfo(n.QueryCtx(), epochID)
		next := ei.CurrentEpochStartTime.Add(ei.Duration)
		if next.After(n.Time) {
			dt = next.Sub(n.Time) + time.Duration(1+st.Arg(3)%30)*time.Second
		}
	case 2:
		dt = w.U + time.Duration(2*st.Arg(2))*time.Second
	case 3:
		l := w.pick(st.Arg(1), false, func(l *refLock) bool { return l.state == undelegating || l.unlocking() })
		if l != nil {
			t := l.synthEnd
			if l.state != undelegating || (l.unlocking() && st.Arg(3)%2 == 0) {
				t = l.unlockEnd
			}
			if t.After(n.Time.Add(2 * time.Second)) {
				dt = t.Sub(n.Time) + time.Duration(st.Arg(2))*time.Second
				w.run.Probe("advance-to-marker-end")
			}
		}
	case 4:
		dt = w.E*time.Duration(2+st.Arg(3)%2) + time.Duration(st.Arg(3))*time.Second
		w.run.Fault("epoch-catch-up")
	}
	if dt <= 0 {
		dt = time.Second
	}
	return dt
}

// setup builds the pools and enables their share denominations as superfluid
// assets. Users' actions go through messages; enabling goes through the
// governance proposal handler.
func (w *world) setup(p *simcore.Plan, hasCL bool) {
	n := w.n
	lp := n.Accts[w.trader].String()
	osmoDepth := pow10(p.Cfg("depth", 10))
	ionDepth := pow10(p.Cfg("depth", 10) + p.Cfg("price", 0))
	res := w.must("create balancer pool", n.Deliver(&balancer.MsgCreateBalancerPool{
		Sender:     lp,
		PoolParams: &balancer.PoolParams{SwapFee: osmomath.NewDecWithPrec(p.Cfg("swapfee", 0), 4), ExitFee: osmomath.ZeroDec()},
		PoolAssets: []balancer.PoolAsset{
			{Token: sdk.NewCoin(otherDen, ionDepth), Weight: osmomath.NewInt(1)},
			{Token: sdk.NewCoin(simchain.BondDenom, osmoDepth), Weight: osmomath.NewInt(p.Cfg("weight", 1))},
		},
		FuturePoolGovernor: "",
	}, 0, false))
	w.gammPool = res.Resp.MsgResponses[0].GetCachedValue().(*balancer.MsgCreateBalancerPoolResponse).PoolID
	w.gammDenom = gammtypes.GetPoolShareDenom(w.gammPool)
	w.denoms = []string{w.gammDenom}
	// every owner joins for a tenth of the initial share supply
	join := pow10(19)
	for o := 0; o < w.owners; o++ {
		w.must("join pool", n.Deliver(&gammtypes.MsgJoinPool{
			Sender: n.Accts[o].String(), PoolId: w.gammPool, ShareOutAmount: join,
			TokenInMaxs: sdk.NewCoins(sdk.NewInt64Coin(simchain.BondDenom, fundOsmo/2), sdk.NewInt64Coin(otherDen, fundIon/2)),
		}, 0, false))
		w.shares = append(w.shares, n.Balance(n.Ctx, n.Accts[o], w.gammDenom))
	}
	if err := sfgov.HandleSetSuperfluidAssetsProposal(n.Ctx, *n.App.SuperfluidKeeper, *n.App.EpochsKeeper, &sftypes.SetSuperfluidAssetsProposal{
		Title: "sf", Description: "sf", Assets: []sftypes.SuperfluidAsset{{Denom: w.gammDenom, AssetType: sftypes.SuperfluidAssetTypeLPShare}},
	}); err != nil {
		panic(fmt.Sprintf("setup: enable %s: %v", w.gammDenom, err))
	}
	if !hasCL {
		return
	}
	res = w.must("create concentrated pool", n.Deliver(&clmodel.MsgCreateConcentratedPool{
		Sender: lp, Denom0: otherDen, Denom1: simchain.BondDenom, TickSpacing: 100, SpreadFactor: osmomath.NewDecWithPrec(p.Cfg("swapfee", 0)/3, 4),
	}, 0, false))
	w.clPool = res.Resp.MsgResponses[0].GetCachedValue().(*clmodel.MsgCreateConcentratedPoolResponse).PoolID
	w.clDenom = cltypes.GetConcentratedLockupDenomFromPoolId(w.clPool)
	w.must("first full-range position", n.Deliver(&cltypes.MsgCreatePosition{
		PoolId: w.clPool, Sender: lp, LowerTick: cltypes.MinInitializedTick, UpperTick: cltypes.MaxTick,
		TokensProvided:  sdk.NewCoins(sdk.NewCoin(otherDen, ionDepth), sdk.NewCoin(simchain.BondDenom, osmoDepth)),
		TokenMinAmount0: osmomath.ZeroInt(), TokenMinAmount1: osmomath.ZeroInt(),
	}, 0, false))
	if err := sfgov.HandleSetSuperfluidAssetsProposal(n.Ctx, *n.App.SuperfluidKeeper, *n.App.EpochsKeeper, &sftypes.SetSuperfluidAssetsProposal{
		Title: "sf", Description: "sf", Assets: []sftypes.SuperfluidAsset{{Denom: w.clDenom, AssetType: sftypes.SuperfluidAssetTypeConcentratedShare}},
	}); err != nil {
		panic(fmt.Sprintf("setup: enable %s: %v", w.clDenom, err))
	}
	w.denoms = append(w.denoms, w.clDenom)
}

// mature resynchronises the reference after the lockup end-blocker ran at a
// height divisible by 120: unstaking markers past their end are deleted, and
// only then may an unlocking lock past its own end be paid out. A lock that is
// not yet allowed to go stays in the reference, so the oracle demands that it
// still exists with its full amount.
func (w *world) mature(ctx sdk.Context) {
	now := ctx.BlockTime()
	for _, id := range w.sortedIDs() {
		l := w.locks[id]
		if l.state == undelegating && !l.synthEnd.After(now) {
			if l.synthEnd.Before(now) || !w.n.App.LockupKeeper.HasAnySyntheticLockups(ctx, id) {
				l.state = plain
				l.synthEnd = time.Time{}
				w.run.Probe("unstaking-marker-matured")
			}
		}
		if l.state == plain && l.unlocking() && !l.unlockEnd.After(now) {
			// eligible to be paid out; whether it was is x/lockup's business (C06)
			if _, err := w.n.App.LockupKeeper.GetLockByID(ctx, id); err != nil {
				delete(w.locks, id)
				w.run.Probe("undelegated-lock-returned")
			}
		}
	}
}

func (w *world) amountFor(kind, arg, jitter int64, bal osmomath.Int, denom string) osmomath.Int {
	switch kind {
	case 0:
		return bal.MulRaw(arg).QuoRaw(10000)
	case 1: // dust: worth about (arg%40+1)/2 uosmo before the risk cut
		m := w.n.App.SuperfluidKeeper.GetOsmoEquivalentMultiplier(w.n.Ctx, denom)
		if !m.IsPositive() {
			return osmomath.NewInt(arg)
		}
		return osmomath.NewDec(arg%40 + 1).QuoInt64(2).Quo(m).TruncateInt().AddRaw(jitter)
	case 2:
		return bal.AddRaw(1 + jitter) // more than owned: must fail
	default:
		return osmomath.NewInt(1 + jitter)
	}
}

// build turns a step into a message, the reference transition to apply on
// success, and whether the property requires the message to fail.
func (w *world) build(st simcore.Step) (sdk.Msg, func(simchain.Result), bool) {
	n := w.n
	now := n.Time
	resp := func(res simchain.Result) interface{} { return res.Resp.MsgResponses[0].GetCachedValue() }
	chainAmount := func(id uint64) osmomath.Int {
		lk, err := n.App.LockupKeeper.GetLockByID(n.Ctx, id)
		if err != nil || len(lk.Coins) != 1 {
			panic(fmt.Sprintf("lock %d reported by a message response is not readable: %v", id, err))
		}
		return lk.Coins[0].Amount
	}
	switch st.Op {
	case "lock":
		o := int(st.Arg(0)) % w.owners
		durs := []time.Duration{w.U, w.U, 2 * w.U, w.U + 1, w.U / 2, w.U}
		dur := durs[int(st.Arg(1))%len(durs)]
		amt := w.amountFor(st.Arg(2), st.Arg(3), st.Arg(4), n.Balance(n.Ctx, n.Accts[o], w.gammDenom), w.gammDenom)
		if !amt.IsPositive() {
			return nil, nil, false
		}
		msg := &lockuptypes.MsgLockTokens{Owner: n.Accts[o].String(), Duration: dur, Coins: coinsOf(w.gammDenom, amt)}
		return msg, func(res simchain.Result) {
			id := resp(res).(*lockuptypes.MsgLockTokensResponse).ID
			if l, ok := w.locks[id]; ok {
				l.amount = l.amount.Add(amt)
				switch l.state {
				case delegated:
					w.bump(l, 1)
					w.run.Probe("top-up-of-delegated-lock")
				case undelegating:
					w.run.Probe("top-up-of-undelegating-lock")
				}
				return
			}
			w.locks[id] = &refLock{id: id, owner: o, denom: w.gammDenom, amount: amt, duration: dur}
		}, false
	case "delegate":
		l := w.pick(st.Arg(0), st.Arg(3) == 0, func(l *refLock) bool { return l.state == plain && !l.unlocking() && l.duration >= w.U })
		if l == nil {
			return nil, nil, false
		}
		sender := l.owner
		if st.Arg(2) == 0 {
			sender = (l.owner + 1) % w.owners
		}
		v := int(st.Arg(1)) % w.vals
		id := l.id
		msg := &sftypes.MsgSuperfluidDelegate{Sender: n.Accts[sender].String(), LockId: id, ValAddr: n.ValAddrs[v].String()}
		return msg, func(res simchain.Result) {
			l := w.locks[id]
			l.state, l.val = delegated, v
			w.bump(l, 1)
		}, false
	case "lockdelegate":
		o := int(st.Arg(0)) % w.owners
		v := int(st.Arg(1)) % w.vals
		amt := w.amountFor(st.Arg(2), st.Arg(3), st.Arg(4), n.Balance(n.Ctx, n.Accts[o], w.gammDenom), w.gammDenom)
		if !amt.IsPositive() {
			return nil, nil, false
		}
		msg := &sftypes.MsgLockAndSuperfluidDelegate{Sender: n.Accts[o].String(), Coins: coinsOf(w.gammDenom, amt), ValAddr: n.ValAddrs[v].String()}
		return msg, func(res simchain.Result) {
			id := resp(res).(*sftypes.MsgLockAndSuperfluidDelegateResponse).ID
			l, ok := w.locks[id]
			if ok {
				l.amount = l.amount.Add(amt)
				w.run.Probe("lock-and-delegate-into-existing-lock")
			} else {
				l = &refLock{id: id, owner: o, denom: w.gammDenom, amount: amt, duration: w.U}
				w.locks[id] = l
			}
			l.state, l.val = delegated, v
			w.bump(l, 1)
		}, false
	case "undelegate":
		l := w.pick(st.Arg(0), st.Arg(2) == 0, func(l *refLock) bool { return l.state == delegated })
		if l == nil {
			return nil, nil, false
		}
		sender := l.owner
		if st.Arg(1) == 0 {
			sender = (l.owner + 1) % w.owners
		}
		id := l.id
		msg := &sftypes.MsgSuperfluidUndelegate{Sender: n.Accts[sender].String(), LockId: id}
		return msg, func(res simchain.Result) {
			l := w.locks[id]
			w.bump(l, 1)
			l.state, l.synthEnd = undelegating, now.Add(w.U)
		}, false
	case "unbond":
		l := w.pick(st.Arg(0), st.Arg(1) == 0, func(l *refLock) bool { return l.state == undelegating && !l.unlocking() })
		if l == nil {
			return nil, nil, false
		}
		id := l.id
		msg := &sftypes.MsgSuperfluidUnbondLock{Sender: n.Accts[l.owner].String(), LockId: id}
		return msg, func(res simchain.Result) {
			l := w.locks[id]
			l.unlockEnd = now.Add(l.duration)
		}, false
	case "undunbond":
		l := w.pick(st.Arg(0), st.Arg(2) == 0, func(l *refLock) bool { return l.state == delegated })
		if l == nil {
			return nil, nil, false
		}
		part := l.amount
		if bp := st.Arg(1); bp != 10000 {
			part = l.amount.MulRaw(bp).QuoRaw(10000) // 12000: more than locked, must fail naturally
			if !part.IsPositive() {
				part = osmomath.NewInt(1)
			}
		}
		id := l.id
		msg := &sftypes.MsgSuperfluidUndelegateAndUnbondLock{Sender: n.Accts[l.owner].String(), LockId: id, Coin: sdk.NewCoin(l.denom, part)}
		return msg, func(res simchain.Result) {
			l := w.locks[id]
			nid := resp(res).(*sftypes.MsgSuperfluidUndelegateAndUnbondLockResponse).LockId
			if nid == id {
				w.bump(l, 1)
				l.state, l.synthEnd, l.unlockEnd = undelegating, now.Add(w.U), now.Add(l.duration)
				return
			}
			// split: the new lock carries the unbonded part, the old one stays delegated with the rest
			w.bump(l, 2)
			l.amount = l.amount.Sub(part)
			w.locks[nid] = &refLock{id: nid, owner: l.owner, denom: l.denom, cl: l.cl, amount: part, duration: l.duration,
				state: undelegating, val: l.val, synthEnd: now.Add(w.U), unlockEnd: now.Add(l.duration)}
			w.run.Probe("partial-undelegate-splits-lock")
		}, false
	case "beginunlock":
		want := []lstate{delegated, undelegating, plain}[int(st.Arg(2))%3]
		l := w.pick(st.Arg(0), false, func(l *refLock) bool { return l.state == want && !l.unlocking() })
		if l == nil {
			return nil, nil, false
		}
		var coins sdk.Coins
		part := l.amount
		switch bp := st.Arg(1); {
		case bp == 0:
		case bp == 10000:
			coins = coinsOf(l.denom, l.amount)
		default:
			part = l.amount.MulRaw(bp).QuoRaw(10000)
			if !part.IsPositive() {
				part = osmomath.NewInt(1)
			}
			coins = coinsOf(l.denom, part)
		}
		id := l.id
		msg := &lockuptypes.MsgBeginUnlocking{Owner: n.Accts[l.owner].String(), ID: id, Coins: coins}
		if l.state == undelegating {
			w.run.Probe("begin-unlocking-on-undelegating-lock")
		}
		return msg, func(res simchain.Result) {
			l := w.locks[id]
			nid := resp(res).(*lockuptypes.MsgBeginUnlockingResponse).UnlockingLockID
			if nid == id {
				l.unlockEnd = now.Add(l.duration)
				return
			}
			l.amount = l.amount.Sub(part)
			w.locks[nid] = &refLock{id: nid, owner: l.owner, denom: l.denom, cl: l.cl, amount: part, duration: l.duration, unlockEnd: now.Add(l.duration)}
		}, l.state == delegated
	case "beginall":
		o := int(st.Arg(0)) % w.owners
		mustFail, blocked := false, false
		for _, id := range w.sortedIDs() {
			l := w.locks[id]
			if l.owner != o || l.unlocking() {
				continue
			}
			if l.state == delegated {
				mustFail = true
			}
			if l.state != plain {
				blocked = true // a lock carrying a staking or unstaking marker makes the bulk message fail
			}
		}
		if mustFail {
			w.run.Probe("begin-unlocking-all-with-delegated-lock")
		}
		msg := &lockuptypes.MsgBeginUnlockingAll{Owner: n.Accts[o].String()}
		return msg, func(res simchain.Result) {
			if blocked {
				w.run.Fail("C11", "must-fail", "beginall", "MsgBeginUnlockingAll succeeded although owner %d has a lock with a staking/unstaking marker that has not started unlocking", o)
				return
			}
			for _, id := range w.sortedIDs() {
				if l := w.locks[id]; l.owner == o && !l.unlocking() && l.state == plain {
					l.unlockEnd = now.Add(l.duration)
				}
			}
		}, mustFail
	case "clcreate":
		if w.clPool == 0 {
			return nil, nil, false
		}
		o := int(st.Arg(0)) % w.owners
		v := int(st.Arg(1)) % w.vals
		c0 := n.Balance(n.Ctx, n.Accts[o], otherDen).MulRaw(st.Arg(2)).QuoRaw(100000)
		c1 := n.Balance(n.Ctx, n.Accts[o], simchain.BondDenom).MulRaw(st.Arg(3)).QuoRaw(100000)
		if !c0.IsPositive() || !c1.IsPositive() {
			return nil, nil, false
		}
		msg := &sftypes.MsgCreateFullRangePositionAndSuperfluidDelegate{Sender: n.Accts[o].String(), PoolId: w.clPool, ValAddr: n.ValAddrs[v].String(),
			Coins: sdk.NewCoins(sdk.NewCoin(otherDen, c0), sdk.NewCoin(simchain.BondDenom, c1))}
		return msg, func(res simchain.Result) {
			r := resp(res).(*sftypes.MsgCreateFullRangePositionAndSuperfluidDelegateResponse)
			l := &refLock{id: r.LockID, owner: o, denom: w.clDenom, cl: true, posID: r.PositionID, amount: chainAmount(r.LockID), duration: w.U, state: delegated, val: v}
			w.locks[l.id] = l
			w.bump(l, 1)
		}, false
	case "cladd":
		l := w.pick(st.Arg(0), false, func(l *refLock) bool { return l.cl && l.posID != 0 && l.state == delegated })
		if l == nil || !l.cl || l.posID == 0 {
			return nil, nil, false
		}
		c0 := n.Balance(n.Ctx, n.Accts[l.owner], otherDen).MulRaw(st.Arg(1)).QuoRaw(100000)
		c1 := n.Balance(n.Ctx, n.Accts[l.owner], simchain.BondDenom).MulRaw(st.Arg(2)).QuoRaw(100000)
		if !c0.IsPositive() || !c1.IsPositive() {
			return nil, nil, false
		}
		id := l.id
		msg := &sftypes.MsgAddToConcentratedLiquiditySuperfluidPosition{PositionId: l.posID, Sender: n.Accts[l.owner].String(),
			TokenDesired0: sdk.NewCoin(otherDen, c0), TokenDesired1: sdk.NewCoin(simchain.BondDenom, c1)}
		return msg, func(res simchain.Result) {
			old := w.locks[id]
			r := resp(res).(*sftypes.MsgAddToConcentratedLiquiditySuperfluidPositionResponse)
			delete(w.locks, id)
			nl := &refLock{id: r.LockId, owner: old.owner, denom: w.clDenom, cl: true, posID: r.PositionId, amount: chainAmount(r.LockId), duration: w.U, state: delegated, val: old.val}
			w.locks[nl.id] = nl
			w.bump(nl, 2)
			w.run.Probe("added-to-delegated-full-range-position")
		}, false
	case "clwithdraw":
		l := w.pick(st.Arg(0), false, func(l *refLock) bool { return l.cl && l.posID != 0 })
		if l == nil || !l.cl || l.posID == 0 || (l.unlocking() && l.unlockEnd.Equal(now)) {
			return nil, nil, false
		}
		pos, err := n.App.ConcentratedLiquidityKeeper.GetPosition(n.Ctx, l.posID)
		if err != nil {
			return nil, nil, false
		}
		id := l.id
		msg := &cltypes.MsgWithdrawPosition{PositionId: l.posID, Sender: n.Accts[l.owner].String(), LiquidityAmount: pos.Liquidity}
		// the position may be withdrawn only once its lock has run out, which cannot be
		// before the undelegation has matured
		active := !l.unlocking() || l.unlockEnd.After(now)
		return msg, func(res simchain.Result) {
			w.locks[id].posID = 0
			w.run.Probe("full-range-position-withdrawn-after-maturity")
		}, active
	case "swap":
		pool := w.gammPool
		if st.Arg(0) == 1 && w.clPool != 0 {
			pool = w.clPool
		}
		in, out := otherDen, simchain.BondDenom
		if st.Arg(1) == 1 {
			in, out = out, in
		}
		pl, err := n.App.PoolManagerKeeper.GetPool(n.Ctx, pool)
		if err != nil {
			return nil, nil, false
		}
		amt := n.Balance(n.Ctx, pl.GetAddress(), in).MulRaw(st.Arg(2)).QuoRaw(10000)
		if bal := n.Balance(n.Ctx, n.Accts[w.trader], in); amt.GT(bal) {
			amt = bal.QuoRaw(2)
		}
		if !amt.IsPositive() {
			return nil, nil, false
		}
		msg := &poolmanagertypes.MsgSwapExactAmountIn{Sender: n.Accts[w.trader].String(), TokenIn: sdk.NewCoin(in, amt), TokenOutMinAmount: osmomath.OneInt(),
			Routes: []poolmanagertypes.SwapAmountInRoute{{PoolId: pool, TokenOutDenom: out}}}
		return msg, func(res simchain.Result) {}, false
	}
	return nil, nil, false
}

// stakeOracle compares the stake of every (denomination, validator)
// intermediary account with the risk-adjusted OSMO value of the locks that the
// reference has delegated through it.
//
// Value V = (sum of lock amounts) x multiplier x (1 - MinimumRiskFactor), an
// exact rational built from public values only (AssetMultiplier store, Params).
// Right after a refresh the integer stake must be adjacent to V (|stake-V| < 1:
// the chain holds whole base units, and no rounding direction is prescribed).
// Between refreshes the property allows one base unit per connected lock.
func (w *world) stakeOracle(ctx sdk.Context, op string, exact bool) bool {
	n, run := w.n, w.run
	if w.slashed && !exact {
		// C11 does not speak of slashing. Once a validator has been slashed its shares are no longer worth one
		// token each (every conversion of the refresh rounds), locks are cut by whole shares worth up to a
		// multiplier each, and the concentrated multiplier update can fail as a whole: between refreshes the stake
		// oracles are not evaluated for the rest of such a run. Right after a refresh the classic denominations
		// still are (below), a few units wide: the refresh is what re-establishes "stake tracks locks" after a slash.
		// Supply, markers, lock records and the refusals are checked as before.
		run.Probe("stake-oracles-off-after-slash")
		return true
	}
	oneMinusRf := new(big.Rat).Sub(big.NewRat(1, 1), decRat(n.App.SuperfluidKeeper.GetParams(ctx).MinimumRiskFactor))
	ids := w.sortedIDs()
	for _, denom := range w.denoms {
		m := decRat(n.App.SuperfluidKeeper.GetOsmoEquivalentMultiplier(ctx, denom))
		for v := 0; v < w.vals; v++ {
			valAddr := n.ValAddrs[v]
			ia := sftypes.GetSuperfluidIntermediaryAccountAddr(denom, valAddr.String())
			stake := new(big.Rat)
			if del, err := n.App.StakingKeeper.GetDelegation(ctx, ia, valAddr); err == nil {
				val, err := n.App.StakingKeeper.GetValidator(ctx, valAddr)
				if err != nil {
					run.Fail("C11", "stake-tracks-locks", "validator-missing", "validator %d vanished: %v", v, err)
					return false
				}
				stake = decRat(val.TokensFromShares(del.Shares))
			}
			sum := new(big.Int)
			cnt := 0
			for _, id := range ids {
				if l := w.locks[id]; l.state == delegated && l.denom == denom && l.val == v {
					sum.Add(sum, l.amount.BigInt())
					cnt++
				}
			}
			V := new(big.Rat).SetInt(sum)
			V.Mul(V, m).Mul(V, oneMinusRf)
			diff := new(big.Rat).Sub(stake, V)
			diff.Abs(diff)
			milli, _ := new(big.Rat).Mul(diff, big.NewRat(1000, 1)).Float64()
			class := "classic"
			if denom == w.clDenom {
				class = "concentrated"
			}
			if exact && w.slashed {
				if class != "classic" {
					continue
				}
				// share <-> token conversions at an exchange rate below one truncate on the way in and on the way out
				run.Max("max/stake-after-refresh-after-slash-milliunits", int64(milli))
				if diff.Cmp(big.NewRat(4, 1)) >= 0 {
					run.Fail("C11", "stake-after-refresh", "classic/after-slash", "height %d, right after the epoch refresh (a validator was slashed earlier in this run): intermediary account (%s, validator %d) has %s staked, the %d locks delegated through it sum to %s shares, worth %s x %s x %s = %s uosmo", n.Height, denom, v, stake.FloatString(3), cnt, sum, sum, m.FloatString(18), oneMinusRf.FloatString(18), V.FloatString(6))
					return false
				}
				run.Probe("stake-after-refresh-checked-after-slash")
				continue
			}
			if exact {
				run.Max("max/stake-after-refresh-milliunits", int64(milli))
				if diff.Cmp(big.NewRat(1, 1)) >= 0 {
					run.Fail("C11", "stake-after-refresh", class, "height %d, right after the epoch refresh: intermediary account (%s, validator %d) has %s staked, the %d locks delegated through it sum to %s shares, worth %s x %s x %s = %s uosmo", n.Height, denom, v, stake.FloatString(3), cnt, sum, sum, m.FloatString(18), oneMinusRf.FloatString(18), V.FloatString(6))
					return false
				}
				continue
			}
			if w.unsettled[denom] {
				continue
			}
			run.Max("max/stake-between-epochs-milliunits", int64(milli))
			// every lock operation since the refresh rounds once (strictly less than one unit,
			// two roundings of at most half a unit each), and so does the refresh itself
			wide := int64(1 + w.ops[iaKey(denom, v)])
			if int64(cnt) > wide {
				wide = int64(cnt)
			}
			if diff.Cmp(big.NewRat(wide, 1)) > 0 {
				run.Fail("C11", "stake-tracks-locks", class, "height %d after %s: intermediary account (%s, validator %d) has %s staked, the %d locks delegated through it sum to %s shares worth %s uosmo at multiplier %s; difference %s exceeds both one unit per lock and one unit per operation since the last refresh (%d)", n.Height, op, denom, v, stake.FloatString(3), cnt, sum, V.FloatString(6), m.FloatString(18), diff.FloatString(6), wide)
				return false
			}
			if diff.Cmp(big.NewRat(int64(cnt), 1)) > 0 {
				sig := "locks-connected"
				if cnt == 0 {
					sig = "no-lock-connected"
				}
				run.Fail("C11", "stake-within-one-unit-per-lock", sig, "height %d after %s: intermediary account (%s, validator %d) has %s staked, the %d locks delegated through it are worth %s uosmo; difference %s is more than one base unit per connected lock", n.Height, op, denom, v, stake.FloatString(3), cnt, V.FloatString(6), diff.FloatString(6))
				if run.Stop() {
					return false
				}
			}
		}
	}
	return true
}

// slash injects validator misbehaviour: the staking module slashes validator v by a fraction (as the
// evidence / downtime handlers do in their begin-blocker), which makes x/superfluid slash every lock that
// is staked or unstaking through the validator and refresh all intermediary delegations.
func (w *world) slash(i int, st simcore.Step) bool {
	run, n := w.run, w.n
	v := int(st.Arg(0)) % w.vals
	f := osmomath.MustNewDecFromStr([]string{"0.0001", "0.01", "0.05", "0.5"}[int(st.Arg(1))%4])
	valAddr := n.ValAddrs[v]
	val, err := n.App.StakingKeeper.GetValidator(n.Ctx, valAddr)
	if err != nil || !val.IsBonded() {
		run.Event("slash", "skip")
		return true
	}
	cons, err := val.GetConsAddr()
	if err != nil {
		panic(err)
	}
	// stake held through intermediary accounts (minted by x/superfluid, hidden from the reported supply)
	syn := osmomath.ZeroDec()
	for _, denom := range w.denoms {
		ia := sftypes.GetSuperfluidIntermediaryAccountAddr(denom, valAddr.String())
		if del, err := n.App.StakingKeeper.GetDelegation(n.Ctx, ia, valAddr); err == nil {
			syn = syn.Add(val.TokensFromShares(del.Shares))
		}
	}
	tokens := val.Tokens
	burned, err := n.App.StakingKeeper.Slash(n.Ctx, cons, n.Height-1, val.ConsensusPower(sdk.DefaultPowerReduction), f)
	if err != nil {
		run.Fail("C11", "chain-halt", "slash", "slashing validator %d by %s failed: %v", v, f, err)
		return false
	}
	w.slashed = true
	run.Fault("validator-slash")
	// the staking module slashes by power (whole millions of tokens): the fraction every delegator - and
	// every lock - actually loses is burned / validator tokens
	eff := osmomath.ZeroDec()
	if tokens.IsPositive() {
		eff = burned.ToLegacyDec().QuoInt(tokens)
	}
	ctx := n.Ctx
	cnt := 0
	for _, id := range w.sortedIDs() {
		l := w.locks[id]
		if l.val != v || l.state == plain {
			continue
		}
		// expected cut amount*eff, to within one unit plus the 18-digit rounding of the fraction
		want := l.amount.ToLegacyDec().Mul(eff)
		slack := osmomath.OneDec().Add(l.amount.ToLegacyDec().Mul(osmomath.NewDecWithPrec(2, 18)))
		g, err := n.App.LockupKeeper.GetLockByID(ctx, id)
		if err != nil || len(g.Coins) != 1 {
			run.Fail("C11", "slash-cut", "lock-gone", "after slashing validator %d by %s: lock %d (%s) is gone or malformed: %v", v, f, id, l.state, err)
			return false
		}
		cut := l.amount.Sub(g.Coins[0].Amount)
		if cut.ToLegacyDec().Sub(want).Abs().GT(slack) {
			// how much a lock loses when its validator is slashed is not part of C11 (which speaks of the
			// stake matching the locks, and that is restored by the refresh that follows the slash): the
			// reference follows the chain here and only counts the deviation. Seen on the unchanged tree: a
			// concentrated lock split off by a partial undelegate-and-unbond has no position mapping and is
			// not slashed at all.
			run.Probe("slash-cut-differs-from-stake-fraction/" + l.state.String())
		}
		if cut.IsNegative() {
			run.Fail("C11", "lock-record", "grew-on-slash", "slashing validator %d made lock %d grow from %s to %s", v, id, l.amount, g.Coins[0].Amount)
			return false
		}
		l.amount = l.amount.Sub(cut)
		if !l.cl {
			w.shares[l.owner] = w.shares[l.owner].Sub(cut)
		}
		cnt++
		w.bump(l, 2)
	}
	// locks not staked through this validator must be untouched: the lock-record oracle below checks them
	// the reported supply falls by what was burned of REAL stake only: the share of the burn that hit
	// superfluid-minted stake was never part of the reported supply
	realBurn := burned.ToLegacyDec()
	if tokens.IsPositive() {
		realBurn = realBurn.Mul(osmomath.OneDec().Sub(syn.QuoInt(tokens)))
	}
	expected := w.baseSupply.Sub(realBurn.RoundInt())
	tol := osmomath.NewInt(int64(3 + cnt))
	got := w.supplyWithOffset(ctx)
	if got.Sub(expected).Abs().GT(tol) {
		sig := "slash/other"
		if got.Sub(w.baseSupply.Sub(burned)).Abs().LTE(tol) {
			// the whole burn, including the part that hit superfluid-minted stake, went through to the reported supply
			sig = "slash/minted-stake-burn-reported"
		}
		run.Fail("C11", "supply-neutral", sig, "height %d: slashing validator %d burned %s of which %s was superfluid-minted stake (hidden from the reported supply by the offset); SupplyWithOffset went from %s to %s, expected %s", n.Height, v, burned, burned.ToLegacyDec().Sub(realBurn).RoundInt(), w.baseSupply, got, expected)
		if run.Stop() {
			return false
		}
	}
	w.baseSupply = got
	run.Event("slash", "ok")
	run.Logf("%d slash validator=%d fraction=%s burned=%s superfluid-stake=%s of %s locks-cut=%d", i, v, f, burned, syn.TruncateInt(), tokens, cnt)
	return w.oracle("slash")
}

// oracle compares chain state with the reference after a step.
func (w *world) oracle(op string) bool {
	run, n := w.run, w.n
	ctx := n.QueryCtx()
	now := ctx.BlockTime()
	ids := w.sortedIDs()

	// (a) lock records: every lock of the reference still exists with its owner, amount and
	// end time; a delegated lock is never unlocking
	locked := make([]osmomath.Int, w.owners)
	for o := range locked {
		locked[o] = osmomath.ZeroInt()
	}
	for _, id := range ids {
		l := w.locks[id]
		g, err := n.App.LockupKeeper.GetLockByID(ctx, id)
		if err != nil {
			run.Fail("C11", "no-early-withdraw", "lock-gone-"+l.state.String(), "after %s at %s: lock %d (%s, owner %d, %s%s, unlock end %v, unstaking marker end %v) no longer exists although it may not have been paid out yet", op, now.Sub(simchain.GenesisTime), id, l.state, l.owner, l.amount, l.denom, l.unlockEnd, l.synthEnd)
			return false
		}
		if g.Owner != n.Accts[l.owner].String() || len(g.Coins) != 1 || g.Coins[0].Denom != l.denom || !g.Coins[0].Amount.Equal(l.amount) || g.Duration != l.duration {
			run.Fail("C11", "lock-record", "amount", "after %s: lock %d is %s owner %s duration %s, reference has %s%s owner %d duration %s", op, id, g.Coins, g.Owner, g.Duration, l.amount, l.denom, l.owner, l.duration)
			return false
		}
		if !g.EndTime.Equal(l.unlockEnd) {
			sig := "end-time"
			if l.state == delegated {
				sig = "unlocking-while-delegated"
			}
			run.Fail("C11", "lock-record", sig, "after %s: lock %d (%s) has end time %v, reference %v", op, id, l.state, g.EndTime, l.unlockEnd)
			return false
		}
		if l.state == delegated && l.unlocking() {
			run.Fail("C11", "lock-record", "unlocking-while-delegated", "after %s: lock %d is superfluid-delegated and unlocking", op, id)
			return false
		}
		if l.state == undelegating && l.unlocking() && l.unlockEnd.Before(l.synthEnd) {
			run.Fail("C11", "no-early-withdraw", "unlock-before-undelegation-matures", "after %s: lock %d unlocks at %v, before its undelegation matures at %v", op, id, l.unlockEnd, l.synthEnd)
			return false
		}
		if !l.cl {
			locked[l.owner] = locked[l.owner].Add(l.amount)
		}
	}
	// (b) share conservation: what an owner holds liquid plus what the reference still has
	// locked is what the owner acquired, so nothing came back early by any path
	for o := 0; o < w.owners; o++ {
		if tot := n.Balance(ctx, n.Accts[o], w.gammDenom).Add(locked[o]); !tot.Equal(w.shares[o]) {
			run.Fail("C11", "no-early-withdraw", "share-balance", "after %s: owner %d holds %s liquid + %s locked of %s, acquired %s", op, o, n.Balance(ctx, n.Accts[o], w.gammDenom), locked[o], w.gammDenom, w.shares[o])
			return false
		}
		if w.clDenom != "" {
			if b := n.Balance(ctx, n.Accts[o], w.clDenom); !b.IsZero() {
				run.Fail("C11", "no-early-withdraw", "share-balance", "after %s: owner %d holds %s liquid %s", op, o, b, w.clDenom)
				return false
			}
		}
	}
	// (c) markers: exactly one staking marker per delegated lock, exactly one unstaking marker
	// (end = undelegate time + unbonding period) per undelegating lock, none otherwise
	synth := map[uint64][]lockuptypes.SyntheticLock{}
	total := 0
	for _, s := range n.App.LockupKeeper.GetAllSyntheticLockups(ctx) {
		synth[s.UnderlyingLockId] = append(synth[s.UnderlyingLockId], s)
		total++
	}
	expect := 0
	for _, id := range ids {
		l := w.locks[id]
		ss := synth[id]
		switch l.state {
		case plain:
			if len(ss) != 0 {
				run.Fail("C11", "markers", "plain", "after %s: lock %d is not superfluid-staked in the reference but has synthetic locks %v", op, id, ss)
				return false
			}
		case delegated:
			expect++
			want := fmt.Sprintf("%s/superbonding/%s", l.denom, n.ValAddrs[l.val])
			if len(ss) != 1 || ss[0].SynthDenom != want || !ss[0].EndTime.IsZero() {
				run.Fail("C11", "markers", "delegated", "after %s: delegated lock %d must have exactly one staking marker %s without end time, has %v", op, id, want, ss)
				return false
			}
		case undelegating:
			expect++
			want := fmt.Sprintf("%s/superunbonding/%s", l.denom, n.ValAddrs[l.val])
			if len(ss) != 1 || ss[0].SynthDenom != want || !ss[0].EndTime.Equal(l.synthEnd) || ss[0].Duration != w.U {
				run.Fail("C11", "markers", "undelegating", "after %s: undelegating lock %d must have exactly one unstaking marker %s ending %v lasting %s, has %v", op, id, want, l.synthEnd, w.U, ss)
				return false
			}
		}
	}
	if total != expect {
		run.Fail("C11", "markers", "stray", "after %s: %d synthetic locks in the store, the reference accounts for %d", op, total, expect)
		return false
	}
	// (d) connections: exactly the delegated locks are connected, each to the account of its
	// denomination and validator
	conns := n.App.SuperfluidKeeper.GetAllLockIdIntermediaryAccountConnections(ctx)
	seen := 0
	for _, c := range conns {
		l := w.locks[c.LockId]
		if l == nil || l.state != delegated {
			run.Fail("C11", "connections", "stray", "after %s: lock %d is connected to %s but is not delegated in the reference", op, c.LockId, c.IntermediaryAccount)
			return false
		}
		if want := sftypes.GetSuperfluidIntermediaryAccountAddr(l.denom, n.ValAddrs[l.val].String()).String(); c.IntermediaryAccount != want {
			run.Fail("C11", "connections", "wrong-account", "after %s: lock %d is connected to %s, reference says (%s, validator %d) = %s", op, c.LockId, c.IntermediaryAccount, l.denom, l.val, want)
			return false
		}
		seen++
	}
	if seen != func() int {
		k := 0
		for _, id := range ids {
			if w.locks[id].state == delegated {
				k++
			}
		}
		return k
	}() {
		run.Fail("C11", "connections", "missing", "after %s: %d connections stored, reference has more delegated locks", op, seen)
		return false
	}
	// (e) stake
	return w.stakeOracle(ctx, op, false)
}
