package router

import (
	"fmt"
	"sort"
	"strings"
	"time"

	sdk "github.com/cosmos/cosmos-sdk/types"
	authtypes "github.com/cosmos/cosmos-sdk/x/auth/types"

	"github.com/osmosis-labs/osmosis/osmomath"
	pmclient "github.com/osmosis-labs/osmosis/v31/x/poolmanager/client"
	pmgrpc "github.com/osmosis-labs/osmosis/v31/x/poolmanager/client/grpc"
	"github.com/osmosis-labs/osmosis/v31/x/poolmanager/client/queryproto"
	pmtypes "github.com/osmosis-labs/osmosis/v31/x/poolmanager/types"
	txfeestypes "github.com/osmosis-labs/osmosis/v31/x/txfees/types"

	"verif/harness/simchain"
	"verif/harness/simcore"
)

// spec is one swap request: a trader, a route and the fixed amount (token in
// for exact-in, token out for exact-out).
type spec struct {
	trader  int
	exactIn bool
	pools   []uint64
	denoms  []string // len(pools)+1: denoms[0] goes in, denoms[len] comes out
	amount  osmomath.Int
	simple  bool // every pool at most once
}

func (s spec) kind() string {
	if s.exactIn {
		return "exact-in"
	}
	return "exact-out"
}

func (s spec) String() string {
	var b strings.Builder
	fmt.Fprintf(&b, "%s trader=%d %s", s.kind(), s.trader, s.denoms[0])
	for i, p := range s.pools {
		fmt.Fprintf(&b, " -[%d]-> %s", p, s.denoms[i+1])
	}
	fmt.Fprintf(&b, " amount=%s", s.amount)
	return b.String()
}

func (s spec) outDenom() string { return s.denoms[len(s.denoms)-1] }

func hasDenom(p *pinfo, d string) bool {
	for _, x := range p.denoms {
		if x == d {
			return true
		}
	}
	return false
}

// walk resolves the route selectors of a step against the current pool graph.
func (w *world) walk(st simcore.Step) (pools []uint64, denoms []string, simple bool) {
	if len(w.pools) == 0 {
		return nil, nil, false
	}
	used := w.usedDenoms()
	cur := pick(used, st.Arg(rStart))
	wantSimple := st.Arg(rSimple) != 0
	hops := int(st.Arg(rHops))
	if hops < 1 {
		hops = 1
	}
	if hops > 4 {
		hops = 4
	}
	visited := map[uint64]bool{}
	denoms = []string{cur}
	for k := 0; k < hops; k++ {
		var cand []*pinfo
		if k == 0 && st.Arg(rNewest) != 0 {
			np := w.pools[len(w.pools)-1]
			cur = pick(np.denoms, st.Arg(rStart))
			denoms[0] = cur
			cand = []*pinfo{np}
		} else {
			for _, p := range w.pools {
				if hasDenom(p, cur) && !(wantSimple && visited[p.id]) {
					cand = append(cand, p)
				}
			}
		}
		if len(cand) == 0 {
			break
		}
		p := cand[int(st.Arg(rSel+2*k))%len(cand)]
		out := pick(without(p.denoms, cur), st.Arg(rSel+2*k+1))
		visited[p.id] = true
		pools = append(pools, p.id)
		denoms = append(denoms, out)
		cur = out
	}
	simple = true
	seen := map[uint64]bool{}
	for _, id := range pools {
		if seen[id] {
			simple = false
		}
		seen[id] = true
	}
	return pools, denoms, simple
}

// regimeAmount turns an amount regime into a number relative to a reserve.
func regimeAmount(reserve osmomath.Int, regime, arg int64) osmomath.Int {
	var a osmomath.Int
	switch regime {
	case 0:
		a = osmomath.NewInt(1)
	case 1:
		a = osmomath.NewInt(arg%10000 + 2)
	case 2:
		a = reserve.MulRaw(arg%3000 + 1).QuoRaw(10000)
	default:
		a = reserve.MulRaw(3000 + arg%6500).QuoRaw(10000)
	}
	if !a.IsPositive() {
		a = osmomath.NewInt(1)
	}
	return a
}

func (w *world) reserve(ctx sdk.Context, s spec) osmomath.Int {
	if s.exactIn {
		return w.n.Balance(ctx, w.pool(s.pools[0]).addr, s.denoms[0])
	}
	return w.n.Balance(ctx, w.pool(s.pools[len(s.pools)-1]).addr, s.outDenom())
}

func (w *world) routeSpec(ctx sdk.Context, st simcore.Step) (spec, bool) {
	pools, denoms, simple := w.walk(st)
	if len(pools) == 0 {
		return spec{}, false
	}
	s := spec{trader: int(st.Arg(rTrader)) % w.nacct, exactIn: st.Arg(rExactIn) != 0, pools: pools, denoms: denoms, simple: simple}
	s.amount = regimeAmount(w.reserve(ctx, s), st.Arg(rRegime), st.Arg(rAmt))
	return s, true
}

func inRoutes(pools []uint64, denoms []string) []pmtypes.SwapAmountInRoute {
	var rs []pmtypes.SwapAmountInRoute
	for i, p := range pools {
		rs = append(rs, pmtypes.SwapAmountInRoute{PoolId: p, TokenOutDenom: denoms[i+1]})
	}
	return rs
}

func outRoutes(pools []uint64, denoms []string) []pmtypes.SwapAmountOutRoute {
	var rs []pmtypes.SwapAmountOutRoute
	for i, p := range pools {
		rs = append(rs, pmtypes.SwapAmountOutRoute{PoolId: p, TokenInDenom: denoms[i]})
	}
	return rs
}

// routedMsg is the router message for s with the caller's limit (minimum
// output for exact-in, maximum input for exact-out).
func (w *world) routedMsg(s spec, limit osmomath.Int) sdk.Msg {
	sender := w.n.Accts[s.trader].String()
	if s.exactIn {
		return &pmtypes.MsgSwapExactAmountIn{Sender: sender, Routes: inRoutes(s.pools, s.denoms), TokenIn: sdk.NewCoin(s.denoms[0], s.amount), TokenOutMinAmount: limit}
	}
	return &pmtypes.MsgSwapExactAmountOut{Sender: sender, Routes: outRoutes(s.pools, s.denoms), TokenInMaxAmount: limit, TokenOut: sdk.NewCoin(s.outDenom(), s.amount)}
}

// looseLimit is a limit that does not bind: 1 for exact-in, the trader's whole
// balance of the input denomination for exact-out.
func (w *world) looseLimit(ctx sdk.Context, s spec) osmomath.Int {
	if s.exactIn {
		return osmomath.NewInt(1)
	}
	b := w.n.Balance(ctx, w.n.Accts[s.trader], s.denoms[0])
	if !b.IsPositive() {
		b = osmomath.NewInt(1)
	}
	return b
}

// amountOf extracts the amount a swap message reports.
func amountOf(res simchain.Result) osmomath.Int {
	if res.Resp == nil || len(res.Resp.MsgResponses) == 0 {
		return osmomath.ZeroInt()
	}
	switch r := res.Resp.MsgResponses[0].GetCachedValue().(type) {
	case *pmtypes.MsgSwapExactAmountInResponse:
		return r.TokenOutAmount
	case *pmtypes.MsgSwapExactAmountOutResponse:
		return r.TokenInAmount
	case *pmtypes.MsgSplitRouteSwapExactAmountInResponse:
		return r.TokenOutAmount
	case *pmtypes.MsgSplitRouteSwapExactAmountOutResponse:
		return r.TokenInAmount
	}
	return osmomath.ZeroInt()
}

func branch(ctx sdk.Context) sdk.Context {
	c, _ := ctx.CacheContext()
	return c
}

func (w *world) querier() pmgrpc.Querier {
	return pmgrpc.Querier{Q: pmclient.NewQuerier(w.n.App.PoolManagerKeeper)}
}

// balances lists every (account, denomination) balance visible from ctx.
func (w *world) balances(ctx sdk.Context) map[string]string {
	m := map[string]string{}
	w.n.App.BankKeeper.IterateAllBalances(ctx, func(a sdk.AccAddress, c sdk.Coin) bool {
		m[a.String()+" "+c.Denom] = c.Amount.String()
		return false
	})
	return m
}

// diffBalances returns the first (account, denomination) on which a and b disagree.
func (w *world) diffBalances(a, b map[string]string) (string, bool) {
	keys := map[string]bool{}
	for k := range a {
		keys[k] = true
	}
	for k := range b {
		keys[k] = true
	}
	var ks []string
	for k := range keys {
		ks = append(ks, k)
	}
	sort.Strings(ks)
	for _, k := range ks {
		if a[k] != b[k] {
			f := strings.SplitN(k, " ", 2)
			va, vb := a[k], b[k]
			if va == "" {
				va = "0"
			}
			if vb == "" {
				vb = "0"
			}
			return fmt.Sprintf("%s holds %s%s on one branch and %s%s on the other", w.label(f[0]), va, f[1], vb, f[1]), true
		}
	}
	return "", false
}

// diffStores names the KV stores on which two branches disagree.
func (w *world) diffStores(a, b sdk.Context) []string {
	var names, out []string
	for name := range w.n.App.GetKVStoreKey() {
		names = append(names, name)
	}
	sort.Strings(names)
	for _, name := range names {
		if w.n.Digest(a, name) != w.n.Digest(b, name) {
			out = append(out, name)
		}
	}
	return out
}

func okClass(res simchain.Result) string {
	if res.OK() {
		return "ok"
	}
	return "fail"
}

type sideResult struct {
	ok     bool
	amount osmomath.Int
	failAt int
	err    string
	ctx    sdk.Context
}

// hopByHop performs the hops of s one after another as single-hop router
// messages on a branch of base (see Describe for the exact-out reading).
func (w *world) hopByHop(base sdk.Context, s spec, limit osmomath.Int) sideResult {
	n := w.n
	ctx := branch(base)
	sender := n.Accts[s.trader].String()
	nh := len(s.pools)
	if s.exactIn {
		cur := s.amount
		for i := 0; i < nh; i++ {
			lim := osmomath.NewInt(1)
			if i == nh-1 {
				lim = limit
			}
			msg := &pmtypes.MsgSwapExactAmountIn{Sender: sender, Routes: inRoutes(s.pools[i:i+1], s.denoms[i:i+2]), TokenIn: sdk.NewCoin(s.denoms[i], cur), TokenOutMinAmount: lim}
			res := n.DeliverOn(ctx, msg, 0, false)
			if !res.OK() {
				return sideResult{failAt: i, err: fmt.Sprintf("%s %v %v", res.Outcome, res.Err, res.Panic), ctx: ctx}
			}
			cur = amountOf(res)
		}
		return sideResult{ok: true, amount: cur, ctx: ctx}
	}
	// exact-out: quote backwards on the state before the first hop ...
	need := make([]osmomath.Int, nh+1)
	need[nh] = s.amount
	q := w.querier()
	qctx := branch(base)
	for i := nh - 1; i >= 1; i-- {
		r, err := q.EstimateSinglePoolSwapExactAmountOut(qctx, &queryproto.EstimateSinglePoolSwapExactAmountOutRequest{PoolId: s.pools[i], TokenInDenom: s.denoms[i], TokenOut: sdk.NewCoin(s.denoms[i+1], need[i+1]).String()})
		if err != nil {
			return sideResult{failAt: i, err: "quote: " + err.Error(), ctx: ctx}
		}
		need[i] = r.TokenInAmount
		if !need[i].IsPositive() {
			return sideResult{failAt: i, err: "quote is not positive", ctx: ctx}
		}
	}
	// ... then buy forwards
	total := osmomath.ZeroInt()
	for i := 0; i < nh; i++ {
		max := limit
		if i > 0 {
			// only the first hop carries the caller's limit; later hops spend what the earlier
			// hops bought (a per-hop limit taken from quotes on the initial state is meaningless
			// when a pool is revisited, and the routed message enforces none on the fee-inclusive amount)
			max = need[i]
			if !s.simple {
				max = n.Balance(ctx, n.Accts[s.trader], s.denoms[i])
			}
		}
		msg := &pmtypes.MsgSwapExactAmountOut{Sender: sender, Routes: outRoutes(s.pools[i:i+1], s.denoms[i:i+2]), TokenInMaxAmount: max, TokenOut: sdk.NewCoin(s.denoms[i+1], need[i+1])}
		res := n.DeliverOn(ctx, msg, 0, false)
		if !res.OK() {
			return sideResult{failAt: i, err: fmt.Sprintf("%s %v %v", res.Outcome, res.Err, res.Panic), ctx: ctx}
		}
		if i == 0 {
			total = amountOf(res)
		}
	}
	return sideResult{ok: true, amount: total, ctx: ctx}
}

// reverseHops performs an exact-out route last hop first: every hop buys what
// the following hop was actually charged.
func (w *world) reverseHops(base sdk.Context, s spec) sideResult {
	n := w.n
	ctx := branch(base)
	sender := n.Accts[s.trader].String()
	out := sdk.NewCoin(s.outDenom(), s.amount)
	for i := len(s.pools) - 1; i >= 0; i-- {
		max := n.Balance(ctx, n.Accts[s.trader], s.denoms[i])
		if !max.IsPositive() {
			return sideResult{failAt: i, err: "no funds", ctx: ctx}
		}
		msg := &pmtypes.MsgSwapExactAmountOut{Sender: sender, Routes: outRoutes(s.pools[i:i+1], s.denoms[i:i+2]), TokenInMaxAmount: max, TokenOut: out}
		res := n.DeliverOn(ctx, msg, 0, false)
		if !res.OK() {
			return sideResult{failAt: i, err: fmt.Sprintf("%s %v", res.Outcome, res.Err), ctx: ctx}
		}
		out = sdk.NewCoin(s.denoms[i], amountOf(res))
	}
	return sideResult{ok: true, amount: out.Amount, ctx: ctx}
}

// snapshot is what a branch looks like from outside: every balance and a
// digest per KV store.
type snapshot struct {
	bal    map[string]string
	stores map[string]string
}

func (w *world) snap(ctx sdk.Context) snapshot {
	s := snapshot{bal: w.balances(ctx), stores: map[string]string{}}
	for name := range w.n.App.GetKVStoreKey() {
		s.stores[name] = w.n.Digest(ctx, name)
	}
	return s
}

// sameSnap compares two successful branches by reported amount and snapshot.
func (w *world) sameSnap(oracle, sig, what string, amtA, amtB osmomath.Int, a, b snapshot) {
	if !amtA.Equal(amtB) {
		w.fail(oracle, sig, "%s: the message reports %s, the comparison side %s", what, amtA, amtB)
		return
	}
	if d, differs := w.diffBalances(a.bal, b.bal); differs {
		w.fail(oracle+"-balances", sig, "%s: same reported amount %s but %s", what, amtA, d)
		return
	}
	var names, bad []string
	for name := range a.stores {
		names = append(names, name)
	}
	sort.Strings(names)
	for _, name := range names {
		if a.stores[name] != b.stores[name] {
			bad = append(bad, name)
		}
	}
	if len(bad) > 0 {
		w.fail(oracle+"-state", sig, "%s: same amount and balances but the stores %v differ between the two branches", what, bad)
	}
}

// sameEffects compares two successful branches: reported amount, every balance
// and the digest of every store.
func (w *world) sameEffects(oracle, sig, what string, amtA, amtB osmomath.Int, a, b sdk.Context) {
	if !amtA.Equal(amtB) {
		w.fail(oracle, sig, "%s: the message reports %s, the comparison side %s", what, amtA, amtB)
		return
	}
	if d, differs := w.diffBalances(w.balances(a), w.balances(b)); differs {
		w.fail(oracle+"-balances", sig, "%s: same reported amount %s but %s", what, amtA, d)
		return
	}
	if w.n.Digest(a) != w.n.Digest(b) {
		w.fail(oracle+"-state", sig, "%s: same amount and balances but the stores %v differ between the two branches", what, w.diffStores(a, b))
	}
}

// takerFeeOnFirstHop tells whether the sender pays a positive taker fee on the
// first hop (classifies limit findings).
func (w *world) takerFeeOnFirstHop(ctx sdk.Context, s spec) bool {
	if w.whitelisted(ctx, s.trader) {
		return false
	}
	f, err := w.n.App.PoolManagerKeeper.GetTradingPairTakerFee(ctx, s.denoms[0], s.denoms[1])
	return err == nil && f.IsPositive()
}

// probe runs the C05 oracles for one swap request on branches of base.
func (w *world) probe(i int, base sdk.Context, s spec, f string) {
	run, n := w.run, w.n
	kind := s.kind()
	loose := w.looseLimit(base, s)
	baseDigest := n.Digest(base)
	trader := n.Accts[s.trader]

	// (1) composition
	ctxA := branch(base)
	resA := n.DeliverOn(ctxA, w.routedMsg(s, loose), 0, false)
	run.Event("probe-"+kind, resA.Outcome)
	B := w.hopByHop(base, s, loose)
	run.Logf("%d probe %s simple=%v -> routed %s amt=%s gas=%d err=%v | hops ok=%v amt=%s failAt=%d %s", i, s, s.simple, resA.Outcome, amountOf(resA), resA.GasUsed, resA.Err, B.ok, B.amount, B.failAt, B.err)
	if resA.Outcome == "panic" {
		run.Probe("routed-message-panicked")
	}
	if resA.OK() != B.ok && !s.exactIn && !s.simple {
		// A route that revisits a pool: the routed message limits every hop by quotes taken on the
		// initial state, the one-after-another execution cannot carry such limits meaningfully, so
		// one side may refuse where the other does not. "Produces exactly the result" is compared
		// only when both sides produce one.
		run.Probe("revisited-pool-exact-out-outcomes-differ")
		return
	}
	if resA.OK() != B.ok {
		if resA.OK() {
			w.fail("compose-outcome", kind, "%s: the routed message succeeds (amount %s) but performing the hops one after another fails at hop %d: %s", s, amountOf(resA), B.failAt, B.err)
		} else {
			w.fail("compose-outcome", kind, "%s: the routed message fails (%v %v) but performing the hops one after another succeeds with amount %s", s, resA.Err, resA.Panic, B.amount)
		}
		return
	}
	if !resA.OK() {
		if n.Digest(ctxA) != baseDigest {
			w.fail("failed-swap-left-traces", kind, "%s: the routed message failed but the state digest changed", s)
		}
		run.Probe("probe-both-sides-fail")
		return
	}
	X := amountOf(resA)
	if !s.simple {
		run.Probe("route-revisits-a-pool")
	}
	if len(s.pools) >= 3 {
		run.Probe("route-3-or-4-hops")
	}
	w.sameEffects("compose", kind, s.String(), X, B.amount, ctxA, B.ctx)
	if w.stop() {
		return
	}
	wl := w.whitelisted(base, s.trader)
	if wl {
		run.Probe("trader-on-reduced-fee-whitelist")
	}
	// (2) the per-hop taker fee is the configured one: every hop's pair reads back the settings, and the
	// first hop of an exact-in route (whose input is known) pays in - floor(in*(1-fee)) to the collector
	for h := range s.pools {
		got, err := n.App.PoolManagerKeeper.GetTradingPairTakerFee(base, s.denoms[h], s.denoms[h+1])
		if want := w.configuredFee(s.denoms[h], s.denoms[h+1]); err != nil || !got.Equal(want) {
			w.fail("taker-fee-setting", "probe", "%s: hop %s>%s is charged taker fee %s (err %v), the settings prescribe %s", s, s.denoms[h], s.denoms[h+1], got, err, want)
			return
		}
	}
	if s.exactIn && !wl {
		first := true
		for h := 1; h < len(s.pools); h++ {
			if s.denoms[h] == s.denoms[0] {
				first = false
			}
		}
		if first {
			col := authtypes.NewModuleAddress(txfeestypes.TakerFeeCollectorName)
			got := n.Balance(ctxA, col, s.denoms[0]).Sub(n.Balance(base, col, s.denoms[0]))
			fee := w.configuredFee(s.denoms[0], s.denoms[1])
			want := s.amount.Sub(s.amount.ToLegacyDec().Mul(osmomath.OneDec().Sub(fee)).TruncateInt())
			if !got.Equal(want) {
				w.fail("taker-fee-collected", kind, "%s: the collector received %s%s on the first hop, the configured fee %s prescribes %s", s, got, s.denoms[0], fee, want)
				return
			}
			run.Count("first-hop-fee-checks")
		}
	}
	if !s.exactIn && s.simple && !wl && len(s.pools) >= 2 {
		if R := w.reverseHops(base, s); R.ok {
			run.Probe("exact-out-reverse-order")
			// amounts and balances only: the per-pool volume statistics are valued at
			// spot prices that depend on the order in which the pools are touched
			if !X.Equal(R.amount) {
				w.fail("compose-reverse", kind, "%s: the routed message charges %s, the hops executed last first charge %s", s, X, R.amount)
			} else if d, differs := w.diffBalances(w.balances(ctxA), w.balances(R.ctx)); differs {
				w.fail("compose-reverse-balances", kind, "%s (hops executed last first): same amount %s but %s", s, X, d)
			}
			if w.stop() {
				return
			}
		} else {
			run.Probe("exact-out-reverse-order-not-executable")
		}
	}

	// (3) estimate == execution
	if s.simple && !wl {
		w.estimates(base, baseDigest, s, X)
		if w.stop() {
			return
		}
	}

	// (4) limits
	balBefore := func(d string) osmomath.Int { return n.Balance(base, trader, d) }
	ctxD := branch(base)
	resD := n.DeliverOn(ctxD, w.routedMsg(s, X), 0, false)
	if !resD.OK() || !amountOf(resD).Equal(X) {
		w.fail("limit-exact", kind, "%s: executed amount is %s, but with the limit set to exactly %s the message gives %s amount=%s err=%v", s, X, X, resD.Outcome, amountOf(resD), resD.Err)
		return
	}
	distinct := map[string]bool{}
	for _, d := range s.denoms {
		distinct[d] = true
	}
	if len(distinct) == len(s.denoms) {
		if s.exactIn {
			if got := n.Balance(ctxD, trader, s.outDenom()).Sub(balBefore(s.outDenom())); got.LT(X) {
				w.fail("limit-min-out", kind, "%s: succeeded with minimum output %s but the trader's %s balance grew by only %s", s, X, s.outDenom(), got)
				return
			}
		} else {
			if paid := balBefore(s.denoms[0]).Sub(n.Balance(ctxD, trader, s.denoms[0])); paid.GT(X) {
				w.fail("limit-max-in", kind, "%s: succeeded with maximum input %s but the trader's %s balance fell by %s", s, X, s.denoms[0], paid)
				return
			}
		}
	}
	tight := X.AddRaw(1)
	if !s.exactIn {
		tight = X.SubRaw(1)
	}
	if tight.IsPositive() {
		ctxE := branch(base)
		resE := n.DeliverOn(ctxE, w.routedMsg(s, tight), 0, false)
		if resE.OK() {
			if s.exactIn {
				w.fail("limit-min-out", kind, "%s: delivers %s, yet the same message with minimum output %s succeeds (reports %s)", s, X, tight, amountOf(resE))
			} else {
				sig := kind
				if w.takerFeeOnFirstHop(base, s) {
					sig = kind + "-taker-fee"
				}
				paid := balBefore(s.denoms[0]).Sub(n.Balance(ctxE, trader, s.denoms[0]))
				w.fail("limit-max-in", sig, "%s: charges %s, yet the same message with maximum input %s succeeds, reports %s and the trader's %s balance falls by %s", s, X, tight, amountOf(resE), s.denoms[0], paid)
			}
			if w.stop() {
				return
			}
		} else {
			run.Probe("limit-" + kind + "-rejected")
			if n.Digest(ctxE) != baseDigest {
				w.fail("failed-swap-left-traces", kind, "%s: the message with limit %s failed but the state digest changed", s, tight)
				return
			}
		}
	}

	// out-of-gas inside the routed message: fails as a whole, and a second
	// attempt on the same branch gives the original result
	if fk, fa := simcore.ParseFault(f); fk == "oog" && resA.GasUsed > 0 {
		limit := resA.GasUsed * uint64(fa%1000) / 1000
		if limit == 0 {
			limit = 1
		}
		ctxF := branch(base)
		resF := n.DeliverOn(ctxF, w.routedMsg(s, loose), limit, false)
		run.Logf("%d   oog gas=%d/%d -> %s", i, limit, resA.GasUsed, resF.Outcome)
		if !resF.OK() {
			run.Fault("oog")
			if n.Digest(ctxF) != baseDigest {
				w.fail("failed-swap-left-traces", "oog", "%s: the routed message ran out of gas (limit %d of %d) but the state digest changed", s, limit, resA.GasUsed)
				return
			}
			again := n.DeliverOn(ctxF, w.routedMsg(s, loose), 0, false)
			if !again.OK() {
				w.fail("retry-after-oog", kind, "%s: succeeded before, ran out of gas at %d of %d, and now fails on the unchanged state: %v", s, limit, resA.GasUsed, again.Err)
				return
			}
			w.sameEffects("retry-after-oog", kind, s.String()+" (after an out-of-gas attempt)", X, amountOf(again), ctxA, ctxF)
		}
	}
}

// estimates compares every estimate query for s with the executed amount and
// checks that the queries left the branch untouched.
func (w *world) estimates(base sdk.Context, baseDigest string, s spec, X osmomath.Int) {
	run, n := w.run, w.n
	q := w.querier()
	ctxC := branch(base)
	kind := s.kind()
	check := func(name string, got osmomath.Int, err error, sig string) {
		if err != nil {
			w.fail("estimate-"+name, sig, "%s: executed amount %s but the query %s fails: %v", s, X, name, err)
			return
		}
		if !got.Equal(X) {
			w.fail("estimate-"+name, sig, "%s: executed amount %s but the query %s answers %s", s, X, name, got)
		}
	}
	if s.exactIn {
		tokenIn := sdk.NewCoin(s.denoms[0], s.amount).String()
		routes := inRoutes(s.pools, s.denoms)
		r, err := q.EstimateSwapExactAmountIn(ctxC, &queryproto.EstimateSwapExactAmountInRequest{TokenIn: tokenIn, Routes: routes})
		var got osmomath.Int
		if err == nil {
			got = r.TokenOutAmount
		}
		check("EstimateSwapExactAmountIn", got, err, kind)
		if w.stop() {
			return
		}
		var ids []uint64
		var outs []string
		for _, rt := range routes {
			ids = append(ids, rt.PoolId)
			outs = append(outs, rt.TokenOutDenom)
		}
		r, err = q.EstimateSwapExactAmountInWithPrimitiveTypes(ctxC, &queryproto.EstimateSwapExactAmountInWithPrimitiveTypesRequest{TokenIn: tokenIn, RoutesPoolId: ids, RoutesTokenOutDenom: outs})
		if err == nil {
			got = r.TokenOutAmount
		}
		check("EstimateSwapExactAmountInWithPrimitiveTypes", got, err, kind)
		if w.stop() {
			return
		}
		if len(s.pools) == 1 {
			r, err = q.EstimateSinglePoolSwapExactAmountIn(ctxC, &queryproto.EstimateSinglePoolSwapExactAmountInRequest{PoolId: s.pools[0], TokenIn: tokenIn, TokenOutDenom: s.denoms[1]})
			if err == nil {
				got = r.TokenOutAmount
			}
			check("EstimateSinglePoolSwapExactAmountIn", got, err, kind)
		}
	} else {
		tokenOut := sdk.NewCoin(s.outDenom(), s.amount).String()
		routes := outRoutes(s.pools, s.denoms)
		r, err := q.EstimateSwapExactAmountOut(ctxC, &queryproto.EstimateSwapExactAmountOutRequest{TokenOut: tokenOut, Routes: routes})
		var got osmomath.Int
		if err == nil {
			got = r.TokenInAmount
		}
		check("EstimateSwapExactAmountOut", got, err, kind)
		if w.stop() {
			return
		}
		var ids []uint64
		var ins []string
		for _, rt := range routes {
			ids = append(ids, rt.PoolId)
			ins = append(ins, rt.TokenInDenom)
		}
		r, err = q.EstimateSwapExactAmountOutWithPrimitiveTypes(ctxC, &queryproto.EstimateSwapExactAmountOutWithPrimitiveTypesRequest{TokenOut: tokenOut, RoutesPoolId: ids, RoutesTokenInDenom: ins})
		if err == nil {
			got = r.TokenInAmount
		}
		check("EstimateSwapExactAmountOutWithPrimitiveTypes", got, err, kind)
		if w.stop() {
			return
		}
		if len(s.pools) == 1 {
			r, err = q.EstimateSinglePoolSwapExactAmountOut(ctxC, &queryproto.EstimateSinglePoolSwapExactAmountOutRequest{PoolId: s.pools[0], TokenInDenom: s.denoms[0], TokenOut: tokenOut})
			if err == nil {
				got = r.TokenInAmount
			}
			check("EstimateSinglePoolSwapExactAmountOut", got, err, kind)
		}
	}
	if w.stop() {
		return
	}
	run.Probe("estimate-compared-" + kind)
	if n.Digest(ctxC) != baseDigest {
		w.fail("estimate-changed-state", kind, "%s: the estimate queries changed the stores %v", s, w.diffStores(ctxC, base))
	}
}

func (w *world) opProbe(i int, st simcore.Step) {
	s, ok := w.routeSpec(w.n.Ctx, st)
	if !ok {
		w.run.Event("probe", "skip")
		return
	}
	w.probe(i, w.n.Ctx, s, st.F)
}

// ---- split routes ----

type leg struct {
	pools  []uint64
	denoms []string
	amount osmomath.Int
}

// enumRoutes lists, in a fixed order, the routes of at most maxHops hops from
// a denomination that visit each pool once.
func (w *world) enumRoutes(from string, maxHops int) []leg {
	var out []leg
	var rec func(cur string, pools []uint64, denoms []string)
	rec = func(cur string, pools []uint64, denoms []string) {
		if len(pools) > 0 {
			out = append(out, leg{pools: append([]uint64(nil), pools...), denoms: append([]string(nil), denoms...)})
		}
		if len(pools) == maxHops {
			return
		}
		for _, p := range w.pools {
			if !hasDenom(p, cur) {
				continue
			}
			seen := false
			for _, id := range pools {
				if id == p.id {
					seen = true
				}
			}
			if seen {
				continue
			}
			for _, d := range without(p.denoms, cur) {
				rec(d, append(pools, p.id), append(denoms, d))
			}
		}
	}
	rec(from, nil, []string{from})
	return out
}

func (w *world) opSplit(i int, st simcore.Step) {
	run, n := w.run, w.n
	if len(w.pools) == 0 {
		run.Event("split", "skip")
		return
	}
	base := n.Ctx
	used := w.usedDenoms()
	from := pick(used, st.Arg(sStart))
	all := w.enumRoutes(from, 3)
	byEnd := map[string][]leg{}
	for _, l := range all {
		end := l.denoms[len(l.denoms)-1]
		if end != from {
			byEnd[end] = append(byEnd[end], l)
		}
	}
	var ends []string
	for _, d := range w.denoms {
		if len(byEnd[d]) >= 2 {
			ends = append(ends, d)
		}
	}
	if len(ends) == 0 {
		run.Event("split", "skip")
		return
	}
	to := pick(ends, st.Arg(sEnd))
	cand := byEnd[to]
	nl := int(st.Arg(sLegs))
	if nl < 2 {
		nl = 2
	}
	if nl > 3 {
		nl = 3
	}
	if nl > len(cand) {
		nl = len(cand)
	}
	exactIn := st.Arg(sExactIn) != 0
	trader := int(st.Arg(sTrader)) % w.nacct
	var legs []leg
	taken := map[int]bool{}
	for k := 0; k < nl; k++ {
		ix := int(st.Arg(sL0+k)) % len(cand)
		for taken[ix] {
			ix = (ix + 1) % len(cand)
		}
		taken[ix] = true
		l := cand[ix]
		sp := spec{trader: trader, exactIn: exactIn, pools: l.pools, denoms: l.denoms}
		l.amount = regimeAmount(w.reserve(base, sp), st.Arg(sRegime), st.Arg(sA0+k))
		legs = append(legs, l)
	}
	kind := "split-exact-out"
	if exactIn {
		kind = "split-exact-in"
	}
	sender := n.Accts[trader].String()
	splitMsg := func(limit osmomath.Int) sdk.Msg {
		if exactIn {
			m := &pmtypes.MsgSplitRouteSwapExactAmountIn{Sender: sender, TokenInDenom: from, TokenOutMinAmount: limit}
			for _, l := range legs {
				m.Routes = append(m.Routes, pmtypes.SwapAmountInSplitRoute{Pools: inRoutes(l.pools, l.denoms), TokenInAmount: l.amount})
			}
			return m
		}
		m := &pmtypes.MsgSplitRouteSwapExactAmountOut{Sender: sender, TokenOutDenom: to, TokenInMaxAmount: limit}
		for _, l := range legs {
			m.Routes = append(m.Routes, pmtypes.SwapAmountOutSplitRoute{Pools: outRoutes(l.pools, l.denoms), TokenOutAmount: l.amount})
		}
		return m
	}
	var desc strings.Builder
	fmt.Fprintf(&desc, "%s trader=%d", kind, trader)
	for _, l := range legs {
		fmt.Fprintf(&desc, " | %s", spec{trader: trader, exactIn: exactIn, pools: l.pools, denoms: l.denoms, amount: l.amount}.String())
	}
	loose := w.looseLimit(base, spec{trader: trader, exactIn: exactIn, denoms: []string{from, to}})
	baseDigest := n.Digest(base)

	ctxA := branch(base)
	resA := n.DeliverOn(ctxA, splitMsg(loose), 0, false)
	run.Event(kind, resA.Outcome)
	// the legs in order, as separate routed messages
	ctxB := branch(base)
	sum := osmomath.ZeroInt()
	okB, failAt, errB := true, -1, ""
	for k, l := range legs {
		sp := spec{trader: trader, exactIn: exactIn, pools: l.pools, denoms: l.denoms, amount: l.amount}
		r := n.DeliverOn(ctxB, w.routedMsg(sp, w.looseLimit(ctxB, sp)), 0, false)
		if !r.OK() {
			okB, failAt, errB = false, k, fmt.Sprintf("%s %v %v", r.Outcome, r.Err, r.Panic)
			break
		}
		sum = sum.Add(amountOf(r))
	}
	run.Logf("%d split %s -> %s amt=%s gas=%d err=%v | legs ok=%v sum=%s failAt=%d %s", i, desc.String(), resA.Outcome, amountOf(resA), resA.GasUsed, resA.Err, okB, sum, failAt, errB)
	if resA.OK() != okB {
		if resA.OK() {
			w.fail("split-outcome", kind, "%s: the split message succeeds (amount %s) but executing its legs in order fails at leg %d: %s", desc.String(), amountOf(resA), failAt, errB)
		} else {
			w.fail("split-outcome", kind, "%s: the split message fails (%v %v) but executing its legs in order succeeds with total %s", desc.String(), resA.Err, resA.Panic, sum)
		}
		return
	}
	if !resA.OK() {
		if n.Digest(ctxA) != baseDigest {
			w.fail("failed-swap-left-traces", kind, "%s: the split message failed but the state digest changed", desc.String())
		}
		run.Probe("split-both-sides-fail")
		return
	}
	X := amountOf(resA)
	run.Probe(fmt.Sprintf("split-%d-legs", len(legs)))
	w.sameEffects("split", kind, desc.String(), X, sum, ctxA, ctxB)
	if w.stop() {
		return
	}
	// limits on the total
	resD := n.DeliverOn(branch(base), splitMsg(X), 0, false)
	if !resD.OK() || !amountOf(resD).Equal(X) {
		w.fail("limit-exact", kind, "%s: executed total is %s, but with the limit set to exactly %s the message gives %s amount=%s err=%v", desc.String(), X, X, resD.Outcome, amountOf(resD), resD.Err)
		return
	}
	tight := X.AddRaw(1)
	if !exactIn {
		tight = X.SubRaw(1)
	}
	if tight.IsPositive() {
		ctxE := branch(base)
		resE := n.DeliverOn(ctxE, splitMsg(tight), 0, false)
		if resE.OK() {
			if exactIn {
				w.fail("limit-min-out", kind, "%s: delivers %s in total, yet the same message with minimum output %s succeeds", desc.String(), X, tight)
			} else {
				w.fail("limit-max-in", kind, "%s: charges %s in total, yet the same message with maximum input %s succeeds", desc.String(), X, tight)
			}
			if w.stop() {
				return
			}
		} else {
			run.Probe("limit-" + kind + "-rejected")
			if n.Digest(ctxE) != baseDigest {
				w.fail("failed-swap-left-traces", kind, "%s: the split message with limit %s failed but the state digest changed", desc.String(), tight)
				return
			}
		}
	}
	if fk, fa := simcore.ParseFault(st.F); fk == "oog" && resA.GasUsed > 0 {
		limit := resA.GasUsed * uint64(fa%1000) / 1000
		if limit == 0 {
			limit = 1
		}
		ctxF := branch(base)
		resF := n.DeliverOn(ctxF, splitMsg(loose), limit, false)
		if !resF.OK() {
			run.Fault("oog")
			if n.Digest(ctxF) != baseDigest {
				w.fail("failed-swap-left-traces", "oog", "%s: the split message ran out of gas (limit %d of %d) but the state digest changed", desc.String(), limit, resA.GasUsed)
				return
			}
			again := n.DeliverOn(ctxF, splitMsg(loose), 0, false)
			if !again.OK() {
				w.fail("retry-after-oog", kind, "%s: succeeded before, ran out of gas, and now fails on the unchanged state: %v", desc.String(), again.Err)
				return
			}
			w.sameEffects("retry-after-oog", kind, desc.String()+" (after an out-of-gas attempt)", X, amountOf(again), ctxA, ctxF)
		}
	}
}

// ---- restart: the same request on the same committed state, warm and cold ----

func (w *world) opRestart(i int, st simcore.Step) bool {
	run, n := w.run, w.n
	if !w.end() {
		return false
	}
	type obs struct {
		res  simchain.Result
		snap snapshot
		est  string
		spec spec
	}
	observe := func() (obs, bool) {
		qctx := n.QueryCtx()
		s, ok := w.routeSpec(qctx, st)
		if !ok {
			return obs{}, false
		}
		o := obs{spec: s}
		ctx := branch(qctx)
		// the estimate first: on a cold node it is the first to touch the pool-id -> module cache
		q := w.querier()
		if s.exactIn {
			r, err := q.EstimateSwapExactAmountIn(branch(qctx), &queryproto.EstimateSwapExactAmountInRequest{TokenIn: sdk.NewCoin(s.denoms[0], s.amount).String(), Routes: inRoutes(s.pools, s.denoms)})
			if err != nil {
				o.est = "error"
			} else {
				o.est = r.TokenOutAmount.String()
			}
		} else {
			r, err := q.EstimateSwapExactAmountOut(branch(qctx), &queryproto.EstimateSwapExactAmountOutRequest{TokenOut: sdk.NewCoin(s.outDenom(), s.amount).String(), Routes: outRoutes(s.pools, s.denoms)})
			if err != nil {
				o.est = "error"
			} else {
				o.est = r.TokenInAmount.String()
			}
		}
		o.res = n.DeliverOn(ctx, w.routedMsg(s, w.looseLimit(qctx, s)), 0, false)
		o.snap = w.snap(ctx) // taken now: the context dies with the application object
		return o, true
	}
	warm, ok := observe()
	n.Restart()
	run.Fault("restart")
	if ok {
		cold, _ := observe()
		s := warm.spec
		kind := s.kind()
		run.Event("restart-probe-"+kind, warm.res.Outcome)
		run.Logf("%d restart %s -> warm %s amt=%s est=%s err=%v | cold %s amt=%s est=%s err=%v", i, s, warm.res.Outcome, amountOf(warm.res), warm.est, warm.res.Err, cold.res.Outcome, amountOf(cold.res), cold.est, cold.res.Err)
		switch {
		case s.String() != cold.spec.String():
			w.fail("restart-twin", "request", "the same step resolves to %s before and to %s after a restart on the same committed state", s, cold.spec)
		case warm.res.OK() != cold.res.OK():
			w.fail("restart-twin", kind, "%s on the same committed state: before the restart %s (%v), after the restart %s (%v)", s, warm.res.Outcome, warm.res.Err, cold.res.Outcome, cold.res.Err)
		case warm.est != cold.est:
			w.fail("restart-twin-estimate", kind, "%s on the same committed state: the estimate query answers %s before and %s after the restart", s, warm.est, cold.est)
		case warm.res.OK():
			w.sameSnap("restart-twin", kind, s.String()+" (before vs after a node restart)", amountOf(warm.res), amountOf(cold.res), warm.snap, cold.snap)
			run.Probe("restart-twin-compared")
		}
		if w.stop() {
			return false
		}
	} else {
		run.Event("restart", "ok")
	}
	return w.begin(time.Duration(1+st.Arg(rAmt)%20) * time.Second)
}

// ---- ghost: a rolled-back creation, then a creation of another type under the same id ----

func (w *world) opGhost(i int, st simcore.Step) {
	run, n := w.run, w.n
	if len(w.pools) >= 8 {
		run.Event("ghost", "skip")
		return
	}
	typX := int(st.Arg(mType)) % 3
	typY := (typX + 1 + int(st.Arg(mYoff)+1)%2) % 3
	id := n.App.PoolManagerKeeper.GetNextPoolId(n.Ctx)
	msgX, dsX := w.poolMsg(typX, st)
	resX := n.Deliver(msgX, 0, true)
	run.Event("ghost-create", resX.Outcome)
	run.Logf("%d ghost type=%d denoms=%v id=%d -> %s err=%v", i, typX, dsX, id, resX.Outcome, resX.Err)
	if resX.Outcome != "abort" {
		return
	}
	run.Fault("abort-create")
	trader := int(st.Arg(mD2)) % w.nacct
	baseDigest := n.Digest(n.Ctx)
	// routes that mention the id must fail as a whole
	var specs []spec
	for _, exactIn := range []bool{true, false} {
		specs = append(specs, spec{trader: trader, exactIn: exactIn, pools: []uint64{id}, denoms: []string{dsX[0], dsX[1]}, amount: osmomath.NewInt(1000), simple: true})
		// a real first hop into the ghost
		for _, p := range w.pools {
			if hasDenom(p, dsX[0]) {
				in := without(p.denoms, dsX[0])[0]
				specs = append(specs, spec{trader: trader, exactIn: exactIn, pools: []uint64{p.id, id}, denoms: []string{in, dsX[0], dsX[1]}, amount: osmomath.NewInt(1000), simple: true})
				break
			}
		}
	}
	q := w.querier()
	for _, s := range specs {
		ctxG := branch(n.Ctx)
		res := n.DeliverOn(ctxG, w.routedMsg(s, w.looseLimit(n.Ctx, s)), 0, false)
		run.Logf("%d   ghost route %s -> %s %v", i, s, res.Outcome, res.Err)
		if res.OK() {
			w.fail("ghost-pool", s.kind(), "the creation of pool %d was rolled back, yet %s succeeds with amount %s", id, s, amountOf(res))
			return
		}
		if res.Outcome == "panic" {
			run.Probe("ghost-route-panicked")
		}
		if n.Digest(ctxG) != baseDigest {
			w.fail("failed-swap-left-traces", "ghost", "%s through the rolled-back pool id failed but the state digest changed", s)
			return
		}
		if s.exactIn {
			if r, err := q.EstimateSwapExactAmountIn(branch(n.Ctx), &queryproto.EstimateSwapExactAmountInRequest{TokenIn: sdk.NewCoin(s.denoms[0], s.amount).String(), Routes: inRoutes(s.pools, s.denoms)}); err == nil {
				w.fail("ghost-pool", "estimate", "the creation of pool %d was rolled back, yet the estimate for %s answers %s", id, s, r.TokenOutAmount)
				return
			}
		}
		run.Probe("route-through-rolled-back-pool-id-fails")
	}
	// now a pool of another type really takes the id
	msgY, dsY := w.poolMsg(typY, st)
	resY := n.Deliver(msgY, 0, false)
	run.Event("mkpool", resY.Outcome)
	run.Logf("%d   re-create type=%d denoms=%v -> %s id=%d err=%v", i, typY, dsY, resY.Outcome, createdPoolID(resY), resY.Err)
	if !resY.OK() {
		// The rolled-back creation changed no state, so the failure must not depend
		// on what the node remembers: the same message on the same committed state
		// must fail on a restarted node too.
		if !w.end() {
			return
		}
		warm := n.DeliverOn(branch(n.QueryCtx()), msgY, 0, false)
		n.Restart()
		run.Fault("restart")
		cold := n.DeliverOn(branch(n.QueryCtx()), msgY, 0, false)
		run.Logf("%d   re-create twin: warm %s (%v) cold %s (%v)", i, warm.Outcome, warm.Err, cold.Outcome, cold.Err)
		if warm.OK() != cold.OK() {
			w.fail("ghost-pool", "recreate", "after a rolled-back creation of a type-%d pool under id %d, creating a type-%d pool gives %s (%v %v) on the running node but %s (%v) on a restarted node over the same committed state", typX, id, typY, warm.Outcome, warm.Err, warm.Panic, cold.Outcome, cold.Err)
		}
		w.begin(time.Second)
		return
	}
	if createdPoolID(resY) != id {
		run.Probe("re-created-pool-got-another-id")
	}
	p := w.register(i, typY, createdPoolID(resY), dsY, st)
	if p == nil || w.stop() {
		return
	}
	run.Probe("pool-id-reused-by-other-type")
	// swaps through the id must reach the real pool
	for _, exactIn := range []bool{true, false} {
		s := spec{trader: trader, exactIn: exactIn, pools: []uint64{p.id}, denoms: []string{p.denoms[0], p.denoms[1]}, simple: true}
		s.amount = regimeAmount(w.reserve(n.Ctx, s), 2, 9) // 0.1% of the reserve
		w.probe(i, n.Ctx, s, "")
		if w.stop() {
			return
		}
	}
}
