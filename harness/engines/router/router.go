// Package router is the C05 engine: the real x/poolmanager router inside the
// full application, over a graph of balancer, stableswap and concentrated
// pools. After a random history it probes, on discarded branches of the block
// context, that a routed swap equals the hops performed one after another,
// that a split route equals its legs, that the estimate queries equal the
// execution and that the caller's limits hold.
package router

import (
	"fmt"
	"sort"
	"strings"
	"time"

	"github.com/cosmos/cosmos-sdk/codec"
	sdk "github.com/cosmos/cosmos-sdk/types"
	authtypes "github.com/cosmos/cosmos-sdk/x/auth/types"
	distrtypes "github.com/cosmos/cosmos-sdk/x/distribution/types"

	"github.com/osmosis-labs/osmosis/osmomath"
	"github.com/osmosis-labs/osmosis/v31/app"
	clmodel "github.com/osmosis-labs/osmosis/v31/x/concentrated-liquidity/model"
	cltypes "github.com/osmosis-labs/osmosis/v31/x/concentrated-liquidity/types"
	clgenesis "github.com/osmosis-labs/osmosis/v31/x/concentrated-liquidity/types/genesis"
	"github.com/osmosis-labs/osmosis/v31/x/gamm/pool-models/balancer"
	"github.com/osmosis-labs/osmosis/v31/x/gamm/pool-models/stableswap"
	gammtypes "github.com/osmosis-labs/osmosis/v31/x/gamm/types"
	minttypes "github.com/osmosis-labs/osmosis/v31/x/mint/types"
	pmtypes "github.com/osmosis-labs/osmosis/v31/x/poolmanager/types"
	txfeestypes "github.com/osmosis-labs/osmosis/v31/x/txfees/types"

	"verif/harness/simchain"
	"verif/harness/simcore"
)

const prop = "C05"

type Engine struct{}

func init() { simcore.Register(Engine{}) }

func (Engine) Name() string    { return "router" }
func (Engine) Props() []string { return []string{prop} }
func (Engine) Budget(tier, p string) (int, int) {
	if tier == "thorough" {
		return 30000, 900
	}
	return 2400, 150
}

func (Engine) Describe() simcore.Description {
	return simcore.Description{
		Real: []string{"full OsmosisApp: x/poolmanager router, taker fee, msg server and gRPC querier; x/gamm balancer and stableswap pools; x/concentrated-liquidity pools, positions and swaps; bank; the swap hooks of twap/protorev/txfees; real BeginBlocker/EndBlocker of every module, IAVL commit per block, SDK gas metering"},
		Stub: []string{"CometBFT (the simulator supplies header time/height and message order)", "ante/post handlers (sender taken as authenticated, no tx fees, no protorev back-run)", "governance (taker-fee defaults and the reduced-fee whitelist are written through the keeper's parameter setter, as a passed proposal would)"},
		Rule: "one run = 3-5 accounts, 4-5 denominations, 3-6 pools of mixed types (balancer 2-3 assets, stableswap 2-3 assets with scaling factors, concentrated with a full-range and 0-2 narrow positions) forming a connected graph, default taker fee in {0, 0.15%, 30%}, per-pair taker-fee overrides set by the admin message, optionally one account on the reduced-fee whitelist; a prefix of swaps, joins/exits, position adds/withdrawals and clock advances (incl. epoch ends) puts the pools into arbitrary states; then probe steps, interleaved with more history, pick a trader, a route of 1-4 hops (simple, or revisiting pools), exact-in or exact-out, an amount from 1 unit to 95% of a reserve, and compare on branches of the same block context: routed message vs single-hop messages, split-route message vs its legs as routed messages, estimate queries vs execution, limit = exact vs exact+-1. Fault runs add out-of-gas inside the routed message, forced roll-back of messages, node restarts with the same probe before and after, and a rolled-back pool creation followed by a successful creation of a different type under the same pool id.",
		Assumptions: []string{
			"multihop discount: router.go of this version still carries the variables of the former OSMO-routed multihop spread-factor discount, but the flag is constant false and neither the code comments nor x/poolmanager/README.md document a discount; every hop is therefore expected to use its pool's own spread factor and the per-hop taker fee of its (token in, token out) pair, and routed == hop-by-hop is demanded for every route",
			"exact-out composition: 'the hops one after another' is read as what a user without the router would do: walk the route backwards asking the single-pool exact-out estimate query how much of each intermediate denomination the next hop needs (on the state before the first hop), then send the single-hop exact-out messages in forward order, each buying exactly the amount the next hop was quoted, the first one carrying the caller's maximum input. For routes that visit each pool once and a sender that is not on the reduced-fee whitelist the engine additionally executes the hops in reverse order (last hop first, each hop buying what the following one was actually charged); both readings coincide there and both are compared with the routed result",
			"estimate queries carry no sender, so they quote the taker fee of an ordinary account; estimate == execution is compared only for senders that are not on the reduced-fee whitelist and only for routes that visit each pool once",
			"the estimate compared is the query's answer for the same message fields: EstimateSwapExactAmountIn/Out, their WithPrimitiveTypes forms, and for one-hop routes EstimateSinglePoolSwapExactAmountIn/Out; all of them include the taker fee",
			"split routes: per the README the per-leg slippage protection is disabled; the legs are executed as routed messages with minimum output 1 / maximum input = the sender's balance",
			"balance equality is evaluated over every account that holds any coin (bank iteration), and the two branches must also agree on the digest of all KV stores",
			"limit boundary: the caller's limit is compared with the amount the message reports and the sender's balance change; min_out = executed amount must succeed, executed+1 must fail; max_in = executed amount must succeed, executed-1 must fail",
		},
	}
}

var allDenoms = []string{"uosmo", "uatom", "uusdc", "uion", "uakt"}

var takerFees = []string{"0", "0.0001", "0.0015", "0.01", "0.1", "0.3"}
var defaultTakerFees = []string{"0", "0.0015", "0.3"}
var swapFees = []string{"0", "0.001", "0.003", "0.01", "0.05"}
var clSpreads = []string{"0", "0.0001", "0.0005", "0.001", "0.002", "0.003", "0.005"}
var clSpacings = []uint64{1, 10, 100, 1000}
var weights = []int64{1, 1, 2, 5, 10, 100, 1<<20 - 1}
var scalings = [][]uint64{{1, 1, 1}, {1, 1, 1}, {1, 10, 1}, {100, 1, 3}}

const (
	tBalancer = 0
	tStable   = 1
	tCL       = 2
)

// argument layout of route-carrying steps ("swap", "probe", "restart")
const (
	rTrader = iota
	rExactIn
	rHops
	rSimple
	rStart
	rSel    // 8 selectors: (pool, out denom) per hop
	rRegime = rSel + 8
	rAmt    = rRegime + 1
	rNewest = rAmt + 1
	rLen    = rNewest + 1
)

// argument layout of "mkpool" / "ghost"
const (
	mType = iota
	mD0
	mD1
	mD2
	mFresh
	mN
	mA0
	mA1
	mA2
	mW0
	mW1
	mW2
	mFee
	mSpacing
	mSF
	mNPos
	mPos  // 4 per extra position: lower steps, upper steps, span selector, amount bp
	mYoff = mPos + 8
	mLen  = mYoff + 1
)

// argument layout of "split"
const (
	sTrader = iota
	sExactIn
	sStart
	sEnd
	sLegs
	sL0
	sL1
	sL2
	sRegime
	sA0
	sA1
	sA2
	sLen
)

func genRoute(r *simcore.RNG) []int64 {
	a := make([]int64, rLen)
	a[rTrader] = r.Range(0, 7)
	a[rExactIn] = int64(r.Intn(2))
	a[rHops] = int64(1 + r.Weighted([]int{28, 34, 22, 16}))
	a[rSimple] = 1
	if r.Chance(0.25) {
		a[rSimple] = 0
	}
	a[rStart] = r.Range(0, 15)
	for k := 0; k < 8; k++ {
		a[rSel+k] = r.Range(0, 15)
	}
	a[rRegime] = int64(r.Weighted([]int{8, 17, 60, 15}))
	a[rAmt] = r.Range(0, 1<<30)
	if r.Chance(0.15) {
		a[rNewest] = 1
	}
	return a
}

func genPool(r *simcore.RNG, typ int64) []int64 {
	a := make([]int64, mLen)
	a[mType] = typ
	a[mD0], a[mD1], a[mD2] = r.Range(0, 15), r.Range(0, 15), r.Range(0, 15)
	if r.Chance(0.75) {
		a[mFresh] = 1
	}
	a[mN] = 2
	if r.Chance(0.35) {
		a[mN] = 3
	}
	for k := 0; k < 3; k++ {
		a[mA0+k] = r.Magnitude(9, 15).Int64()
		a[mW0+k] = r.Range(0, int64(len(weights)-1))
	}
	a[mFee] = r.Range(0, 15)
	a[mSpacing] = r.Range(0, 3)
	a[mSF] = r.Range(0, 3)
	a[mNPos] = r.Range(0, 2)
	for k := 0; k < 2; k++ {
		a[mPos+4*k] = r.Range(1, 40)
		a[mPos+4*k+1] = r.Range(1, 40)
		a[mPos+4*k+2] = r.Range(0, 3)
		a[mPos+4*k+3] = r.Range(50, 20000)
	}
	a[mYoff] = r.Range(1, 2)
	return a
}

func genSplit(r *simcore.RNG) []int64 {
	a := make([]int64, sLen)
	a[sTrader] = r.Range(0, 7)
	a[sExactIn] = int64(r.Intn(2))
	a[sStart], a[sEnd] = r.Range(0, 15), r.Range(0, 15)
	a[sLegs] = r.Range(2, 3)
	a[sL0], a[sL1], a[sL2] = r.Range(0, 63), r.Range(0, 63), r.Range(0, 63)
	a[sRegime] = int64(r.Weighted([]int{8, 17, 60, 15}))
	a[sA0], a[sA1], a[sA2] = r.Range(0, 1<<30), r.Range(0, 1<<30), r.Range(0, 1<<30)
	return a
}

func genActivity(r *simcore.RNG) simcore.Step {
	switch r.Weighted([]int{40, 14, 8, 6, 14, 6, 3, 3, 6}) {
	case 0:
		return simcore.Step{Op: "swap", A: genRoute(r)}
	case 1:
		return simcore.Step{Op: "join", A: []int64{r.Range(0, 7), r.Range(0, 15), r.Range(0, 2), r.Range(1, 3000), r.Range(0, 7)}}
	case 2:
		return simcore.Step{Op: "clpos", A: []int64{r.Range(0, 7), r.Range(0, 15), r.Range(1, 40), r.Range(1, 40), r.Range(0, 3), r.Range(50, 20000)}}
	case 3:
		return simcore.Step{Op: "clwd", A: []int64{r.Range(0, 31), []int64{10000, 5000, 100, 9999, 2500}[r.Intn(5)]}}
	case 4:
		return simcore.Step{Op: "advance", A: []int64{int64(r.Weighted([]int{6, 3, 2})), r.Range(1, 100000)}}
	case 5:
		return simcore.Step{Op: "setfee", A: []int64{r.Range(0, 7), r.Range(0, 7), r.Range(0, int64(len(takerFees)-1)), int64(r.Weighted([]int{70, 30}))}}
	case 6:
		return simcore.Step{Op: "setwl", A: []int64{r.Range(0, 8)}}
	case 7:
		return simcore.Step{Op: "setdtf", A: []int64{r.Range(0, int64(len(defaultTakerFees)-1))}}
	default:
		return simcore.Step{Op: "mkpool", A: genPool(r, r.Range(0, 2))}
	}
}

func (Engine) Generate(r *simcore.RNG, tier string, idx int) *simcore.Plan {
	p := &simcore.Plan{Config: map[string]int64{}}
	faults := idx%2 == 1
	if idx%4 == 3 {
		p.Config["spec"] = 60 + int64(idx/4%5)*60 // permille of blocks first executed speculatively on a discarded branch (simchain.Node.Spec)
	}
	p.Config["accts"] = r.Range(3, 5)
	p.Config["denoms"] = r.Range(4, 5)
	p.Config["dtf"] = int64(r.Weighted([]int{3, 4, 2}))
	if r.Chance(0.4) {
		p.Config["wl"] = r.Range(1, 5)
	}
	// pools: the first three take each type once, in random order
	order := []int64{0, 1, 2}
	for i := 2; i > 0; i-- {
		j := r.Intn(i + 1)
		order[i], order[j] = order[j], order[i]
	}
	npools := int(r.Range(3, 6))
	for i := 0; i < npools; i++ {
		typ := r.Range(0, 2)
		if i < 3 {
			typ = order[i]
		}
		p.Steps = append(p.Steps, simcore.Step{Op: "mkpool", A: genPool(r, typ)})
	}
	for k := int(r.Range(0, 4)); k > 0; k-- {
		p.Steps = append(p.Steps, simcore.Step{Op: "setfee", A: []int64{r.Range(0, 7), r.Range(0, 7), r.Range(0, int64(len(takerFees)-1))}})
	}
	fault := func(st *simcore.Step) {
		if !faults || !r.Chance(0.2) {
			return
		}
		if r.Chance(0.35) && st.Op != "probe" && st.Op != "split" {
			st.F = "abort"
		} else {
			st.F = fmt.Sprintf("oog:%d", r.Range(1, 999))
		}
	}
	for k := int(r.Range(4, 14)); k > 0; k-- {
		st := genActivity(r)
		if st.Op != "advance" && st.Op != "setwl" && st.Op != "setdtf" {
			fault(&st)
		}
		p.Steps = append(p.Steps, st)
	}
	for k := int(r.Range(8, 22)); k > 0; k-- {
		var st simcore.Step
		w := []int{48, 14, 26, 0, 0}
		if faults {
			w = []int{44, 12, 24, 10, 10}
		}
		switch r.Weighted(w) {
		case 0:
			st = simcore.Step{Op: "probe", A: genRoute(r)}
			fault(&st)
		case 1:
			st = simcore.Step{Op: "split", A: genSplit(r)}
			fault(&st)
		case 2:
			st = genActivity(r)
			if st.Op != "advance" && st.Op != "setwl" && st.Op != "setdtf" {
				fault(&st)
			}
		case 3:
			st = simcore.Step{Op: "restart", A: genRoute(r)}
		case 4:
			st = simcore.Step{Op: "ghost", A: genPool(r, r.Range(0, 2))}
			p.Steps = append(p.Steps, st)
			// follow the re-used pool id with probes through it, warm and cold
			pr := genRoute(r)
			pr[rNewest] = 1
			p.Steps = append(p.Steps, simcore.Step{Op: "probe", A: pr})
			rr := genRoute(r)
			rr[rNewest] = 1
			st = simcore.Step{Op: "restart", A: rr}
		}
		p.Steps = append(p.Steps, st)
	}
	return p
}

// ---- world ----

type pinfo struct {
	id     uint64
	typ    int
	denoms []string
	addr   sdk.AccAddress
}

type posinfo struct {
	id    uint64
	owner int
	pool  uint64
	keep  bool // the creator's full-range position: never withdrawn
}

type world struct {
	run    *simcore.Run
	n      *simchain.Node
	nacct  int
	denoms []string
	pools  []*pinfo
	pos    []*posinfo
	labels map[string]string
	dead   bool // the chain halted: no block is open
	// the taker-fee settings as configured: what the admin message and governance were told, kept
	// independently of the chain's own table (setting a pair to the current default removes its override)
	refFee     map[string]string
	refDefault string
}

// configuredFee is the taker fee the settings prescribe for a hop in>out.
func (w *world) configuredFee(in, out string) osmomath.Dec {
	if f, ok := w.refFee[in+">"+out]; ok {
		return dec(f)
	}
	return dec(w.refDefault)
}

// feeTable compares the chain's per-pair taker fee with the configured settings for every ordered pair.
func (w *world) feeTable(ctx sdk.Context, after string) {
	for _, in := range w.denoms {
		for _, out := range w.denoms {
			if in == out {
				continue
			}
			got, err := w.n.App.PoolManagerKeeper.GetTradingPairTakerFee(ctx, in, out)
			if want := w.configuredFee(in, out); err != nil || !got.Equal(want) {
				w.fail("taker-fee-setting", after, "after %s the chain applies taker fee %s (err %v) to %s>%s, the settings made so far prescribe %s (default %s)", after, got, err, in, out, want, w.refDefault)
				return
			}
		}
	}
	w.run.Count("fee-table-checks")
}

func dec(s string) osmomath.Dec { return osmomath.MustNewDecFromStr(s) }

func (w *world) pool(id uint64) *pinfo {
	for _, p := range w.pools {
		if p.id == id {
			return p
		}
	}
	return nil
}

func (w *world) whitelisted(ctx sdk.Context, acct int) bool {
	for _, a := range w.n.App.PoolManagerKeeper.GetParams(ctx).TakerFeeParams.ReducedFeeWhitelist {
		if a == w.n.Accts[acct].String() {
			return true
		}
	}
	return false
}

func (w *world) label(addr string) string {
	if l, ok := w.labels[addr]; ok {
		return l
	}
	return addr
}

func (w *world) begin(dt time.Duration) bool {
	if pv := w.n.BeginBlock(dt); pv != nil {
		w.fail("chain-halt", "begin-block", "BeginBlocker panicked at height %d: %v", w.n.Height, pv)
		w.dead = true
		return false
	}
	w.run.Blocks++
	w.run.SimNanos += int64(dt)
	return true
}

func (w *world) end() bool {
	if pv := w.n.EndBlock(); pv != nil {
		w.fail("chain-halt", "end-block", "EndBlocker panicked at height %d: %v", w.n.Height+1, pv)
		w.dead = true
		return false
	}
	return true
}

func (Engine) Execute(run *simcore.Run) {
	p := run.Plan
	nacct := int(p.Cfg("accts", 3))
	if nacct < 2 {
		nacct = 2
	}
	nd := int(p.Cfg("denoms", 4))
	if nd < 2 {
		nd = 2
	}
	if nd > len(allDenoms) {
		nd = len(allDenoms)
	}
	denoms := allDenoms[:nd]
	each := osmomath.NewIntWithDecimal(1, 24)
	fund := sdk.NewCoins()
	for _, d := range denoms {
		fund = fund.Add(sdk.NewCoin(d, each))
	}
	dtf := defaultTakerFees[int(p.Cfg("dtf", 0))%len(defaultTakerFees)]
	wl := int(p.Cfg("wl", 0))
	acctAddr := func(i int) string { return sdk.AccAddress(simchain.AcctKey(i).PubKey().Address()).String() }
	n := simchain.NewNode(simchain.Config{Accounts: nacct, Validators: 1, Fund: fund, Mutate: func(cdc codec.JSONCodec, gs app.GenesisState) {
		var pg pmtypes.GenesisState
		cdc.MustUnmarshalJSON(gs[pmtypes.ModuleName], &pg)
		pg.Params.PoolCreationFee = sdk.NewCoins(sdk.NewInt64Coin(simchain.BondDenom, 1000))
		pg.Params.TakerFeeParams.DefaultTakerFee = dec(dtf)
		pg.Params.TakerFeeParams.AdminAddresses = []string{acctAddr(0)}
		if wl > 0 {
			pg.Params.TakerFeeParams.ReducedFeeWhitelist = []string{acctAddr((wl - 1) % nacct)}
		}
		gs[pmtypes.ModuleName] = cdc.MustMarshalJSON(&pg)

		var cg clgenesis.GenesisState
		cdc.MustUnmarshalJSON(gs[cltypes.ModuleName], &cg)
		cg.Params.IsPermissionlessPoolCreationEnabled = true
		cg.Params.AuthorizedTickSpacing = clSpacings
		gs[cltypes.ModuleName] = cdc.MustMarshalJSON(&cg)

		var mg minttypes.GenesisState
		cdc.MustUnmarshalJSON(gs[minttypes.ModuleName], &mg)
		mg.Params.GenesisEpochProvisions = osmomath.ZeroDec()
		mg.Minter.EpochProvisions = osmomath.ZeroDec()
		gs[minttypes.ModuleName] = cdc.MustMarshalJSON(&mg)
	}})
	n.Spec = run.Plan.Cfg("spec", 0)
	defer func() {
		for i := 0; i < n.Specs; i++ {
			run.Fault("speculative-block-discarded")
		}
	}()
	w := &world{run: run, n: n, nacct: nacct, denoms: denoms, labels: map[string]string{}, refFee: map[string]string{}, refDefault: dtf}
	for i, a := range n.Accts {
		w.labels[a.String()] = fmt.Sprintf("account %d", i)
	}
	for _, m := range []string{txfeestypes.TakerFeeCollectorName, txfeestypes.TakerFeeCommunityPoolName, txfeestypes.TakerFeeStakersName, distrtypes.ModuleName, pmtypes.ModuleName, gammtypes.ModuleName, cltypes.ModuleName, authtypes.FeeCollectorName} {
		w.labels[authtypes.NewModuleAddress(m).String()] = "module " + m
	}
	run.Logf("router accts=%d denoms=%d default-taker-fee=%s whitelisted=%d", nacct, nd, dtf, wl)
	if !w.begin(5 * time.Second) {
		return
	}
	for i, st := range p.Steps {
		run.StepIdx = i
		switch st.Op {
		case "mkpool":
			w.opMkpool(i, st)
		case "ghost":
			w.opGhost(i, st)
		case "swap":
			w.opSwap(i, st)
		case "join":
			w.opJoin(i, st)
		case "clpos":
			w.opClpos(i, st)
		case "clwd":
			w.opClwd(i, st)
		case "setfee":
			w.opSetfee(i, st)
		case "setwl":
			var list []string
			if k := int(st.Arg(0)); k > 0 {
				list = []string{n.Accts[(k-1)%nacct].String()}
			}
			n.App.PoolManagerKeeper.SetParam(n.Ctx, pmtypes.KeyReducedTakerFeeByWhitelist, list)
			run.Event("setwl", "gov")
			run.Logf("%d setwl %v", i, list)
		case "setdtf":
			f := defaultTakerFees[int(st.Arg(0))%len(defaultTakerFees)]
			n.App.PoolManagerKeeper.SetParam(n.Ctx, pmtypes.KeyDefaultTakerFee, dec(f))
			w.refDefault = f
			w.feeTable(n.Ctx, "setdtf")
			run.Event("setdtf", "gov")
			run.Logf("%d setdtf %s", i, f)
		case "advance":
			if !w.end() {
				return
			}
			dt := time.Duration(1+st.Arg(1)%10000) * time.Millisecond
			switch st.Arg(0) {
			case 1:
				dt = time.Duration(1+st.Arg(1)) * time.Second
			case 2:
				dt = 24*time.Hour + time.Duration(st.Arg(1))*time.Second
				run.Fault("epoch-jump")
			}
			if !w.begin(dt) {
				return
			}
			run.Event("advance", "ok")
			run.Logf("%d advance %s -> h=%d hash=%x", i, dt, n.Height, n.LastAppHash[:6])
		case "probe":
			w.opProbe(i, st)
		case "split":
			w.opSplit(i, st)
		case "restart":
			if !w.opRestart(i, st) {
				return
			}
		}
		if w.stop() {
			return
		}
	}
	if w.end() {
		run.Logf("final h=%d hash=%x", n.Height, n.LastAppHash[:6])
	}
}

// ---- pool creation ----

func (w *world) usedDenoms() []string {
	var out []string
	for _, d := range w.denoms {
		for _, p := range w.pools {
			found := false
			for _, pd := range p.denoms {
				if pd == d {
					found = true
				}
			}
			if found {
				out = append(out, d)
				break
			}
		}
	}
	return out
}

func without(list []string, drop ...string) []string {
	var out []string
	for _, d := range list {
		skip := false
		for _, x := range drop {
			if x == d {
				skip = true
			}
		}
		if !skip {
			out = append(out, d)
		}
	}
	return out
}

func pick(list []string, sel int64) string { return list[int(sel)%len(list)] }

// poolDenoms resolves the denominations of a new pool so that the pool graph
// stays connected: the first comes from the denominations already traded, the
// second prefers one not yet traded.
func (w *world) poolDenoms(st simcore.Step, n int) []string {
	used := w.usedDenoms()
	var d0 string
	if len(used) == 0 {
		d0 = pick(w.denoms, st.Arg(mD0))
	} else {
		d0 = pick(used, st.Arg(mD0))
	}
	unused := without(w.denoms, append(used, d0)...)
	var d1 string
	if len(unused) > 0 && st.Arg(mFresh) != 0 {
		d1 = pick(unused, st.Arg(mD1))
	} else {
		d1 = pick(without(w.denoms, d0), st.Arg(mD1))
	}
	out := []string{d0, d1}
	if n >= 3 {
		if rest := without(w.denoms, d0, d1); len(rest) > 0 {
			out = append(out, pick(rest, st.Arg(mD2)))
		}
	}
	return out
}

func posAmt(v int64) osmomath.Int {
	if v < 1000 {
		v = 1000
	}
	return osmomath.NewInt(v)
}

// poolMsg builds the creation message of a pool of the given type from the
// step's arguments.
func (w *world) poolMsg(typ int, st simcore.Step) (sdk.Msg, []string) {
	creator := w.n.Accts[0].String()
	switch typ {
	case tBalancer:
		ds := w.poolDenoms(st, int(st.Arg(mN)))
		var assets []balancer.PoolAsset
		for k, d := range ds {
			assets = append(assets, balancer.PoolAsset{Token: sdk.NewCoin(d, posAmt(st.Arg(mA0+k))), Weight: osmomath.NewInt(weights[int(st.Arg(mW0+k))%len(weights)])})
		}
		return &balancer.MsgCreateBalancerPool{Sender: creator, PoolParams: &balancer.PoolParams{SwapFee: dec(swapFees[int(st.Arg(mFee))%len(swapFees)]), ExitFee: osmomath.ZeroDec()}, PoolAssets: assets}, ds
	case tStable:
		ds := w.poolDenoms(st, int(st.Arg(mN)))
		sort.Strings(ds)
		sfs := scalings[int(st.Arg(mSF))%len(scalings)]
		base := posAmt(st.Arg(mA0))
		liq := sdk.NewCoins()
		var sf []uint64
		for k, d := range ds {
			amt := base.MulRaw(int64(sfs[k])).MulRaw(50 + st.Arg(mA0+k)%350).QuoRaw(100)
			liq = liq.Add(sdk.NewCoin(d, amt))
			sf = append(sf, sfs[k])
		}
		return &stableswap.MsgCreateStableswapPool{Sender: creator, PoolParams: &stableswap.PoolParams{SwapFee: dec(swapFees[int(st.Arg(mFee))%len(swapFees)]), ExitFee: osmomath.ZeroDec()}, InitialPoolLiquidity: liq, ScalingFactors: sf}, ds
	default:
		ds := w.poolDenoms(st, 2)
		return &clmodel.MsgCreateConcentratedPool{Sender: creator, Denom0: ds[0], Denom1: ds[1], TickSpacing: clSpacings[int(st.Arg(mSpacing))%len(clSpacings)], SpreadFactor: dec(clSpreads[int(st.Arg(mFee))%len(clSpreads)])}, ds
	}
}

func createdPoolID(res simchain.Result) uint64 {
	if res.Resp == nil || len(res.Resp.MsgResponses) == 0 {
		return 0
	}
	switch r := res.Resp.MsgResponses[0].GetCachedValue().(type) {
	case *balancer.MsgCreateBalancerPoolResponse:
		return r.PoolID
	case *stableswap.MsgCreateStableswapPoolResponse:
		return r.PoolID
	case *clmodel.MsgCreateConcentratedPoolResponse:
		return r.PoolID
	}
	return 0
}

var tickSpans = []int64{100, 10000, 200000, 2000000}

// positionMsg builds a position on a concentrated pool; steps < 0 asks for the
// full range.
func (w *world) positionMsg(ctx sdk.Context, owner int, p *pinfo, lo, hi, spanSel int64, a0, a1 osmomath.Int) sdk.Msg {
	lower, upper := cltypes.MinInitializedTick, cltypes.MaxTick
	if lo >= 0 {
		cp, err := w.n.App.ConcentratedLiquidityKeeper.GetConcentratedPoolById(ctx, p.id)
		if err != nil {
			return nil
		}
		sp := int64(cp.GetTickSpacing())
		span := tickSpans[int(spanSel)%len(tickSpans)]
		cur := cp.GetCurrentTick()
		lower = cur - lo*span/10
		upper = cur + hi*span/10
		lower -= ((lower % sp) + sp) % sp
		upper += (sp - ((upper%sp)+sp)%sp) % sp
		if lower < cltypes.MinInitializedTick {
			lower = cltypes.MinInitializedTick
		}
		if upper > cltypes.MaxTick {
			upper = cltypes.MaxTick
		}
		if lower >= upper {
			upper = lower + sp
		}
	}
	coins := sdk.NewCoins(sdk.NewCoin(p.denoms[0], a0), sdk.NewCoin(p.denoms[1], a1))
	return &cltypes.MsgCreatePosition{PoolId: p.id, Sender: w.n.Accts[owner].String(), LowerTick: lower, UpperTick: upper, TokensProvided: coins, TokenMinAmount0: osmomath.ZeroInt(), TokenMinAmount1: osmomath.ZeroInt()}
}

func (w *world) addPosition(res simchain.Result, owner int, pool uint64, keep bool) {
	if !res.OK() || res.Resp == nil || len(res.Resp.MsgResponses) == 0 {
		return
	}
	if r, ok := res.Resp.MsgResponses[0].GetCachedValue().(*cltypes.MsgCreatePositionResponse); ok {
		w.pos = append(w.pos, &posinfo{id: r.PositionId, owner: owner, pool: pool, keep: keep})
	}
}

// register records a created pool and, for a concentrated pool, gives it its
// positions.
func (w *world) register(i int, typ int, id uint64, ds []string, st simcore.Step) *pinfo {
	n := w.n
	pl, err := n.App.PoolManagerKeeper.GetPool(n.Ctx, id)
	if err != nil {
		w.fail("created-pool-missing", "mkpool", "pool %d was created by a successful message but the pool manager cannot load it: %v", id, err)
		return nil
	}
	if pl.GetType() != pmtypes.PoolType(typ) || pl.GetId() != id {
		w.fail("created-pool-missing", "mkpool", "pool %d was created as type %d but the pool manager resolves the id to pool %d of type %s", id, typ, pl.GetId(), pl.GetType())
		return nil
	}
	p := &pinfo{id: id, typ: typ, denoms: ds, addr: pl.GetAddress()}
	w.pools = append(w.pools, p)
	w.labels[p.addr.String()] = fmt.Sprintf("pool %d", id)
	if typ == tCL {
		if cp, err := n.App.ConcentratedLiquidityKeeper.GetConcentratedPoolById(n.Ctx, id); err == nil {
			w.labels[cp.GetSpreadRewardsAddress().String()] = fmt.Sprintf("pool %d spread rewards", id)
			w.labels[cp.GetIncentivesAddress().String()] = fmt.Sprintf("pool %d incentives", id)
		}
		res := n.Deliver(w.positionMsg(n.Ctx, 0, p, -1, -1, 0, posAmt(st.Arg(mA0)), posAmt(st.Arg(mA1))), 0, false)
		w.addPosition(res, 0, id, true)
		w.run.Event("clpos-initial", res.Outcome)
		w.run.Logf("%d   full-range position on pool %d -> %s %v", i, id, res.Outcome, res.Err)
		for k := 0; k < int(st.Arg(mNPos))%3 && res.OK(); k++ {
			o := mPos + 4*k
			bp := st.Arg(o + 3)
			m := w.positionMsg(n.Ctx, 0, p, st.Arg(o), st.Arg(o+1), st.Arg(o+2), posAmt(st.Arg(mA0)).MulRaw(bp).QuoRaw(10000), posAmt(st.Arg(mA1)).MulRaw(bp).QuoRaw(10000))
			if m == nil {
				continue
			}
			r2 := n.Deliver(m, 0, false)
			w.addPosition(r2, 0, id, false)
			w.run.Event("clpos-initial", r2.Outcome)
			w.run.Logf("%d   narrow position on pool %d -> %s %v", i, id, r2.Outcome, r2.Err)
		}
	}
	return p
}

func (w *world) opMkpool(i int, st simcore.Step) {
	if len(w.pools) >= 8 {
		w.run.Event("mkpool", "skip")
		return
	}
	typ := int(st.Arg(mType)) % 3
	msg, ds := w.poolMsg(typ, st)
	fk, fa := simcore.ParseFault(st.F)
	res := w.n.DeliverFault(msg, fk, fa)
	w.run.Event("mkpool", res.Outcome)
	w.run.Logf("%d mkpool type=%d denoms=%v f=%s -> %s id=%d gas=%d err=%v", i, typ, ds, st.F, res.Outcome, createdPoolID(res), res.GasUsed, res.Err)
	switch res.Outcome {
	case "ok":
		w.register(i, typ, createdPoolID(res), ds, st)
	case "oog", "abort":
		w.run.Fault(res.Outcome)
	}
}

// ---- history operations ----

func (w *world) deliver(i int, op string, msg sdk.Msg, f string) simchain.Result {
	fk, fa := simcore.ParseFault(f)
	res := w.n.DeliverFault(msg, fk, fa)
	w.run.Event(op, res.Outcome)
	if res.Outcome == "oog" || res.Outcome == "abort" {
		w.run.Fault(res.Outcome)
	}
	return res
}

func (w *world) opSwap(i int, st simcore.Step) {
	s, ok := w.routeSpec(w.n.Ctx, st)
	if !ok {
		w.run.Event("swap", "skip")
		return
	}
	msg := w.routedMsg(s, w.looseLimit(w.n.Ctx, s))
	res := w.deliver(i, "swap", msg, st.F)
	w.run.Logf("%d swap %s f=%s -> %s amt=%s gas=%d err=%v", i, s, st.F, res.Outcome, amountOf(res), res.GasUsed, res.Err)
}

func (w *world) gammPools() []*pinfo {
	var out []*pinfo
	for _, p := range w.pools {
		if p.typ != tCL {
			out = append(out, p)
		}
	}
	return out
}

func (w *world) clPools() []*pinfo {
	var out []*pinfo
	for _, p := range w.pools {
		if p.typ == tCL {
			out = append(out, p)
		}
	}
	return out
}

func (w *world) opJoin(i int, st simcore.Step) {
	gp := w.gammPools()
	if len(gp) == 0 {
		w.run.Event("join", "skip")
		return
	}
	n := w.n
	acct := int(st.Arg(0)) % w.nacct
	p := gp[int(st.Arg(1))%len(gp)]
	bp := st.Arg(3)
	sender := n.Accts[acct].String()
	var msg sdk.Msg
	switch st.Arg(2) % 3 {
	case 0:
		pool, err := n.App.GAMMKeeper.GetPoolAndPoke(n.Ctx, p.id)
		if err != nil {
			w.run.Event("join", "skip")
			return
		}
		sh := pool.GetTotalShares().MulRaw(bp % 2000).QuoRaw(10000)
		if !sh.IsPositive() {
			sh = osmomath.NewInt(1)
		}
		msg = &gammtypes.MsgJoinPool{Sender: sender, PoolId: p.id, ShareOutAmount: sh}
	case 1:
		d := pick(p.denoms, st.Arg(4))
		amt := n.Balance(n.Ctx, p.addr, d).MulRaw(bp % 2000).QuoRaw(10000)
		if !amt.IsPositive() {
			amt = osmomath.NewInt(1)
		}
		msg = &gammtypes.MsgJoinSwapExternAmountIn{Sender: sender, PoolId: p.id, TokenIn: sdk.NewCoin(d, amt), ShareOutMinAmount: osmomath.NewInt(1)}
	default:
		sh := n.Balance(n.Ctx, n.Accts[acct], gammtypes.GetPoolShareDenom(p.id)).MulRaw(bp % 9000).QuoRaw(10000)
		if !sh.IsPositive() {
			w.run.Event("join", "skip")
			return
		}
		msg = &gammtypes.MsgExitPool{Sender: sender, PoolId: p.id, ShareInAmount: sh}
	}
	res := w.deliver(i, "join", msg, st.F)
	w.run.Logf("%d join kind=%d pool=%d acct=%d f=%s -> %s gas=%d err=%v", i, st.Arg(2)%3, p.id, acct, st.F, res.Outcome, res.GasUsed, res.Err)
}

func (w *world) opClpos(i int, st simcore.Step) {
	cp := w.clPools()
	if len(cp) == 0 {
		w.run.Event("clpos", "skip")
		return
	}
	n := w.n
	acct := int(st.Arg(0)) % w.nacct
	p := cp[int(st.Arg(1))%len(cp)]
	bp := st.Arg(5)
	a0 := n.Balance(n.Ctx, p.addr, p.denoms[0]).MulRaw(bp).QuoRaw(10000)
	a1 := n.Balance(n.Ctx, p.addr, p.denoms[1]).MulRaw(bp).QuoRaw(10000)
	if !a0.IsPositive() {
		a0 = osmomath.NewInt(1000)
	}
	if !a1.IsPositive() {
		a1 = osmomath.NewInt(1000)
	}
	msg := w.positionMsg(n.Ctx, acct, p, st.Arg(2), st.Arg(3), st.Arg(4), a0, a1)
	if msg == nil {
		w.run.Event("clpos", "skip")
		return
	}
	res := w.deliver(i, "clpos", msg, st.F)
	w.addPosition(res, acct, p.id, false)
	w.run.Logf("%d clpos pool=%d acct=%d f=%s -> %s gas=%d err=%v", i, p.id, acct, st.F, res.Outcome, res.GasUsed, res.Err)
}

func (w *world) opClwd(i int, st simcore.Step) {
	var cand []*posinfo
	for _, ps := range w.pos {
		if !ps.keep {
			cand = append(cand, ps)
		}
	}
	if len(cand) == 0 {
		w.run.Event("clwd", "skip")
		return
	}
	n := w.n
	ps := cand[int(st.Arg(0))%len(cand)]
	pos, err := n.App.ConcentratedLiquidityKeeper.GetPosition(n.Ctx, ps.id)
	if err != nil {
		w.run.Event("clwd", "skip")
		return
	}
	liq := pos.Liquidity.MulInt64(st.Arg(1)).QuoInt64(10000)
	if !liq.IsPositive() {
		w.run.Event("clwd", "skip")
		return
	}
	res := w.deliver(i, "clwd", &cltypes.MsgWithdrawPosition{PositionId: ps.id, Sender: n.Accts[ps.owner].String(), LiquidityAmount: liq}, st.F)
	if res.OK() && st.Arg(1) == 10000 {
		for k, x := range w.pos {
			if x == ps {
				w.pos = append(w.pos[:k:k], w.pos[k+1:]...)
				break
			}
		}
	}
	w.run.Logf("%d clwd pos=%d bp=%d f=%s -> %s gas=%d err=%v", i, ps.id, st.Arg(1), st.F, res.Outcome, res.GasUsed, res.Err)
}

func (w *world) opSetfee(i int, st simcore.Step) {
	in := pick(w.denoms, st.Arg(0))
	out := pick(without(w.denoms, in), st.Arg(1))
	fee := takerFees[int(st.Arg(2))%len(takerFees)]
	if st.Arg(3) == 1 && len(w.refFee) > 0 {
		// take an existing override back to the current default
		keys := make([]string, 0, len(w.refFee))
		for k := range w.refFee {
			keys = append(keys, k)
		}
		sort.Strings(keys)
		k := keys[int(st.Arg(0))%len(keys)]
		in, out, fee = k[:strings.Index(k, ">")], k[strings.Index(k, ">")+1:], w.refDefault
	}
	msg := &pmtypes.MsgSetDenomPairTakerFee{Sender: w.n.Accts[0].String(), DenomPairTakerFee: []pmtypes.DenomPairTakerFee{{TokenInDenom: in, TokenOutDenom: out, TakerFee: dec(fee)}}}
	res := w.deliver(i, "setfee", msg, st.F)
	w.run.Logf("%d setfee %s>%s=%s f=%s -> %s err=%v", i, in, out, fee, st.F, res.Outcome, res.Err)
	if res.OK() {
		if _, had := w.refFee[in+">"+out]; had && dec(fee).Equal(dec(w.refDefault)) {
			w.run.Probe("pair-override-reset-to-default")
		}
		if dec(fee).Equal(dec(w.refDefault)) {
			delete(w.refFee, in+">"+out)
		} else {
			w.refFee[in+">"+out] = fee
		}
	}
	w.feeTable(w.n.Ctx, "setfee")
}

// fail records a violation once per (oracle, signature) and run.
func (w *world) fail(oracle, sig, format string, a ...interface{}) {
	key := prop + "/" + oracle + "/" + sig
	for _, v := range w.run.Viol {
		if v.Key() == key {
			w.run.Count("repeated-violation")
			return
		}
	}
	w.run.Fail(prop, oracle, sig, format, a...)
}

// stop ends the run once several distinct violations are recorded. Every
// oracle of this engine runs on discarded branches, so the simulated chain
// stays trustworthy after a violation; going on lets a replay (which does not
// suppress known findings) reach a recorded violation that is preceded by
// another finding.
func (w *world) stop() bool { return w.dead || len(w.run.Viol) >= 8 }
