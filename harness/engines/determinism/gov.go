package determinism

// Governance in the L2 engine (rich profile): accounts with staked uosmo submit
// proposals whose messages run with the authority of the governance module, and
// vote on them; a few blocks later the real gov end-blocker tallies and executes
// the messages inside a branch that is discarded as a whole when one of them
// fails. This reaches state that only governance can write (taker-fee share
// agreements, superfluid asset list, pool-incentives distribution records,
// balancer -> concentrated migration links, legacy parameter changes), and it is
// a fault placement of its own: a proposal whose last message fails rolls back
// the stores but not whatever its earlier messages left in keeper memory.

import (
	"fmt"
	"sort"
	"time"

	"github.com/cosmos/cosmos-sdk/codec"
	sdk "github.com/cosmos/cosmos-sdk/types"
	authtypes "github.com/cosmos/cosmos-sdk/x/auth/types"
	banktypes "github.com/cosmos/cosmos-sdk/x/bank/types"
	govtypes "github.com/cosmos/cosmos-sdk/x/gov/types"
	govv1 "github.com/cosmos/cosmos-sdk/x/gov/types/v1"
	govv1beta1 "github.com/cosmos/cosmos-sdk/x/gov/types/v1beta1"
	paramproposal "github.com/cosmos/cosmos-sdk/x/params/types/proposal"

	"github.com/osmosis-labs/osmosis/osmomath"
	"github.com/osmosis-labs/osmosis/v31/app"
	gammtypes "github.com/osmosis-labs/osmosis/v31/x/gamm/types"
	gammmigration "github.com/osmosis-labs/osmosis/v31/x/gamm/types/migration"
	poolincentivestypes "github.com/osmosis-labs/osmosis/v31/x/pool-incentives/types"
	poolmanagertypes "github.com/osmosis-labs/osmosis/v31/x/poolmanager/types"
	superfluidtypes "github.com/osmosis-labs/osmosis/v31/x/superfluid/types"

	"verif/harness/simcore"
)

var govKinds = []string{"gov-submit", "gov-vote"}

// govGenesis makes governance fast enough for a 15-40 block run: 40 s voting
// (20 s expedited), deposits of a few uosmo, practically no quorum.
func govGenesis(cdc codec.JSONCodec, gs app.GenesisState) {
	var gg govv1.GenesisState
	cdc.MustUnmarshalJSON(gs[govtypes.ModuleName], &gg)
	vp, evp, dp := 40*time.Second, 20*time.Second, 200*time.Second
	gg.Params.VotingPeriod = &vp
	gg.Params.ExpeditedVotingPeriod = &evp
	gg.Params.MaxDepositPeriod = &dp
	gg.Params.MinDeposit = sdk.NewCoins(sdk.NewCoin("uosmo", osmomath.NewInt(1_000_000)))
	gg.Params.ExpeditedMinDeposit = sdk.NewCoins(sdk.NewCoin("uosmo", osmomath.NewInt(2_000_000)))
	gg.Params.Quorum = "0.000000000000000001"
	gs[govtypes.ModuleName] = cdc.MustMarshalJSON(&gg)
}

func govAuthority() string { return authtypes.NewModuleAddress(govtypes.ModuleName).String() }

func legacyContent(c govv1beta1.Content) sdk.Msg {
	m, err := govv1.NewLegacyContent(c, govAuthority())
	if err != nil {
		panic(err)
	}
	return m
}

// govSender prefers accounts with a delegation (their vote counts).
func (v *view) govSender(st simcore.Step) (int, bool) {
	if st.Op != "gov-submit" && st.Op != "gov-vote" {
		return 0, false
	}
	n := len(v.w.g.Accts)
	var el []int
	for i := 0; i < n; i++ {
		ds, err := v.w.A.App.StakingKeeper.GetDelegatorDelegations(v.ctx, v.w.g.Accts[i], 1)
		if err == nil && len(ds) > 0 {
			el = append(el, i)
		}
	}
	if len(el) == 0 || st.Arg(7)%10 == 9 {
		return int(st.Arg(0)) % n, true
	}
	return el[int(st.Arg(0))%len(el)], true
}

// buildGov turns a governance step into messages.
func (v *view) buildGov(st simcore.Step, sender int) []sdk.Msg {
	w := v.w
	n := len(w.g.Accts)
	me := w.g.Accts[sender].String()
	x0, x1, x2, x3 := st.Arg(4), st.Arg(5), st.Arg(6), st.Arg(7)
	gk := w.A.App.GovKeeper
	switch st.Op {
	case "gov-vote":
		var open []uint64
		_ = gk.Proposals.Walk(v.ctx, nil, func(id uint64, p govv1.Proposal) (bool, error) {
			if p.Status == govv1.StatusVotingPeriod {
				open = append(open, id)
			}
			return false, nil
		})
		sort.Slice(open, func(i, j int) bool { return open[i] < open[j] })
		id, ok := pick(open, x0)
		if !ok {
			if x1%4 != 0 {
				return nil
			}
			id = uint64(1 + x0%3) // none open: must be refused
		}
		opt := govv1.OptionYes
		if x1%8 == 0 {
			opt = govv1.OptionNo
		}
		return []sdk.Msg{govv1.NewMsgVote(w.g.Accts[sender], id, opt, "")}
	case "gov-submit":
		gov := govAuthority()
		var msgs []sdk.Msg
		title := "p"
		switch x0 % 8 {
		case 0, 1:
			// taker-fee share agreement for a base denomination; variant 1 is followed by a message that
			// fails (the governance account owns nothing), so the proposal is rolled back as a whole
			d, _ := pick(baseDenoms[1:], x1)
			msgs = append(msgs, &poolmanagertypes.MsgSetTakerFeeShareAgreementForDenom{Sender: gov, Denom: d, SkimPercent: dec([]string{"0.1", "0.25", "0.5"}[x2%3]), SkimAddress: w.g.Accts[int(x3)%n].String()})
			if x0%8 == 1 {
				msgs = append(msgs, &banktypes.MsgSend{FromAddress: gov, ToAddress: me, Amount: sdk.NewCoins(sdk.NewCoin("uosmo", osmomath.NewInt(1_000_000_000_000_000_000)))})
				title = "p-fails"
			}
		case 2:
			d := gammtypes.GetPoolShareDenom(1)
			if _, err := w.A.App.SuperfluidKeeper.GetSuperfluidAsset(v.ctx, d); err == nil {
				msgs = append(msgs, legacyContent(&superfluidtypes.RemoveSuperfluidAssetsProposal{Title: "r", Description: "r", SuperfluidAssetDenoms: []string{d}}))
			} else {
				msgs = append(msgs, legacyContent(&superfluidtypes.SetSuperfluidAssetsProposal{Title: "s", Description: "s", Assets: []superfluidtypes.SuperfluidAsset{{Denom: d, AssetType: superfluidtypes.SuperfluidAssetTypeLPShare}}}))
			}
		case 3:
			// distribution records of the pool-incentives share of minted coins: some internal gauges
			gs := w.A.App.IncentivesKeeper.GetNotFinishedGauges(v.ctx)
			sort.Slice(gs, func(i, j int) bool { return gs[i].Id < gs[j].Id })
			var recs []poolincentivestypes.DistrRecord
			for _, g := range gs {
				if g.IsPerpetual && len(recs) < 3 && (x1+int64(g.Id))%2 == 0 {
					if _, err := w.A.App.PoolIncentivesKeeper.GetPoolIdFromGaugeId(v.ctx, g.Id, g.DistributeTo.Duration); err == nil {
						recs = append(recs, poolincentivestypes.DistrRecord{GaugeId: g.Id, Weight: osmomath.NewInt(1 + (x2+int64(g.Id))%9)})
					}
				}
			}
			if len(recs) == 0 {
				return nil
			}
			msgs = append(msgs, legacyContent(&poolincentivestypes.UpdatePoolIncentivesProposal{Title: "u", Description: "u", Records: recs}))
		case 4:
			// link a balancer pool to a concentrated pool over the same pair
			for _, b := range v.poolsOf(false) {
				for _, c := range v.poolsOf(true) {
					if len(b.denoms) == 2 && len(c.denoms) == 2 && b.denoms[0] == c.denoms[0] && b.denoms[1] == c.denoms[1] && len(msgs) == 0 {
						msgs = append(msgs, legacyContent(&gammtypes.UpdateMigrationRecordsProposal{Title: "m", Description: "m", Records: []gammmigration.BalancerToConcentratedPoolLink{{BalancerPoolId: b.id, ClPoolId: c.id}}}))
					}
				}
			}
			if len(msgs) == 0 {
				return nil
			}
		case 5:
			// legacy parameter change: the pool creation fee and the default taker fee
			fee := []string{"0.001", "0.002", "0.003"}[x1%3]
			msgs = append(msgs, legacyContent(paramproposal.NewParameterChangeProposal("c", "c", []paramproposal.ParamChange{
				paramproposal.NewParamChange("poolmanager", "DefaultTakerFee", fmt.Sprintf("%q", fee+"000000000000000")),
			})))
		case 6:
			// (an amount the governance account can never cover: the account also holds every proposal's deposit, and
			// the SDK's gov InitGenesis insists that its balance equals the sum of the deposits - a proposal that
			// really spends from it makes the state un-importable, which is SDK behaviour, not this repository's)
			msgs = append(msgs, &banktypes.MsgSend{FromAddress: gov, ToAddress: me, Amount: sdk.NewCoins(sdk.NewCoin("uosmo", osmomath.NewInt(1_000_000_000_000_000_000)))})
			title = "p-fails"
		default:
			msgs = append(msgs, legacyContent(govv1beta1.NewTextProposal("t", "t")))
		}
		expedited := x3%3 == 0
		deposit := sdk.NewCoins(sdk.NewCoin("uosmo", osmomath.NewInt(2_000_000)))
		if x3%7 == 0 {
			deposit = sdk.NewCoins(sdk.NewCoin("uosmo", osmomath.NewInt(500_000))) // stays in the deposit period
		}
		m, err := govv1.NewMsgSubmitProposal(msgs, deposit, me, "", title, "summary", expedited)
		if err != nil {
			panic(err)
		}
		out := []sdk.Msg{m}
		if x2%4 != 0 && x3%7 != 0 {
			// the proposer votes in the same transaction (the id is the next one)
			if id, err := gk.ProposalID.Peek(v.ctx); err == nil {
				out = append(out, govv1.NewMsgVote(w.g.Accts[sender], id, govv1.OptionYes, ""))
			}
		}
		return out
	}
	return nil
}

// govStats counts (reach only) how the proposals of the run ended.
func (w *world) govStats() {
	defer func() { recover() }()
	ctx := w.A.QueryCtx()
	_ = w.A.App.GovKeeper.Proposals.Walk(ctx, nil, func(id uint64, p govv1.Proposal) (bool, error) {
		w.run.Count("info/gov-proposal/" + p.Status.String() + "/" + p.Title)
		return false, nil
	})
	if as, err := w.A.App.PoolManagerKeeper.GetAllTakerFeesShareAgreements(ctx); err == nil && len(as) > 0 {
		w.run.Probe("taker-fee-share-agreement-in-force")
	}
}
