// Package determinism is the C19 engine: replicas of the full OsmosisApp in
// one process are fed the same blocks of signed transactions through the real
// FinalizeBlock/Commit; after every block they must agree on the committed
// state (app hash) and on every transaction's result; a replica forked from an
// export must report the same module state and behave the same afterwards.
package determinism

import (
	"bytes"
	"fmt"
	"os"
	"sort"
	"strings"
	"time"

	abci "github.com/cometbft/cometbft/abci/types"
	tmproto "github.com/cometbft/cometbft/proto/tendermint/types"
	"github.com/cosmos/cosmos-sdk/client"
	"github.com/cosmos/cosmos-sdk/codec"
	sdk "github.com/cosmos/cosmos-sdk/types"
	slashingtypes "github.com/cosmos/cosmos-sdk/x/slashing/types"
	stakingtypes "github.com/cosmos/cosmos-sdk/x/staking/types"

	"github.com/osmosis-labs/osmosis/osmomath"
	"github.com/osmosis-labs/osmosis/v31/app"
	clgenesis "github.com/osmosis-labs/osmosis/v31/x/concentrated-liquidity/types/genesis"
	incentivestypes "github.com/osmosis-labs/osmosis/v31/x/incentives/types"
	minttypes "github.com/osmosis-labs/osmosis/v31/x/mint/types"
	poolincentivestypes "github.com/osmosis-labs/osmosis/v31/x/pool-incentives/types"
	poolmanagertypes "github.com/osmosis-labs/osmosis/v31/x/poolmanager/types"
	superfluidtypes "github.com/osmosis-labs/osmosis/v31/x/superfluid/types"
	txfeestypes "github.com/osmosis-labs/osmosis/v31/x/txfees/types"
	epochstypes "github.com/osmosis-labs/osmosis/x/epochs/types"

	"verif/harness/simchain"
	"verif/harness/simcore"
	"verif/harness/simnet"
)

type Engine struct{}

func init() { simcore.Register(Engine{}) }

func (Engine) Name() string    { return "determinism" }
func (Engine) Props() []string { return []string{"C19"} }
func (Engine) Budget(tier, prop string) (int, int) {
	if tier == "thorough" {
		return 5000, 1200
	}
	return 600, 150
}

// reExecutions is how often a plan that showed a mismatch is executed again on
// fresh replicas to count how often the mismatch comes back (a dependence on Go
// map iteration order shows only with some probability per execution).
const reExecutions = 3

// replayAttempts is how many executions a replay of a recorded violation may
// take to show it again.
const replayAttempts = 10

func (Engine) Describe() simcore.Description {
	return simcore.Description{
		Real: []string{"full OsmosisApp behind the real BaseApp entry points: InitChain, FinalizeBlock (pre-blocker, begin-blocker incl. epochs/mint/incentives/txfees/superfluid hooks, tx decoding, ante handler with signature verification, fee deduction and sequence numbers, message router, protorev post handler, end-blocker), Commit (IAVL), CheckTx and Simulate; app.ExportAppStateAndValidators and module-manager genesis export/import; SDK gas metering; secp256k1 SIGN_MODE_DIRECT transactions"},
		Stub: []string{"CometBFT consensus and p2p (the simulator is the proposer: it chooses height, header time, tx order, proposer and last-commit votes)", "wall clock (header time only)"},
		Rule: "one run = 4-6 funded accounts, 2-3 validators, shortened epochs (hour 30s, day 100s, week 450s; mint/incentives/superfluid tick on 'day'), 15-40 blocks of 0-4 signed transactions (bank, gamm, poolmanager incl. multi-hop and split routes, concentrated liquidity, lockup, incentives, tokenfactory, staking/distribution, superfluid) with plan-drawn gas limits (generous, or a fraction of the simulated gas use so that out-of-gas hits inside ante or message execution), fees (sufficient / one short / none / wrong denom), sequence numbers (right / future / replayed), occasional second message that fails, irregular header times crossing epoch boundaries, missing validator votes, bursts of empty blocks to the next height divisible by 120. Replica A is the reference and additionally serves Simulate calls; B runs the same stream on an independent application object and disk and additionally sees every tx in CheckTx; C (odd runs) restarts between blocks and crashes between FinalizeBlock and Commit at seeded points; D (most odd runs) is initialised from A's export at a seeded block and then fed the same suffix. Half of the runs list pool 1's shares as a superfluid asset; 30% let the mint module reduce its provisions every 3 epochs; swaps through the next, not yet existing pool id probe the in-memory pool-route cache. 60% of the runs use the \"rich\" profile: module genesis states away from their defaults (taker-fee distribution with burn shares, poolmanager / txfees / protorev / lockup administrators = account 0, reduced-fee and creator white lists, pair taker fees, twap keep period 150 s with hourly pruning, developer reward receivers, tokenfactory creation fee or gas, CL migration thresholds and uptimes, smart accounts active) and 16 further transaction kinds (administrator-signed: pair taker fee, fee tokens, protorev settings, forced unlock; lock extension and reward receiver, position top-up and transfer, stableswap pools, single-asset joins and exits, validator-set preferences and delegation through them, smart-account authenticators); fees are sometimes paid in a registered non-base fee token. Every Go map iteration inside the application draws its own order on every replica.",
		Assumptions: []string{
			"Compared between A, B and C after every block: app hash; per transaction code, codespace, data, gas wanted, gas used, events (type, attribute keys and values, order). Not compared: the log string (CometBFT declares it non-deterministic; BaseApp puts a Go stack trace with goroutine ids and pointers into it for recovered panics), begin/end-block events and validator updates (the property speaks of committed state and of per-transaction results; differences there are counted under other_counters info/block-events-differ and info/validator-updates-differ instead).",
			"Compared between A and the replica D forked from A's export: (1) D must accept the export, first with default flags, then with --x-crisis-skip-assert-invariants; (2) per module, the canonicalised JSON (object keys sorted, arrays in order; a pure permutation of an array is reported once as <order>) of D's export right after InitChain and of A's export at the fork height; (3) three keeper queries over state that no module's genesis carries faithfully (found by diffing the raw stores of A and D): protorev's pool for a denom pair, pool-incentives' pool for a no-lock gauge, bank supply with offsets; (4) per transaction of the common suffix code, codespace, data and events; (5) per module the exports of both at the end of the run. When (2) or (3) shows that the import was not faithful in a way that can steer execution, (4) and (5) are skipped for that run (their premise is gone). Not compared between A and D: app hash (IAVL tree shape and node versions depend on insertion history, which an import does not preserve) and gas (charged per raw store access; an import does not preserve store entries outside any module's genesis, e.g. the wasm TX counter, staking historical info); a suffix transaction that runs out of gas on one side only ends the A/D comparison of that run (counted, not judged).",
			"Export fields excluded from the A/D comparison, each because InitGenesis overwrites it from the import context by design: epochs.epochs[].current_epoch_start_height (x/epochs AddEpochInfo sets it to ctx.BlockHeight() for every imported epoch) - excluded only while superfluid has neither assets nor intermediary accounts, because x/superfluid's begin-blocker keys its epoch-start routine on that field; protorev.cyclic_arb_tracker.{height_accounting_starts_from,cyclic_arb} only when the exported start height is 0 (x/protorev InitGenesis treats 0/empty as 'unset' and re-bases the accounting at the import height; a chain started at height 1 runs InitChain at height 0 and therefore stores 0); ibc.client_genesis.clients[09-localhost].client_state.latest_height right after import only (ibc-go 02-client InitGenesis re-creates the localhost client at the context height; the begin-blocker rewrites it every block).",
			"The genesis_time of the chain restarted from the export is the header time of the last exported block (fields that InitGenesis derives from ctx.BlockTime() therefore coincide; a later genesis_time is a different experiment).",
			"Whole-application export is run on a fresh application object opened over the replica's disk (as `osmosisd export` does in a fresh process). The 08-wasm light-client module of ibc-go keeps its store handle in a package-level variable bound to the application object built last in the process, so exporting from an older object panics (inside a goroutine of the module manager, i.e. unrecoverably); that is an artefact of several application objects per process, not of the application wiring.",
			"The incentives parameter min_value_for_distribution, which the module's default genesis leaves empty (then no lock-based gauge ever pays), is set to the module's documented default of 10000uosmo.",
			"A mismatch is reported after the plan has been re-executed 3 more times on fresh replicas; the report states how often it came back (a dependence on map iteration order shows only with some probability per execution). Replaying a recorded violation executes the plan up to 10 times until it shows again.",
		},
	}
}

var txKinds = []string{"send", "gamm-create", "gamm-join", "gamm-exit", "gamm-swap", "pm-swap", "pm-split", "cl-create-pool", "cl-create-pos", "cl-withdraw", "cl-collect",
	"lock", "unlock", "gauge-create", "gauge-add", "tf-create", "tf-mint", "tf-burn", "tf-admin", "stake-delegate", "stake-undelegate", "stake-withdraw", "sf-delegate", "sf-undelegate", "gamm-ghost-swap", "pm-ghost-swap", "tf-force", "tf-meta"}

var earlyWeights = []int{4, 14, 4, 1, 4, 3, 1, 10, 12, 1, 1, 8, 1, 5, 1, 8, 4, 1, 1, 4, 1, 1, 3, 0, 1, 1, 3, 1}
var lateWeights = []int{6, 4, 5, 4, 10, 10, 5, 3, 8, 5, 6, 7, 5, 5, 4, 3, 5, 3, 2, 4, 3, 3, 3, 2, 1, 1, 4, 2}

func isTx(op string) bool {
	for _, k := range govKinds {
		if k == op {
			return true
		}
	}
	for _, k := range richKinds {
		if k == op {
			return true
		}
	}
	for _, k := range txKinds {
		if k == op {
			return true
		}
	}
	return false
}

func (Engine) Generate(r *simcore.RNG, tier string, idx int) *simcore.Plan {
	p := &simcore.Plan{Config: map[string]int64{}}
	p.Config["accounts"] = r.Range(4, 6)
	p.Config["validators"] = r.Range(2, 3)
	p.Config["maxgas"] = 120_000_000
	if r.Chance(0.1) {
		p.Config["maxgas"] = r.Range(1_500_000, 6_000_000)
	}
	p.Config["mint_reduction"] = 156 // epochs between reductions of the minted amount
	if r.Chance(0.3) {
		p.Config["mint_reduction"] = 3
	}
	// rich profile: non-default module genesis states, administrator messages, more message types
	p.Config["rich"] = 0
	if r.Chance(0.6) {
		p.Config["rich"] = r.Range(1, 1<<20)
	}
	rich := p.Config["rich"] != 0
	p.Config["superfluid"] = int64(r.Intn(2)) // pool 1's shares are a superfluid asset
	sfHeavy := p.Config["superfluid"] == 1 && r.Chance(0.5)
	faults := idx%2 == 1
	p.Config["replica_c"] = 0
	if faults {
		p.Config["replica_c"] = 1
	}
	nb := int(r.Range(15, 40))
	forkAt := -1
	if faults && r.Chance(0.8) {
		forkAt = int(r.Range(3, int64(nb-3)))
	}
	burstAt := -1
	if r.Chance(0.12) {
		burstAt = int(r.Range(2, int64(nb-2)))
	}
	txStep := func(kind string) simcore.Step {
		return simcore.Step{Op: kind, A: []int64{r.Range(0, 5), r.Range(0, 99), r.Range(0, 99), r.Range(0, 99), r.Salt(), r.Salt(), r.Salt(), r.Salt(), r.Range(1, 999)}}
	}
	// the superfluid-enabled pool: pool 1 is a uosmo/uion balancer pool
	setup := txStep("gamm-create")
	setup.A[1], setup.A[2], setup.A[3], setup.A[4] = 0, 0, 0, 0
	p.Steps = append(p.Steps, setup)
	for b := 0; b < nb; b++ {
		if rich && b == 1 {
			// two accounts stake early, so that their governance votes carry weight
			for a := int64(0); a < 2; a++ {
				st := txStep("stake-delegate")
				st.A[0], st.A[1], st.A[2], st.A[3], st.A[7] = a, 0, 0, 0, 1
				p.Steps = append(p.Steps, st)
			}
		}
		if rich && b == 2 && r.Chance(0.5) {
			// an early, expedited taker-fee share agreement proposed and voted by the staked account 0: in force
			// from about block 8 on, so that swaps are skimmed for most of the run
			st := txStep("gov-submit")
			st.A[0], st.A[1], st.A[2], st.A[3], st.A[4], st.A[6], st.A[7] = 0, 0, 0, 0, 0, 1, 3
			p.Steps = append(p.Steps, st)
		}
		if sfHeavy && b >= 1 && b <= 3 {
			// superfluid-heavy prelude: three accounts join pool 1, lock its shares for an hour (longer than the
			// unbonding time) and delegate those locks to the first validator: several synthetic locks behind one
			// synthetic denomination, on locks whose duration differs from the synthetic one
			kind := []string{"", "gamm-join", "lock", "sf-delegate"}[b]
			for a := int64(0); a < 3; a++ {
				st := txStep(kind)
				st.A[0], st.A[1], st.A[2], st.A[3] = a, 0, 0, 0
				switch kind {
				case "gamm-join":
					st.A[4] = 0
				case "lock":
					st.A[5], st.A[6] = 1, 500+a
					st.A = append(st.A, 1)
				case "sf-delegate":
					st.A[6], st.A[7] = 0, 1
					st.A = append(st.A, 1)
				}
				p.Steps = append(p.Steps, st)
			}
		}
		ntx := r.Weighted([]int{15, 30, 25, 18, 12})
		for t := 0; t < ntx; t++ {
			wts := lateWeights
			if b < 6 {
				wts = earlyWeights
			}
			kind := txKinds[r.Weighted(wts)]
			if rich && r.Chance(0.3) {
				rw := richLate
				if b < 6 {
					rw = richEarly
				}
				kind = richKinds[r.Weighted(rw)]
			}
			if rich && r.Chance(0.09) {
				// governance: submissions early, votes throughout
				if b < nb/2 && r.Chance(0.6) {
					kind = "gov-submit"
				} else {
					kind = "gov-vote"
				}
			}
			if sfHeavy && b >= 1 && r.Chance(0.4) {
				// superfluid-heavy profile: several owners join pool 1, lock its shares for various
				// durations and delegate them (new and existing locks) to the few validators
				kind = []string{"gamm-join", "lock", "sf-delegate", "sf-delegate", "sf-delegate", "sf-undelegate"}[r.Intn(6)]
			}
			st := txStep(kind)
			if sfHeavy && kind == "gamm-join" {
				st.A[4] = 0 // pool 1
			}
			if sfHeavy && kind == "lock" && r.Chance(0.7) {
				st.A = append(st.A, 1)
			}
			if sfHeavy && kind == "sf-delegate" {
				st.A = append(st.A, 1) // prefer existing (longer) locks and the first validator: several locks behind one synthetic denomination
			}
			p.Steps = append(p.Steps, st)
		}
		if b == forkAt {
			p.Steps = append(p.Steps, simcore.Step{Op: "fork"})
		}
		blk := simcore.Step{Op: "block"}
		// header time step: mostly seconds, sometimes across one or several epoch boundaries
		switch r.Weighted([]int{70, 24, 6}) {
		case 0:
			blk.A = []int64{r.Range(1, 10_000)}
		case 1:
			blk.A = []int64{r.Range(20_000, 130_000)}
		default:
			blk.A = []int64{r.Range(400_000, 2_000_000)}
		}
		if b < 2 {
			blk.A = []int64{r.Range(1, 3000)}
		}
		blk.A = append(blk.A, r.Range(0, 255)) // which validators' votes are missing
		if r.Chance(0.6) {
			blk.A[1] = 0
		}
		if faults {
			switch r.Weighted([]int{76, 12, 12}) {
			case 1:
				blk.F = "restart"
			case 2:
				blk.F = "crash"
			}
		}
		p.Steps = append(p.Steps, blk)
		if b == burstAt {
			p.Steps = append(p.Steps, simcore.Step{Op: "burst", A: []int64{r.Range(500, 6000)}})
		}
	}
	return p
}

// ---- execution ----

type violation struct {
	oracle, sig, detail string
	step                int
}

func (v *violation) key() string { return "C19/" + v.oracle + "/" + v.sig }

type pendingTx struct {
	st  simcore.Step
	idx int
}

type world struct {
	run           *simcore.Run
	g             *simnet.Genesis
	txCfg         client.TxConfig
	A, B          *simnet.Replica
	C, D          *simnet.Replica
	dLive         bool
	kvDiffPending bool
	now           time.Time
	h             int64
	pend          []pendingTx
	viols         []*violation
	stop          bool // A, B, C have parted ways
	halt          bool
	maxGas        int64
}

func mutateGenesis(mintReduction int64, superfluid bool, rich int64) func(cdc codec.JSONCodec, gs app.GenesisState) {
	return func(cdc codec.JSONCodec, gs app.GenesisState) {
		mutateGenesisWith(cdc, gs, mintReduction, superfluid)
		if rich != 0 {
			richGenesis(cdc, gs, rich)
		}
	}
}

func mutateGenesisWith(cdc codec.JSONCodec, gs app.GenesisState, mintReduction int64, superfluid bool) {
	var tg txfeestypes.GenesisState
	cdc.MustUnmarshalJSON(gs[txfeestypes.ModuleName], &tg)
	tg.Basedenom = "uosmo"
	gs[txfeestypes.ModuleName] = cdc.MustMarshalJSON(&tg)

	var eg epochstypes.GenesisState
	cdc.MustUnmarshalJSON(gs[epochstypes.ModuleName], &eg)
	for i := range eg.Epochs {
		switch eg.Epochs[i].Identifier {
		case "hour":
			eg.Epochs[i].Duration = 30 * time.Second
		case "day":
			eg.Epochs[i].Duration = 100 * time.Second
			// the first day epoch starts after the first blocks, so that the
			// superfluid-enabled pool exists when superfluid first looks at it
			eg.Epochs[i].StartTime = simchain.GenesisTime.Add(15 * time.Second)
		case "week":
			eg.Epochs[i].Duration = 450 * time.Second
		}
	}
	gs[epochstypes.ModuleName] = cdc.MustMarshalJSON(&eg)

	var mg minttypes.GenesisState
	cdc.MustUnmarshalJSON(gs[minttypes.ModuleName], &mg)
	mg.Params.MintDenom = "uosmo"
	mg.Params.EpochIdentifier = "day"
	mg.Params.ReductionPeriodInEpochs = mintReduction
	gs[minttypes.ModuleName] = cdc.MustMarshalJSON(&mg)

	var ig incentivestypes.GenesisState
	cdc.MustUnmarshalJSON(gs[incentivestypes.ModuleName], &ig)
	ig.Params.DistrEpochIdentifier = "day"
	// the module's default genesis leaves this parameter empty, which makes every
	// lock-based distribution skip every reward as "worth too little"
	ig.Params.MinValueForDistribution = incentivestypes.DefaultMinValueForDistr
	ig.LockableDurations = lockDurations
	gs[incentivestypes.ModuleName] = cdc.MustMarshalJSON(&ig)

	var pig poolincentivestypes.GenesisState
	cdc.MustUnmarshalJSON(gs[poolincentivestypes.ModuleName], &pig)
	pig.LockableDurations = lockDurations
	gs[poolincentivestypes.ModuleName] = cdc.MustMarshalJSON(&pig)

	var pg poolmanagertypes.GenesisState
	cdc.MustUnmarshalJSON(gs[poolmanagertypes.ModuleName], &pg)
	pg.Params.TakerFeeParams.DefaultTakerFee = osmomath.MustNewDecFromStr("0.002")
	pg.Params.TakerFeeParams.CommunityPoolDenomToSwapNonWhitelistedAssetsTo = "uion"
	pg.Params.AuthorizedQuoteDenoms = baseDenoms
	gs[poolmanagertypes.ModuleName] = cdc.MustMarshalJSON(&pg)

	var cg clgenesis.GenesisState
	cdc.MustUnmarshalJSON(gs["concentratedliquidity"], &cg)
	cg.Params.IsPermissionlessPoolCreationEnabled = true
	gs["concentratedliquidity"] = cdc.MustMarshalJSON(&cg)

	var sg stakingtypes.GenesisState
	cdc.MustUnmarshalJSON(gs[stakingtypes.ModuleName], &sg)
	sg.Params.UnbondingTime = sfUnbonding
	gs[stakingtypes.ModuleName] = cdc.MustMarshalJSON(&sg)

	var slg slashingtypes.GenesisState
	cdc.MustUnmarshalJSON(gs[slashingtypes.ModuleName], &slg)
	slg.Params.SignedBlocksWindow = 10
	slg.Params.DowntimeJailDuration = 60 * time.Second
	gs[slashingtypes.ModuleName] = cdc.MustMarshalJSON(&slg)

	var sfg superfluidtypes.GenesisState
	cdc.MustUnmarshalJSON(gs[superfluidtypes.ModuleName], &sfg)
	if superfluid {
		sfg.SuperfluidAssets = []superfluidtypes.SuperfluidAsset{{Denom: "gamm/pool/1", AssetType: superfluidtypes.SuperfluidAssetTypeLPShare}}
	}
	gs[superfluidtypes.ModuleName] = cdc.MustMarshalJSON(&sfg)
}

func (Engine) Execute(run *simcore.Run) {
	attempts := 1
	want := ""
	if run.Plan.Violation != nil {
		attempts, want = replayAttempts, run.Plan.Violation.Key()
	}
	has := func(vs []*violation, key string) bool {
		for _, v := range vs {
			if v.key() == key {
				return true
			}
		}
		return false
	}
	var found []*violation
	for a := 0; a < attempts; a++ {
		target := run
		if a > 0 {
			target = simcore.NewRun(run.Plan, run.Props, nil)
			target.KeepTrace = run.KeepTrace
		}
		vs := executeOnce(target)
		if a > 0 && len(vs) > 0 {
			run.Trace = append(run.Trace, fmt.Sprintf("---- execution %d of the replay ----", a+1))
			run.Trace = append(run.Trace, target.Trace...)
		}
		for _, v := range vs {
			if !has(found, v.key()) {
				found = append(found, v)
			}
		}
		if want == "" || has(found, want) {
			break
		}
	}
	unknown := false
	for _, v := range found {
		if run.Known == nil || !run.Known[v.key()] {
			unknown = true
		}
	}
	again := map[string]int{}
	if unknown {
		for i := 0; i < reExecutions; i++ {
			seen := map[string]bool{}
			for _, v := range executeOnce(simcore.NewRun(run.Plan, run.Props, nil)) {
				if !seen[v.key()] {
					seen[v.key()] = true
					again[v.key()]++
				}
			}
		}
	}
	for _, v := range found {
		run.StepIdx = v.step
		if run.Known != nil && run.Known[v.key()] {
			run.Fail("C19", v.oracle, v.sig, "%s", v.detail)
			continue
		}
		run.Fail("C19", v.oracle, v.sig, "%s [the same mismatch came back in %d of %d re-executions of this plan on fresh replicas]", v.detail, again[v.key()], reExecutions)
	}
}

// fail records a mismatch between A, B and C: the replicas have parted ways,
// the run ends.
func (w *world) fail(oracle, sig, format string, a ...interface{}) bool {
	w.report(oracle, sig, format, a...)
	w.stop = true
	return true
}

// report records a violation that leaves the replicas A, B, C comparable (the
// fork oracles): the run goes on.
func (w *world) report(oracle, sig, format string, a ...interface{}) {
	v := &violation{oracle: oracle, sig: sig, detail: fmt.Sprintf(format, a...), step: w.run.StepIdx}
	for _, o := range w.viols {
		if o.key() == v.key() {
			return
		}
	}
	w.viols = append(w.viols, v)
	w.run.Logf("MISMATCH %s %s step=%d %s", oracle, sig, v.step, v.detail)
}

func executeOnce(run *simcore.Run) []*violation {
	p := run.Plan
	fund := sdk.NewCoins()
	for _, d := range baseDenoms {
		fund = fund.Add(sdk.NewCoin(d, osmomath.NewInt(10_000_000_000_000_000)))
	}
	w := &world{run: run, txCfg: app.GetEncodingConfig().TxConfig, maxGas: p.Cfg("maxgas", 120_000_000)}
	w.g = simnet.BuildGenesis(simnet.GenesisConfig{Accounts: int(p.Cfg("accounts", 4)), Validators: int(p.Cfg("validators", 2)), Fund: fund, MaxBlockGas: w.maxGas, Mutate: mutateGenesis(p.Cfg("mint_reduction", 156), p.Cfg("superfluid", 1) == 1, p.Cfg("rich", 0))})
	var err error
	if w.A, err = simnet.NewReplicaFromGenesis("A", w.g); err != nil {
		panic(err)
	}
	if w.B, err = simnet.NewReplicaFromGenesis("B", w.g); err != nil {
		panic(err)
	}
	if p.Cfg("replica_c", 0) == 1 {
		if w.C, err = simnet.NewReplicaFromGenesis("C", w.g); err != nil {
			panic(err)
		}
	}
	if !bytes.Equal(w.A.App.LastCommitID().Hash, w.B.App.LastCommitID().Hash) {
		w.fail("app-hash", "B", "replicas A and B disagree on the app hash right after genesis: %x vs %x", w.A.App.LastCommitID().Hash, w.B.App.LastCommitID().Hash)
		return w.viols
	}
	w.now, w.h = w.g.Time, 1
	run.Logf("genesis accounts=%d validators=%d maxgas=%d hash=%x", len(w.g.Accts), len(w.g.ValAddrs), w.maxGas, w.A.App.LastCommitID().Hash[:8])
	for i, st := range p.Steps {
		run.StepIdx = i
		switch {
		case isTx(st.Op):
			w.pend = append(w.pend, pendingTx{st, i})
		case st.Op == "block":
			w.block(st, time.Duration(st.Arg(0))*time.Millisecond, false)
		case st.Op == "burst":
			// empty blocks up to the next height divisible by 120
			for !w.stop && !w.halt {
				w.block(simcore.Step{Op: "block", A: []int64{st.Arg(0), 0}}, time.Duration(st.Arg(0))*time.Millisecond, true)
				if w.h%120 == 0 {
					break
				}
			}
			if !w.stop && !w.halt {
				run.Fault("height-burst")
				run.Event("burst", "ok")
			}
		case st.Op == "fork":
			w.fork()
		}
		if w.stop || w.halt {
			break
		}
	}
	if !w.stop && !w.halt && w.D != nil && w.dLive {
		w.compareExports("fork-export", "end")
	}
	if p.Cfg("rich", 0) != 0 {
		w.govStats()
	}
	return w.viols
}

// votes builds the last-commit info from A's bonded validator set.
func (w *world) votes(missing int64) ([]abci.VoteInfo, []byte) {
	ctx := w.A.QueryCtx()
	vals, err := w.A.App.StakingKeeper.GetBondedValidatorsByPower(ctx)
	if err != nil {
		panic(err)
	}
	type cv struct {
		addr  []byte
		power int64
	}
	var cvs []cv
	for _, v := range vals {
		ca, err := v.GetConsAddr()
		if err != nil {
			panic(err)
		}
		cvs = append(cvs, cv{ca, v.ConsensusPower(sdk.DefaultPowerReduction)})
	}
	sort.Slice(cvs, func(i, j int) bool { return bytes.Compare(cvs[i].addr, cvs[j].addr) < 0 })
	var out []abci.VoteInfo
	for i, c := range cvs {
		flag := tmproto.BlockIDFlagCommit
		if i > 0 && missing&(1<<uint(i)) != 0 {
			flag = tmproto.BlockIDFlagAbsent
		}
		out = append(out, abci.VoteInfo{Validator: abci.Validator{Address: c.addr, Power: c.power}, BlockIdFlag: flag})
	}
	var proposer []byte
	if len(cvs) > 0 {
		proposer = cvs[int(w.h)%len(cvs)].addr
	}
	return out, proposer
}

// buildTxs turns the pending tx steps into signed transactions.
func (w *world) buildTxs() ([][]byte, []pendingTx) {
	if len(w.pend) == 0 {
		return nil, nil
	}
	v := w.newView()
	bump := map[int]uint64{}
	var txs [][]byte
	var kept []pendingTx
	for _, pt := range w.pend {
		st := pt.st
		sender := v.sender(st)
		msgs := v.build(st, sender)
		if len(msgs) == 0 {
			w.run.Event(st.Op, "skip")
			continue
		}
		if st.Arg(7)%8 == 0 && st.Op != "pm-split" {
			// a second message: a small transfer, or one that cannot be paid, so that
			// the first message's effects must be rolled back with it
			x := pt.st
			x.Op = "send"
			x.A = append([]int64(nil), st.A...)
			x.A[6] = st.Arg(7) / 8 % 50
			msgs = append(msgs, v.build(x, sender)...)
		}
		acc := w.A.App.AccountKeeper.GetAccount(v.ctx, w.g.Accts[sender])
		seq := acc.GetSequence() + bump[sender]
		switch s := st.Arg(3); {
		case s >= 96 && seq > 0:
			seq--
		case s >= 92 && s < 96:
			seq++
		}
		generous := uint64(25_000_000)
		if uint64(w.maxGas) < generous {
			generous = uint64(w.maxGas) * 4 / 5
		}
		gas := generous
		feeFor := func(g uint64) sdk.Coins {
			return sdk.NewCoins(sdk.NewCoin("uosmo", osmomath.NewInt(int64(g)*3/100+1)))
		}
		if st.Arg(1) >= 70 {
			// a fraction of the gas the transaction uses when simulated on A (or of a
			// fixed amount when it cannot be simulated)
			probe, err := simnet.SignTx(w.txCfg, simchain.ChainID, w.g.Privs[sender], acc.GetAccountNumber(), seq, generous, feeFor(generous), "", msgs...)
			if err != nil {
				panic(err)
			}
			base := uint64(400_000)
			if gi, _, err := simulate(w.A, probe); err == nil && gi > 0 {
				base = gi
				w.run.Count("info/simulated-on-A")
			}
			gas = base * uint64(st.Arg(8)%1000) / 1000
			if gas < 1000 {
				gas = 1000
			}
		}
		fee := feeFor(gas)
		switch f := st.Arg(2); {
		case f%7 == 3 && f < 85:
			// pay in a registered non-base fee token when there is one (rich profile: the
			// white-listed setter registers uion through pool 1); generous, the ante handler
			// converts it at the pool's spot price
			if fts := w.A.App.TxFeesKeeper.GetFeeTokens(v.ctx); len(fts) > 0 {
				ft := fts[int(f)%len(fts)]
				fee = sdk.NewCoins(sdk.NewCoin(ft.Denom, fee[0].Amount.MulRaw(1000)))
				w.run.Count("info/fee-paid-in-registered-token")
			}
		case f >= 97:
			fee = sdk.NewCoins(sdk.NewCoin("ufoo", fee[0].Amount)) // not a fee token
		case f >= 93:
			fee = nil
		case f >= 85:
			fee = sdk.NewCoins(sdk.NewCoin("uosmo", fee[0].Amount.SubRaw(2)))
			if !fee.IsAllPositive() {
				fee = nil
			}
		}
		bz, err := simnet.SignTx(w.txCfg, simchain.ChainID, w.g.Privs[sender], acc.GetAccountNumber(), seq, gas, fee, "", msgs...)
		if err != nil {
			panic(err)
		}
		if st.Arg(2) < 85 && st.Arg(3) < 92 && gas >= 90_000 {
			bump[sender]++ // expected to pass the ante handler
		}
		txs = append(txs, bz)
		kept = append(kept, pt)
	}
	w.pend = nil
	return txs, kept
}

func simulate(r *simnet.Replica, tx []byte) (gas uint64, res *sdk.Result, err error) {
	defer func() {
		if x := recover(); x != nil {
			err = fmt.Errorf("panic: %v", x)
		}
	}()
	gi, res, err := r.App.Simulate(tx)
	return gi.GasUsed, res, err
}

func checkTx(r *simnet.Replica, tx []byte) {
	defer func() { recover() }()
	r.App.CheckTx(&abci.RequestCheckTx{Tx: tx, Type: abci.CheckTxType_New})
}

func prepareProposal(r *simnet.Replica, h int64, t time.Time, proposer []byte) (ok bool) {
	defer func() { recover() }()
	_, err := r.App.PrepareProposal(&abci.RequestPrepareProposal{MaxTxBytes: 1 << 20, Height: h, Time: t, ProposerAddress: proposer})
	return err == nil
}

func outcome(t simnet.TxResult) string {
	switch {
	case t.Code == 0:
		return "ok"
	case t.Codespace == "sdk" && t.Code == 11:
		return "oog"
	case t.Codespace == "undefined" && t.Code == 111222:
		return "panic"
	case t.GasUsed == 0 && t.GasWanted == 0:
		return "rejected" // stateless validation / decoding, before the ante handler
	default:
		return "err"
	}
}

// block executes one block on every live replica and compares.
func (w *world) block(st simcore.Step, dt time.Duration, inBurst bool) {
	run := w.run
	if dt <= 0 {
		dt = time.Millisecond
	}
	txs, kept := w.buildTxs()
	votes, proposer := w.votes(st.Arg(1))
	w.h++
	w.now = w.now.Add(dt)
	blk := &simnet.Block{Height: w.h, Time: w.now, Txs: txs, Proposer: proposer, Votes: votes}
	for _, tx := range txs {
		checkTx(w.B, tx) // B learns the transactions through its mempool, A and C only from the block
	}
	if w.h%3 == 0 {
		// B is also asked for a proposal of its own that is never decided (a round that times out): the block-sdk
		// proposal handler runs the ante handlers of the lanes over B's mempool on a branch that is dropped
		if prepareProposal(w.B, w.h, w.now, proposer) {
			run.Fault("undecided-proposal-prepared-on-B")
		}
	}
	ra := w.A.FinalizeAndCommit(blk)
	rb := w.B.FinalizeAndCommit(blk)
	run.Blocks++
	run.SimNanos += int64(dt)
	if ra.Halted() {
		// the reference node cannot execute the block: the chain halts. Whether the
		// other replicas halt the same way is still this property's business.
		if !rb.Halted() {
			w.fail("finalize-outcome", "B", "height %d: A cannot execute the block (err=%v panic=%v) but B can", w.h, ra.Err, ra.Panic)
			return
		}
		run.Probe("chain-halt")
		run.Logf("%d block h=%d HALT err=%v panic=%.200v", run.StepIdx, w.h, ra.Err, ra.Panic)
		w.halt = true
		return
	}
	for i, t := range ra.Txs {
		oc := outcome(t)
		run.Event(kept[i].st.Op, oc)
		if os.Getenv("VERIF_C19_ERRCLASS") != "" && oc == "err" && kept[i].st.Op == os.Getenv("VERIF_C19_ERRCLASS") {
			l := t.Log
			if len(l) > 90 {
				l = l[:90]
			}
			run.Count("info/errclass/" + l)
		}
		if oc == "oog" {
			run.Fault("out-of-gas")
			if len(t.Events) > 0 {
				run.Fault("out-of-gas-in-message-execution") // ante events are kept only when the ante handler passed
			}
		}
		if oc == "panic" {
			run.Probe("tx-panic-recovered")
		}
		why := ""
		if oc == "err" || oc == "rejected" {
			why = fmt.Sprintf(" log=%.140q", t.Log)
		}
		run.Logf("%d   tx %s a=%v -> %s code=%s/%d gas=%d/%d events=%d%s", kept[i].idx, kept[i].st.Op, kept[i].st.A[:4], oc, t.Codespace, t.Code, t.GasUsed, t.GasWanted, len(t.Events), why)
	}
	if len(ra.ValUpdates) > 0 {
		run.Probe("validator-set-update")
	}
	if w.epochTicked(ra) {
		run.Probe("epoch-boundary")
	}
	if n := countEvents(ra.Events, "distribution"); n > 0 {
		run.Probe("gauge-distribution")
		if n > 1 {
			run.Probe("gauge-distribution-to-several-receivers")
		}
	}

	if w.compare("B", ra, rb, w.B, kept) {
		return
	}
	if w.C != nil {
		var rc *simnet.BlockResult
		switch {
		case st.F == "restart" && !inBurst:
			w.C.Restart()
			run.Fault("restart")
			rc = w.C.FinalizeAndCommit(blk)
		case st.F == "crash" && !inBurst:
			first := w.C.Finalize(blk)
			if w.compare("C-before-crash", ra, first, nil, kept) {
				return
			}
			w.C.Restart() // drops the finalized, uncommitted block
			run.Fault("crash-before-commit")
			rc = w.C.FinalizeAndCommit(blk)
		default:
			rc = w.C.FinalizeAndCommit(blk)
		}
		if w.compare("C", ra, rc, w.C, kept) {
			return
		}
	}
	if w.D != nil && w.dLive {
		rd := w.D.FinalizeAndCommit(blk)
		w.compareFork(ra, rd, kept)
		if w.kvDiffPending && !rd.Halted() {
			w.kvDiffPending = false
			w.kvDiff()
		}
	}
	if os.Getenv("VERIF_C19_DEBUG") != "" {
		cnt := map[string]int{}
		for _, e := range ra.Events {
			cnt[e.Type]++
		}
		fmt.Fprintf(os.Stderr, "h=%d t=%s block events: %v\n", w.h, w.now.Sub(w.g.Time), cnt)
		qc := w.A.QueryCtx()
		for _, g := range w.A.App.IncentivesKeeper.GetGauges(qc) {
			fmt.Fprintf(os.Stderr, "   gauge %d to=%v start=%s perpetual=%v coins=%s distributed=%s filled=%d/%d upcoming=%v active=%v\n", g.Id, g.DistributeTo, g.StartTime.Sub(w.g.Time), g.IsPerpetual, g.Coins, g.DistributedCoins, g.FilledEpochs, g.NumEpochsPaidOver, g.IsUpcomingGauge(w.now), g.IsActiveGauge(w.now))
		}
		for i := range w.g.Accts {
			for _, l := range w.A.App.LockupKeeper.GetAccountPeriodLocks(qc, w.g.Accts[i]) {
				fmt.Fprintf(os.Stderr, "   lock %d owner=%d %s dur=%s end=%v\n", l.ID, i, l.Coins, l.Duration, l.EndTime)
			}
		}
	}
	if os.Getenv("VERIF_C19_DEBUG") != "" { // investigation aid: is the poolmanager route cache warm for the next (non-existent) pool id?
		for _, r := range []*simnet.Replica{w.A, w.B, w.C} {
			if r != nil {
				id := r.App.PoolManagerKeeper.GetNextPoolId(r.QueryCtx())
				_, err := r.App.PoolManagerKeeper.GetPoolModule(r.QueryCtx(), id)
				fmt.Fprintf(os.Stderr, "h=%d %s: route cache for non-existent pool %d warm=%v\n", w.h, r.Name, id, err == nil)
			}
		}
	}
	if !inBurst || w.h%120 == 0 {
		run.Logf("%d block h=%d t=%s txs=%d f=%s hash=%x", run.StepIdx, w.h, w.now.Sub(w.g.Time), len(txs), st.F, ra.AppHash[:8])
	}
	if !inBurst {
		run.Event("block", "ok")
	}
}

func (w *world) epochTicked(r *simnet.BlockResult) bool {
	for _, e := range r.Events {
		if e.Type == "epoch_start" || e.Type == "epoch_end" {
			return true
		}
	}
	return false
}

func countEvents(es []abci.Event, typ string) int {
	n := 0
	for _, e := range es {
		if e.Type == typ {
			n++
		}
	}
	return n
}

func eventsDiff(a, b []abci.Event) string {
	if len(a) != len(b) {
		return fmt.Sprintf("%d events vs %d; first: %s | %s", len(a), len(b), evStr(a, firstDiff(a, b)), evStr(b, firstDiff(a, b)))
	}
	if i := firstDiff(a, b); i >= 0 {
		return fmt.Sprintf("event #%d: %s | %s", i, evStr(a, i), evStr(b, i))
	}
	return ""
}

func evEq(x, y abci.Event) bool {
	if x.Type != y.Type || len(x.Attributes) != len(y.Attributes) {
		return false
	}
	for j := range x.Attributes {
		if x.Attributes[j].Key != y.Attributes[j].Key || x.Attributes[j].Value != y.Attributes[j].Value {
			return false
		}
	}
	return true
}

func firstDiff(a, b []abci.Event) int {
	n := len(a)
	if len(b) < n {
		n = len(b)
	}
	for i := 0; i < n; i++ {
		if !evEq(a[i], b[i]) {
			return i
		}
	}
	if len(a) != len(b) {
		return n
	}
	return -1
}

func evStr(es []abci.Event, i int) string {
	if i < 0 || i >= len(es) {
		return "<none>"
	}
	var sb strings.Builder
	sb.WriteString(es[i].Type)
	sb.WriteString("{")
	for j, a := range es[i].Attributes {
		if j > 0 {
			sb.WriteString(",")
		}
		fmt.Fprintf(&sb, "%s=%.80s", a.Key, a.Value)
	}
	sb.WriteString("}")
	return sb.String()
}

// compare checks a replica's block result against A's: bit-identical committed
// state and identical per-transaction results. other==nil skips the store diff.
func (w *world) compare(role string, ra, rb *simnet.BlockResult, other *simnet.Replica, kept []pendingTx) bool {
	if rb.Halted() {
		return w.fail("finalize-outcome", role, "height %d: A executes the block but %s cannot: err=%v panic=%.300v", w.h, role, rb.Err, rb.Panic)
	}
	for i := range ra.Txs {
		x, y := ra.Txs[i], rb.Txs[i]
		field, detail := "", ""
		switch {
		case x.Code != y.Code || x.Codespace != y.Codespace:
			field, detail = "code", fmt.Sprintf("%s/%d vs %s/%d (logs: %.200q | %.200q)", x.Codespace, x.Code, y.Codespace, y.Code, x.Log, y.Log)
		case !bytes.Equal(x.Data, y.Data):
			field, detail = "data", fmt.Sprintf("%x vs %x", x.Data, y.Data)
		case x.GasWanted != y.GasWanted:
			field, detail = "gas-wanted", fmt.Sprintf("%d vs %d", x.GasWanted, y.GasWanted)
		case x.GasUsed != y.GasUsed:
			field, detail = "gas-used", fmt.Sprintf("%d vs %d (code %s/%d; logs: %.200q | %.200q)", x.GasUsed, y.GasUsed, x.Codespace, x.Code, x.Log, y.Log)
		default:
			if d := eventsDiff(x.Events, y.Events); d != "" {
				field, detail = "events", d
			}
		}
		if field != "" {
			// not the end of the run: whether the committed state still agrees is decided by the app hash below
			w.report("tx-result", role+"/"+field+"/"+kept[i].st.Op, "height %d tx %d (%s): replicas A and %s, fed the same blocks, report a different %s: %s", w.h, i, kept[i].st.Op, role, field, detail)
		}
		if x.Log != y.Log && x.Code != 111222 {
			w.run.Count("info/log-differs")
		}
	}
	if !bytes.Equal(ra.AppHash, rb.AppHash) {
		diff := ""
		if other != nil {
			if ds := simnet.DiffStores(w.A, other, 3); len(ds) > 0 {
				if len(ds) > 8 {
					ds = ds[:8]
				}
				diff = "; first differing store entries: " + strings.Join(ds, " || ")
			}
		}
		if w.fail("app-hash", role, "height %d: replicas A and %s, fed the same blocks, commit different state: app hash %x vs %x%s", w.h, role, ra.AppHash, rb.AppHash, diff) {
			return true
		}
	}
	if d := eventsDiff(ra.Events, rb.Events); d != "" {
		w.run.Count("info/block-events-differ")
		w.run.Logf("   info: begin/end-block events of %s differ: %s", role, d)
	}
	if !valUpdatesEq(ra.ValUpdates, rb.ValUpdates) {
		w.run.Count("info/validator-updates-differ")
	}
	return false
}

func valUpdatesEq(a, b []abci.ValidatorUpdate) bool {
	if len(a) != len(b) {
		return false
	}
	for i := range a {
		if a[i].Power != b[i].Power || !a[i].PubKey.Equal(b[i].PubKey) {
			return false
		}
	}
	return true
}

// compareFork checks the forked replica's results for a block of the common
// suffix. A difference ends the A/D comparison of this run (the two chains have
// parted ways) but not the run.
func (w *world) compareFork(ra, rd *simnet.BlockResult, kept []pendingTx) {
	if rd.Halted() {
		w.report("fork-finalize-outcome", "D", "height %d: A executes the block but the replica restarted from A's export cannot: err=%v panic=%.300v", w.h, rd.Err, rd.Panic)
		w.dLive = false
		return
	}
	for i := range ra.Txs {
		x, y := ra.Txs[i], rd.Txs[i]
		if d := x.GasUsed - y.GasUsed; d != 0 {
			if d < 0 {
				d = -d
			}
			w.run.Count("info/fork-gas-differs")
			w.run.Max("max/fork-gas-diff", d)
		}
		if outcome(x) == "oog" || outcome(y) == "oog" {
			if x.Code != y.Code {
				// gas is not comparable across an import; the two chains have
				// legitimately parted ways
				w.run.Count("info/fork-comparison-ended-by-out-of-gas")
				w.dLive = false
				return
			}
			continue
		}
		field, detail := "", ""
		switch {
		case x.Code != y.Code || x.Codespace != y.Codespace:
			field, detail = "code", fmt.Sprintf("%s/%d vs %s/%d (logs: %.300q | %.300q)", x.Codespace, x.Code, y.Codespace, y.Code, x.Log, y.Log)
		case !bytes.Equal(x.Data, y.Data):
			field, detail = "data", fmt.Sprintf("%x vs %x", x.Data, y.Data)
		default:
			if d := eventsDiff(x.Events, y.Events); d != "" {
				field, detail = "events", d
			}
		}
		if field != "" {
			w.report("fork-tx-result", field+"/"+kept[i].st.Op, "height %d tx %d (%s): A and the replica restarted from A's export, fed the same blocks since, report a different %s: %s", w.h, i, kept[i].st.Op, field, detail)
			w.dLive = false
			return
		}
	}
	if d := eventsDiff(ra.Events, rd.Events); d != "" {
		w.run.Count("info/fork-block-events-differ")
		w.run.Logf("   info: begin/end-block events of D differ: %s", d)
	}
}
