package determinism

import (
	"fmt"
	"sort"
	"time"

	sdkmath "cosmossdk.io/math"
	sdk "github.com/cosmos/cosmos-sdk/types"
	authtypes "github.com/cosmos/cosmos-sdk/x/auth/types"
	banktypes "github.com/cosmos/cosmos-sdk/x/bank/types"
	distrtypes "github.com/cosmos/cosmos-sdk/x/distribution/types"
	stakingtypes "github.com/cosmos/cosmos-sdk/x/staking/types"

	"github.com/osmosis-labs/osmosis/osmomath"
	clmodel "github.com/osmosis-labs/osmosis/v31/x/concentrated-liquidity/model"
	cltypes "github.com/osmosis-labs/osmosis/v31/x/concentrated-liquidity/types"
	"github.com/osmosis-labs/osmosis/v31/x/gamm/pool-models/balancer"
	gammtypes "github.com/osmosis-labs/osmosis/v31/x/gamm/types"
	incentivestypes "github.com/osmosis-labs/osmosis/v31/x/incentives/types"
	lockuptypes "github.com/osmosis-labs/osmosis/v31/x/lockup/types"
	poolmanagertypes "github.com/osmosis-labs/osmosis/v31/x/poolmanager/types"
	superfluidtypes "github.com/osmosis-labs/osmosis/v31/x/superfluid/types"
	tftypes "github.com/osmosis-labs/osmosis/v31/x/tokenfactory/types"

	"verif/harness/simcore"
)

var baseDenoms = []string{"uosmo", "uion", "stk", "ufoo"}

var lockDurations = []time.Duration{time.Second, 60 * time.Second, 200 * time.Second, time.Hour}

// sfUnbonding is the staking unbonding time of the simulated chain; superfluid
// locks must be at least that long.
const sfUnbonding = 200 * time.Second

type poolInfo struct {
	id     uint64
	cl     bool
	denoms []string
}

// view is what the proposer (the harness) reads from replica A's committed
// state to turn state-relative step arguments into concrete messages.
type view struct {
	w     *world
	ctx   sdk.Context
	pools []poolInfo
}

func (w *world) newView() *view {
	v := &view{w: w, ctx: w.A.QueryCtx()}
	pm := w.A.App.PoolManagerKeeper
	next := pm.GetNextPoolId(v.ctx)
	for id := uint64(1); id < next; id++ {
		p, err := pm.GetPool(v.ctx, id)
		if err != nil {
			continue
		}
		pi := poolInfo{id: id, cl: p.GetType() == poolmanagertypes.Concentrated, denoms: append([]string(nil), p.GetPoolDenoms(v.ctx)...)}
		sort.Strings(pi.denoms)
		if len(pi.denoms) >= 2 {
			v.pools = append(v.pools, pi)
		}
	}
	return v
}

func (v *view) bal(i int, denom string) osmomath.Int {
	return v.w.A.App.BankKeeper.GetBalance(v.ctx, v.w.g.Accts[i], denom).Amount
}

func (v *view) poolsOf(cl bool) []poolInfo {
	var out []poolInfo
	for _, p := range v.pools {
		if p.cl == cl {
			out = append(out, p)
		}
	}
	return out
}

func pick[T any](xs []T, sel int64) (T, bool) {
	var z T
	if len(xs) == 0 {
		return z, false
	}
	if sel < 0 {
		sel = -sel
	}
	return xs[int(sel%int64(len(xs)))], true
}

func bp(x osmomath.Int, bps int64) osmomath.Int { return x.MulRaw(bps).QuoRaw(10000) }

func otherDenom(p poolInfo, in string) string {
	for _, d := range p.denoms {
		if d != in {
			return d
		}
	}
	return in
}

// swapIn picks an input denom of the pool and a modest amount of it.
func (v *view) swapIn(sender int, p poolInfo, selDenom, selAmt int64) (sdk.Coin, string) {
	in, _ := pick(p.denoms, selDenom)
	out := otherDenom(p, in)
	amt := bp(v.bal(sender, in), selAmt%30+1) // up to 0.3% of the sender's balance
	poolBal := v.w.A.App.BankKeeper.GetBalance(v.ctx, poolmanagertypes.NewPoolAddress(p.id), in).Amount
	if cap := bp(poolBal, 500); cap.IsPositive() && amt.GT(cap) {
		amt = cap
	}
	if !amt.IsPositive() {
		amt = osmomath.NewInt(1000)
	}
	return sdk.NewCoin(in, amt), out
}

// tfDenoms lists the tokenfactory denoms whose admin is the sender.
func (v *view) tfDenoms(sender int) []string {
	k := v.w.A.App.TokenFactoryKeeper
	it := k.GetAllDenomsIterator(v.ctx)
	var all []string
	for ; it.Valid(); it.Next() {
		all = append(all, string(it.Value()))
	}
	it.Close()
	sort.Strings(all)
	var out []string
	for _, d := range all {
		md, err := k.GetAuthorityMetadata(v.ctx, d)
		if err == nil && md.Admin == v.w.g.Accts[sender].String() {
			out = append(out, d)
		}
	}
	return out
}

// sender resolves the step's sender relative to state: for operations on an
// owned object it is the (A[0] mod k)-th of the k accounts that own such an
// object (every tenth step keeps the plain index, so that strangers try too).
func (v *view) sender(st simcore.Step) int {
	w := v.w
	n := len(w.g.Accts)
	plain := int(st.Arg(0)) % n
	if s, ok := v.richSender(st); ok {
		return s
	}
	if st.Arg(7)%10 == 9 {
		return plain
	}
	var has func(i int) bool
	switch st.Op {
	case "cl-withdraw", "cl-collect":
		has = func(i int) bool {
			ps, err := w.A.App.ConcentratedLiquidityKeeper.GetUserPositions(v.ctx, w.g.Accts[i], 0)
			return err == nil && len(ps) > 0
		}
	case "unlock":
		has = func(i int) bool { return len(w.A.App.LockupKeeper.GetAccountPeriodLocks(v.ctx, w.g.Accts[i])) > 0 }
	case "gamm-exit":
		has = func(i int) bool {
			for _, p := range v.poolsOf(false) {
				if v.bal(i, gammtypes.GetPoolShareDenom(p.id)).IsPositive() {
					return true
				}
			}
			return false
		}
	case "tf-mint", "tf-burn", "tf-admin", "tf-force", "tf-meta":
		has = func(i int) bool { return len(v.tfDenoms(i)) > 0 }
	case "stake-undelegate", "stake-withdraw":
		has = func(i int) bool {
			ds, err := w.A.App.StakingKeeper.GetDelegatorDelegations(v.ctx, w.g.Accts[i], 1)
			return err == nil && len(ds) > 0
		}
	case "sf-delegate":
		has = func(i int) bool { return v.bal(i, gammtypes.GetPoolShareDenom(1)).IsPositive() }
	case "sf-undelegate":
		has = func(i int) bool { return len(v.sfLocks(i)) > 0 }
	default:
		return plain
	}
	var el []int
	for i := 0; i < n; i++ {
		if has(i) {
			el = append(el, i)
		}
	}
	if len(el) == 0 {
		return plain
	}
	return el[int(st.Arg(0))%len(el)]
}

func (v *view) sfLocks(i int) []lockuptypes.PeriodLock {
	locks := v.w.A.App.LockupKeeper.GetAccountPeriodLocks(v.ctx, v.w.g.Accts[i])
	sort.Slice(locks, func(a, b int) bool { return locks[a].ID < locks[b].ID })
	var sf []lockuptypes.PeriodLock
	for _, l := range locks {
		if len(l.Coins) == 1 && l.Coins[0].Denom == gammtypes.GetPoolShareDenom(1) && l.Duration >= sfUnbonding {
			sf = append(sf, l)
		}
	}
	return sf
}

// build turns a tx step into messages. nil = nothing sensible to send (skip).
// Arguments: A[4..7] are free selectors x0..x3.
func (v *view) build(st simcore.Step, sender int) []sdk.Msg {
	w := v.w
	n := len(w.g.Accts)
	me := w.g.Accts[sender].String()
	x0, x1, x2, x3 := st.Arg(4), st.Arg(5), st.Arg(6), st.Arg(7)
	one := func(m sdk.Msg) []sdk.Msg { return []sdk.Msg{m} }
	switch st.Op {
	case "send":
		to := w.g.Accts[(sender+1+int(x0%int64(n-1)))%n]
		denom, _ := pick(baseDenoms, x1)
		b := v.bal(sender, denom)
		amt := bp(b, x2%2000).AddRaw(1)
		if x2%25 == 0 {
			amt = b.AddRaw(1) // more than owned: fails inside message execution
		}
		return one(&banktypes.MsgSend{FromAddress: me, ToAddress: to.String(), Amount: sdk.NewCoins(sdk.NewCoin(denom, amt))})
	case "gamm-create":
		d0, _ := pick(baseDenoms, x0)
		d1, _ := pick(baseDenoms, x0/4+1+x0%4)
		if d0 == d1 {
			d1, _ = pick(baseDenoms, x0+1)
		}
		a0 := osmomath.NewInt(1_000_000_000 + x1%90_000_000_000)
		a1 := osmomath.NewInt(1_000_000_000 + x2%90_000_000_000)
		fee := []string{"0", "0.001", "0.003", "0.01"}[x3%4]
		assets := []balancer.PoolAsset{
			{Token: sdk.NewCoin(d0, a0), Weight: osmomath.NewInt(1 + x1%5).MulRaw(100_000)},
			{Token: sdk.NewCoin(d1, a1), Weight: osmomath.NewInt(1 + x2%5).MulRaw(100_000)},
		}
		return one(&balancer.MsgCreateBalancerPool{Sender: me, PoolParams: &balancer.PoolParams{SwapFee: osmomath.MustNewDecFromStr(fee), ExitFee: osmomath.ZeroDec()}, PoolAssets: assets})
	case "gamm-join":
		p, ok := pick(v.poolsOf(false), x0)
		if !ok {
			return nil
		}
		shares := w.A.App.BankKeeper.GetSupply(v.ctx, gammtypes.GetPoolShareDenom(p.id)).Amount
		out := shares.MulRaw(x1%500 + 1).QuoRaw(100000)
		if !out.IsPositive() {
			return nil
		}
		return one(&gammtypes.MsgJoinPool{Sender: me, PoolId: p.id, ShareOutAmount: out})
	case "gamm-exit":
		var mine []poolInfo
		for _, q := range v.poolsOf(false) {
			if v.bal(sender, gammtypes.GetPoolShareDenom(q.id)).IsPositive() {
				mine = append(mine, q)
			}
		}
		if len(mine) == 0 || x1%12 == 0 {
			mine = v.poolsOf(false)
		}
		p, ok := pick(mine, x0)
		if !ok {
			return nil
		}
		have := v.bal(sender, gammtypes.GetPoolShareDenom(p.id))
		in := bp(have, x1%9000+1)
		if !in.IsPositive() {
			in = osmomath.NewInt(1) // not a share holder: fails inside message execution
		}
		return one(&gammtypes.MsgExitPool{Sender: me, PoolId: p.id, ShareInAmount: in})
	case "gamm-ghost-swap", "pm-ghost-swap":
		// a swap through a pool id that does not exist (yet): the next one. A node whose
		// in-memory pool-route cache was warmed by a rolled-back pool creation and a
		// node that has restarted since must still answer alike.
		ghost := w.A.App.PoolManagerKeeper.GetNextPoolId(v.ctx)
		routes := []poolmanagertypes.SwapAmountInRoute{{PoolId: ghost, TokenOutDenom: "uion"}}
		in := sdk.NewCoin("uosmo", osmomath.NewInt(1000+x2%100000))
		if st.Op == "gamm-ghost-swap" {
			return one(&gammtypes.MsgSwapExactAmountIn{Sender: me, Routes: routes, TokenIn: in, TokenOutMinAmount: osmomath.NewInt(1)})
		}
		return one(&poolmanagertypes.MsgSwapExactAmountIn{Sender: me, Routes: routes, TokenIn: in, TokenOutMinAmount: osmomath.NewInt(1)})
	case "gamm-swap":
		p, ok := pick(v.pools, x0)
		if !ok {
			return nil
		}
		in, out := v.swapIn(sender, p, x1, x2)
		return one(&gammtypes.MsgSwapExactAmountIn{Sender: me, Routes: []poolmanagertypes.SwapAmountInRoute{{PoolId: p.id, TokenOutDenom: out}}, TokenIn: in, TokenOutMinAmount: osmomath.NewInt(1)})
	case "pm-swap":
		p, ok := pick(v.pools, x0)
		if !ok {
			return nil
		}
		in, out := v.swapIn(sender, p, x1, x2)
		routes := []poolmanagertypes.SwapAmountInRoute{{PoolId: p.id, TokenOutDenom: out}}
		// second hop through another pool that holds the intermediate denom
		var second []poolInfo
		for _, q := range v.pools {
			if q.id != p.id && contains(q.denoms, out) {
				second = append(second, q)
			}
		}
		if q, ok := pick(second, x3); ok && x3%3 != 0 {
			routes = append(routes, poolmanagertypes.SwapAmountInRoute{PoolId: q.id, TokenOutDenom: otherDenom(q, out)})
		}
		return one(&poolmanagertypes.MsgSwapExactAmountIn{Sender: me, Routes: routes, TokenIn: in, TokenOutMinAmount: osmomath.NewInt(1)})
	case "pm-split":
		p, ok := pick(v.pools, x0)
		if !ok {
			return nil
		}
		in, out := v.swapIn(sender, p, x1, x2)
		half := in.Amount.QuoRaw(2).AddRaw(1)
		r1 := poolmanagertypes.SwapAmountInSplitRoute{Pools: []poolmanagertypes.SwapAmountInRoute{{PoolId: p.id, TokenOutDenom: out}}, TokenInAmount: half}
		// a second pool over the same pair if there is one; otherwise the same
		// pool again, which the message's stateless validation rejects
		r2 := r1
		for _, q := range v.pools {
			if q.id != p.id && contains(q.denoms, in.Denom) && contains(q.denoms, out) {
				r2 = poolmanagertypes.SwapAmountInSplitRoute{Pools: []poolmanagertypes.SwapAmountInRoute{{PoolId: q.id, TokenOutDenom: out}}, TokenInAmount: half}
				break
			}
		}
		return one(&poolmanagertypes.MsgSplitRouteSwapExactAmountIn{Sender: me, Routes: []poolmanagertypes.SwapAmountInSplitRoute{r1, r2}, TokenInDenom: in.Denom, TokenOutMinAmount: osmomath.NewInt(1)})
	case "cl-create-pool":
		d0, _ := pick(baseDenoms, x0)
		d1, _ := pick(baseDenoms, x0/4+1+x0%4)
		if d0 == d1 {
			d1, _ = pick(baseDenoms, x0+1)
		}
		spacing := []uint64{1, 10, 100, 1000}[x1%4]
		sf := []string{"0", "0.0005", "0.001", "0.003"}[x2%4]
		return one(&clmodel.MsgCreateConcentratedPool{Sender: me, Denom0: d0, Denom1: d1, TickSpacing: spacing, SpreadFactor: osmomath.MustNewDecFromStr(sf)})
	case "cl-create-pos":
		p, ok := pick(v.poolsOf(true), x0)
		if !ok {
			return nil
		}
		pool, err := w.A.App.ConcentratedLiquidityKeeper.GetConcentratedPoolById(v.ctx, p.id)
		if err != nil {
			return nil
		}
		sp := int64(pool.GetTickSpacing())
		lower, upper := cltypes.MinInitializedTick, cltypes.MaxTick
		if pool.GetLiquidity().IsPositive() && x1%4 != 0 {
			cur := pool.GetCurrentTick()
			cur -= ((cur % sp) + sp) % sp
			lower = cur + (x1%41-20)*sp*50
			upper = lower + (1+x2%40)*sp*50
			if lower < cltypes.MinInitializedTick {
				lower = cltypes.MinInitializedTick
			}
			if upper > cltypes.MaxTick {
				upper = cltypes.MaxTick
			}
		}
		coins := sdk.NewCoins(sdk.NewCoin(pool.GetToken0(), osmomath.NewInt(1_000_000+x2%1_000_000_000)), sdk.NewCoin(pool.GetToken1(), osmomath.NewInt(1_000_000+x3%1_000_000_000)))
		return one(&cltypes.MsgCreatePosition{PoolId: p.id, Sender: me, LowerTick: lower, UpperTick: upper, TokensProvided: coins, TokenMinAmount0: osmomath.ZeroInt(), TokenMinAmount1: osmomath.ZeroInt()})
	case "cl-withdraw", "cl-collect":
		ps, err := w.A.App.ConcentratedLiquidityKeeper.GetUserPositions(v.ctx, w.g.Accts[sender], 0)
		if err != nil || len(ps) == 0 {
			return nil
		}
		sort.Slice(ps, func(i, j int) bool { return ps[i].PositionId < ps[j].PositionId })
		pos, _ := pick(ps, x0)
		if st.Op == "cl-withdraw" {
			liq := pos.Liquidity
			if x1%3 != 0 {
				liq = liq.MulInt64(x1%9999 + 1).QuoInt64(10000)
			}
			if !liq.IsPositive() {
				liq = pos.Liquidity
			}
			return one(&cltypes.MsgWithdrawPosition{PositionId: pos.PositionId, Sender: me, LiquidityAmount: liq})
		}
		ids := []uint64{pos.PositionId}
		if other, _ := pick(ps, x0+1); other.PositionId != pos.PositionId {
			ids = append(ids, other.PositionId)
		}
		if x1%2 == 0 {
			return one(&cltypes.MsgCollectSpreadRewards{PositionIds: ids, Sender: me})
		}
		return one(&cltypes.MsgCollectIncentives{PositionIds: ids, Sender: me})
	case "lock":
		cands := []string{"stk", "uion"}
		for _, p := range v.poolsOf(false) {
			if d := gammtypes.GetPoolShareDenom(p.id); v.bal(sender, d).IsPositive() {
				cands = append(cands, d)
			}
		}
		denom, _ := pick(cands, x0)
		dur, _ := pick(lockDurations, x1)
		if x1%11 == 0 {
			dur = 100 * time.Second // not one of the lockable durations
		}
		if st.Arg(9) == 1 {
			// superfluid-heavy profile: shares of the superfluid pool, at or above the unbonding time
			denom = gammtypes.GetPoolShareDenom(1)
			dur = []time.Duration{sfUnbonding, time.Hour, time.Hour}[x1%3]
		}
		amt := bp(v.bal(sender, denom), x2%1500+1)
		if !amt.IsPositive() {
			return nil
		}
		return one(&lockuptypes.MsgLockTokens{Owner: me, Duration: dur, Coins: sdk.NewCoins(sdk.NewCoin(denom, amt))})
	case "unlock":
		locks := w.A.App.LockupKeeper.GetAccountPeriodLocks(v.ctx, w.g.Accts[sender])
		sort.Slice(locks, func(i, j int) bool { return locks[i].ID < locks[j].ID })
		l, ok := pick(locks, x0)
		if !ok {
			return nil
		}
		var coins sdk.Coins
		if x1%3 == 0 && len(l.Coins) == 1 {
			if part := bp(l.Coins[0].Amount, x1%9000+1); part.IsPositive() {
				coins = sdk.NewCoins(sdk.NewCoin(l.Coins[0].Denom, part))
			}
		}
		return one(&lockuptypes.MsgBeginUnlocking{Owner: me, ID: l.ID, Coins: coins})
	case "gauge-create":
		coins := sdk.NewCoins(sdk.NewCoin("uosmo", osmomath.NewInt(100_000_000+x1%10_000_000_000)))
		if x1%4 == 0 {
			d, _ := pick(baseDenoms[1:], x1/4)
			coins = coins.Add(sdk.NewCoin(d, osmomath.NewInt(50_000_000+x2%1_000_000_000))) // needs a pool against uosmo, else rejected
		}
		perpetual := x2%2 == 0
		epochs := uint64(1)
		if !perpetual {
			epochs = uint64(1 + x2%4)
		}
		if cl, ok := pick(v.poolsOf(true), x3); ok && x0%3 == 0 {
			return one(&incentivestypes.MsgCreateGauge{IsPerpetual: perpetual, Owner: me, DistributeTo: lockuptypes.QueryCondition{LockQueryType: lockuptypes.NoLock, Duration: time.Nanosecond}, Coins: coins, StartTime: w.now, NumEpochsPaidOver: epochs, PoolId: cl.id})
		}
		cands := []string{"stk", "uion"}
		for _, p := range v.poolsOf(false) {
			cands = append(cands, gammtypes.GetPoolShareDenom(p.id))
		}
		denom, _ := pick(cands, x0)
		dur, _ := pick(lockDurations, x3)
		start := w.now
		if x3%5 == 0 {
			start = start.Add(time.Duration(x3%200) * time.Second) // upcoming gauge
		}
		return one(&incentivestypes.MsgCreateGauge{IsPerpetual: perpetual, Owner: me, DistributeTo: lockuptypes.QueryCondition{LockQueryType: lockuptypes.ByDuration, Denom: denom, Duration: dur}, Coins: coins, StartTime: start, NumEpochsPaidOver: epochs})
	case "gauge-add":
		gs := w.A.App.IncentivesKeeper.GetNotFinishedGauges(v.ctx)
		sort.Slice(gs, func(i, j int) bool { return gs[i].Id < gs[j].Id })
		g, ok := pick(gs, x0)
		if !ok {
			return nil
		}
		return one(&incentivestypes.MsgAddToGauge{Owner: me, GaugeId: g.Id, Rewards: sdk.NewCoins(sdk.NewCoin("uosmo", osmomath.NewInt(10_000_000+x1%1_000_000_000)))})
	case "tf-create":
		return one(&tftypes.MsgCreateDenom{Sender: me, Subdenom: fmt.Sprintf("t%d", x0%6)})
	case "tf-mint", "tf-burn", "tf-admin", "tf-force", "tf-meta":
		d, ok := pick(v.tfDenoms(sender), x0)
		if !ok {
			if x1%4 != 0 {
				return nil
			}
			d = fmt.Sprintf("factory/%s/t%d", w.g.Accts[(sender+1)%n].String(), x0%6) // somebody else's denom (or none): must be refused
		}
		switch st.Op {
		case "tf-mint":
			to := me
			if x2%3 == 0 {
				to = w.g.Accts[(sender+1+int(x2%int64(n-1)))%n].String()
			}
			return one(&tftypes.MsgMint{Sender: me, Amount: sdk.NewCoin(d, osmomath.NewInt(1+x1%1_000_000_000)), MintToAddress: to})
		case "tf-burn":
			have := v.bal(sender, d)
			amt := bp(have, x1%10000+1)
			if !amt.IsPositive() {
				amt = osmomath.NewInt(1)
			}
			return one(&tftypes.MsgBurn{Sender: me, Amount: sdk.NewCoin(d, amt)})
		case "tf-force":
			// the admin moves tokens between two accounts; now and then one end is a module account (must be refused)
			from := me // the admin usually holds what it minted
			if x1%3 == 0 {
				from = w.g.Accts[(sender+int(x1%int64(n)))%n].String()
			}
			to := w.g.Accts[(sender+1+int(x2%int64(n-1)))%n].String()
			if x2%5 == 0 {
				to = authtypes.NewModuleAddress([]string{"gamm", "lockup", "incentives", "distribution", "mint"}[x1%5]).String()
			}
			return one(&tftypes.MsgForceTransfer{Sender: me, Amount: sdk.NewCoin(d, osmomath.NewInt(1+x1%1_000)), TransferFromAddress: from, TransferToAddress: to})
		case "tf-meta":
			return one(&tftypes.MsgSetDenomMetadata{Sender: me, Metadata: banktypes.Metadata{Description: fmt.Sprintf("m%d", x1%7), Base: d, Display: d, Name: d, Symbol: fmt.Sprintf("S%d", x1%7),
				DenomUnits: []*banktypes.DenomUnit{{Denom: d, Exponent: 0}}}})
		default:
			newAdmin := w.g.Accts[(sender+1+int(x2%int64(n-1)))%n].String()
			if x1%4 == 0 {
				newAdmin = "" // the admin renounces: nobody administers the denomination from now on, on any node, restarted or imported
			}
			return one(&tftypes.MsgChangeAdmin{Sender: me, Denom: d, NewAdmin: newAdmin})
		}
	case "stake-delegate":
		val, _ := pick(w.g.ValAddrs, x0)
		return one(&stakingtypes.MsgDelegate{DelegatorAddress: me, ValidatorAddress: val.String(), Amount: sdk.NewCoin("uosmo", osmomath.NewInt(1_000_000+x1%5_000_000_000))})
	case "stake-undelegate":
		val, _ := pick(w.g.ValAddrs, x0)
		del, err := w.A.App.StakingKeeper.GetDelegation(v.ctx, w.g.Accts[sender], val)
		for i := 1; err != nil && i < len(w.g.ValAddrs); i++ {
			val, _ = pick(w.g.ValAddrs, x0+int64(i))
			del, err = w.A.App.StakingKeeper.GetDelegation(v.ctx, w.g.Accts[sender], val)
		}
		if err != nil {
			return nil
		}
		amt := del.Shares.MulInt64(x1%9000 + 1).QuoInt64(10000).TruncateInt()
		if !amt.IsPositive() {
			return nil
		}
		return one(&stakingtypes.MsgUndelegate{DelegatorAddress: me, ValidatorAddress: val.String(), Amount: sdk.NewCoin("uosmo", amt)})
	case "stake-withdraw":
		val, _ := pick(w.g.ValAddrs, x0)
		for i := 1; i < len(w.g.ValAddrs) && x1%7 != 0; i++ {
			if _, err := w.A.App.StakingKeeper.GetDelegation(v.ctx, w.g.Accts[sender], val); err == nil {
				break
			}
			val, _ = pick(w.g.ValAddrs, x0+int64(i))
		}
		return one(&distrtypes.MsgWithdrawDelegatorReward{DelegatorAddress: me, ValidatorAddress: val.String()})
	case "sf-delegate":
		// lock shares of the superfluid-enabled pool (pool 1, listed in the superfluid
		// genesis) for the unbonding period and delegate them
		d := gammtypes.GetPoolShareDenom(1)
		val, _ := pick(w.g.ValAddrs, x0)
		heavy := st.Arg(9) == 1
		if heavy && x3%4 != 0 {
			val = w.g.ValAddrs[0]
		}
		if x2%3 == 0 || (heavy && x2%3 == 1) {
			// delegate an existing lock of these shares instead: its duration may exceed the unbonding time
			var free []lockuptypes.PeriodLock
			for _, l := range v.sfLocks(sender) {
				if !l.IsUnlocking() && w.A.App.SuperfluidKeeper.GetLockIdIntermediaryAccountConnection(v.ctx, l.ID).Empty() {
					free = append(free, l)
				}
			}
			if l, ok := pick(free, x1); ok {
				return one(&superfluidtypes.MsgSuperfluidDelegate{Sender: me, LockId: l.ID, ValAddr: val.String()})
			}
		}
		amt := bp(v.bal(sender, d), x1%5000+1)
		if !amt.IsPositive() {
			return nil
		}
		return one(&superfluidtypes.MsgLockAndSuperfluidDelegate{Sender: me, Coins: sdk.NewCoins(sdk.NewCoin(d, amt)), ValAddr: val.String()})
	case "sf-undelegate":
		sf := v.sfLocks(sender)
		l, ok := pick(sf, x0)
		if !ok {
			return nil
		}
		return one(&superfluidtypes.MsgSuperfluidUndelegate{Sender: me, LockId: l.ID})
	}
	return v.buildRich(st, sender)
}

func contains(xs []string, s string) bool {
	for _, x := range xs {
		if x == s {
			return true
		}
	}
	return false
}

var _ = sdkmath.ZeroInt
