package determinism

import (
	"bytes"
	"encoding/json"
	"fmt"
	"math/big"
	"os"
	"regexp"
	"sort"
	"strings"
	"time"

	"github.com/cosmos/gogoproto/proto"

	"github.com/osmosis-labs/osmosis/osmoutils/accum"
	lockuptypes "github.com/osmosis-labs/osmosis/v31/x/lockup/types"

	"verif/harness/simcore"
	"verif/harness/simnet"
)

// fork initialises replica D from A's export of the last committed block and
// compares what D reports right after the import with what A exported.
func (w *world) fork() {
	if w.D != nil {
		return
	}
	run := w.run
	exp, err := w.A.Export()
	if err != nil {
		w.report("export-runs", "A", "height %d: exporting replica A failed: %v", w.h, err)
		return
	}
	expA, err := simnet.SplitModules(exp.AppState)
	if err != nil {
		w.report("export-runs", "A", "height %d: A's export is not valid JSON: %v", w.h, err)
		return
	}
	// first the way an operator who changes no flag would do it; the replica is thrown away
	d0, err := simnet.NewReplicaFromExport("D0", exp, w.now, false)
	if err != nil {
		sig := "default-flags"
		if strings.Contains(err.Error(), "invariant broken") {
			sig = "default-flags/genesis-invariants" + w.invariantClass(err.Error())
		}
		w.report("import-runs", sig, "height %d: a fresh replica with default flags rejects A's export: %.600v", w.h, err)
	}
	// then with --x-crisis-skip-assert-invariants, as nodes commonly run
	d, err := simnet.NewReplicaFromExport("D", exp, w.now, true)
	if err != nil {
		sig := "skip-genesis-invariants"
		if strings.Contains(err.Error(), "twap record p0 and p1 last spot price must be zero") {
			sig = "skip-genesis-invariants/twap-record-validation"
		}
		w.report("import-runs", sig, "height %d: a fresh replica (genesis invariant checks skipped) rejects A's export: %.600v", w.h, err)
		return
	}
	w.D, w.dLive = d, true
	run.Fault("fork-from-export")
	if d0 != nil {
		// two fresh nodes given the same genesis file must hold bit-identical state: InitGenesis is part of
		// "the same history" (an InitGenesis that ranges over a Go map while writing shows here)
		classes, examples := simnet.DiffStoreClassesCtx(d0, d, d0.PendingCtx(), d.PendingCtx(), nil)
		run.Count("import-twice-compared")
		for _, c := range classes {
			w.report("import-nondeterministic", c, "height %d: two fresh replicas initialised from the same export of A hold different raw state in key class %s: %.300s", w.h, c, examples[c])
		}
	}
	mods := make([]string, 0, len(expA))
	for m := range expA {
		mods = append(mods, m)
	}
	sort.Strings(mods)
	pend, err := d.ExportPending(mods)
	if err != nil {
		w.report("export-runs", "D", "height %d: exporting the freshly imported replica failed: %v", w.h, err)
		return
	}
	expD, err := simnet.CanonModules(pend)
	if err != nil {
		w.report("export-runs", "D", "height %d: D's export is not valid JSON: %v", w.h, err)
		return
	}
	run.Logf("%d fork h=%d export=%dB modules=%d validators=%d", run.StepIdx, w.h, len(exp.AppState), len(mods), len(exp.Validators))
	if w.diffExports("export-roundtrip", "import", expA, expD) {
		// the premise of "fed the same subsequent history" is already gone
		w.dLive = false
		run.Count("info/fork-suffix-not-compared-after-unfaithful-import")
	}
	w.importQueries()
	w.lockupAccumulation()
	if os.Getenv("VERIF_C19_DEBUG") != "" { // investigation aid
		ca, cd := w.A.QueryCtx(), w.D.PendingCtx()
		fmt.Fprintf(os.Stderr, "fork h=%d: incentives gauges upcoming/active: A %d/%d, D %d/%d\n", w.h,
			len(w.A.App.IncentivesKeeper.GetUpcomingGauges(ca)), len(w.A.App.IncentivesKeeper.GetActiveGauges(ca)),
			len(w.D.App.IncentivesKeeper.GetUpcomingGauges(cd)), len(w.D.App.IncentivesKeeper.GetActiveGauges(cd)))
	}
	// raw state right after the import, before D has executed anything: differences are the round trip's own
	w.kvDiff()
	run.Event("fork", "ok")
}

// compareExports exports A and D (whole-application export, fresh application
// object each) and compares them module by module.
func (w *world) compareExports(oracle, phase string) {
	ea, err := w.A.Export()
	if err != nil {
		w.report("export-runs", "A", "height %d: exporting replica A failed: %v", w.h, err)
		return
	}
	ed, err := w.D.Export()
	if err != nil {
		w.report("export-runs", "D", "height %d: exporting replica D failed: %v", w.h, err)
		return
	}
	ma, err := simnet.SplitModules(ea.AppState)
	if err != nil {
		w.report("export-runs", "A", "height %d: A's export is not valid JSON: %v", w.h, err)
		return
	}
	md, err := simnet.SplitModules(ed.AppState)
	if err != nil {
		w.report("export-runs", "D", "height %d: D's export is not valid JSON: %v", w.h, err)
		return
	}
	w.run.Probe("fork-compared-to-the-end")
	w.diffExports(oracle, phase, ma, md)
}

// importQueries compares, right after the import, three pieces of module
// state that no module's genesis carries faithfully (found by diffing the raw
// stores of A and D) but that the modules report through keeper queries: the
// protorev "highest-liquidity pool for a denom pair" index
// (Query/GetProtoRevPool), the pool-incentives gauge -> pool links of no-lock
// gauges (what x/incentives asks at every distribution) and the bank supply
// with offsets (Query/SupplyOf).
func (w *world) importQueries() {
	ca, cd := w.A.QueryCtx(), w.D.PendingCtx()
	for i, acc := range w.g.Accts {
		pa, oka := w.A.App.ValidatorSetPreferenceKeeper.GetValidatorSetPreference(ca, acc.String())
		pd, okd := w.D.App.ValidatorSetPreferenceKeeper.GetValidatorSetPreference(cd, acc.String())
		if oka != okd || fmt.Sprint(pa.Preferences) != fmt.Sprint(pd.Preferences) {
			w.report("import-query", "valsetpref/validator-set-preference", "height %d: validator-set preference of account %d: A reports %v (set=%v); the replica initialised from A's export reports %v (set=%v)", w.h, i, pa.Preferences, oka, pd.Preferences, okd)
			if w.dLive {
				// the preference decides how MsgDelegateToValidatorSet / MsgUndelegateFromValidatorSet execute
				w.dLive = false
				w.run.Count("info/fork-suffix-not-compared-after-unfaithful-import")
			}
			break
		}
	}
	for _, d := range baseDenoms[1:] {
		ia, ea := w.A.App.ProtoRevKeeper.GetPoolForDenomPairNoOrder(ca, "uosmo", d)
		id, ed := w.D.App.ProtoRevKeeper.GetPoolForDenomPairNoOrder(cd, "uosmo", d)
		if ia != id || (ea == nil) != (ed == nil) {
			w.report("import-query", "protorev/pool-for-denom-pair", "height %d: protorev's pool for the pair uosmo/%s: A reports pool %d (err=%v); the replica initialised from A's export reports pool %d (err=%v)", w.h, d, ia, ea, id, ed)
			if w.dLive {
				// routes decide swaps in epoch hooks and message validity
				w.dLive = false
				w.run.Count("info/fork-suffix-not-compared-after-unfaithful-import")
			}
			break
		}
	}
	gauges := w.A.App.IncentivesKeeper.GetGauges(ca)
	sort.Slice(gauges, func(i, j int) bool { return gauges[i].Id < gauges[j].Id })
	for _, g := range gauges {
		if g.DistributeTo.LockQueryType != lockuptypes.NoLock {
			continue
		}
		pa, ea := w.A.App.PoolIncentivesKeeper.GetPoolIdFromGaugeId(ca, g.Id, g.DistributeTo.Duration)
		pd, ed := w.D.App.PoolIncentivesKeeper.GetPoolIdFromGaugeId(cd, g.Id, g.DistributeTo.Duration)
		if pa != pd || (ea == nil) != (ed == nil) {
			w.report("import-query", "poolincentives/pool-for-gauge", "height %d: pool linked to the no-lock gauge %d (duration %s): A reports pool %d (err=%v); the replica initialised from A's export reports pool %d (err=%v)", w.h, g.Id, g.DistributeTo.Duration, pa, ea, pd, ed)
			if w.dLive {
				// without the link the incentives epoch hook fails as a whole
				w.dLive = false
				w.run.Count("info/fork-suffix-not-compared-after-unfaithful-import")
			}
			break
		}
	}
	for _, d := range baseDenoms {
		sa, sd := w.A.App.BankKeeper.GetSupplyWithOffset(ca, d), w.D.App.BankKeeper.GetSupplyWithOffset(cd, d)
		if !sa.Equal(sd) {
			// read by queries only (bank SupplyOf/TotalSupply, mint inflation): D stays comparable
			w.report("import-query", "bank/supply-of", "height %d: bank supply of %s (with offsets): A reports %s, the replica initialised from A's export reports %s", w.h, d, sa, sd)
			break
		}
	}
}

var reSfInvariant = regexp.MustCompile(`lockup delegations: (\d+) != (\d+)\.`)

// invariantClass names the registered invariant that refused the import. The superfluid total-delegation
// invariant demands exact equality between the intermediary accounts' stake and the value of the connected
// locks; it is classed by size, so that only a mismatch of at most one unit per connected lock (the rounding
// drift recorded under C11) falls under the known finding and anything larger is reported.
func (w *world) invariantClass(msg string) string {
	i := strings.Index(msg, "invariant broken: ")
	if i < 0 {
		return ""
	}
	rest := msg[i+len("invariant broken: "):]
	parts := strings.SplitN(rest, ":", 3)
	if len(parts) < 2 {
		return ""
	}
	name := strings.TrimSpace(parts[0]) + "/" + strings.TrimSuffix(strings.Fields(strings.TrimSpace(parts[1]) + " x")[0], "-invariant-name")
	if m := reSfInvariant.FindStringSubmatch(msg); m != nil && strings.HasPrefix(name, "superfluid/") {
		a, _ := new(big.Int).SetString(m[1], 10)
		b, _ := new(big.Int).SetString(m[2], 10)
		conns := int64(len(w.A.App.SuperfluidKeeper.GetAllLockIdIntermediaryAccountConnections(w.A.QueryCtx())))
		if d := new(big.Int).Abs(new(big.Int).Sub(a, b)); d.Cmp(big.NewInt(conns)) <= 0 {
			return "/" + name + "/at-most-one-unit-per-connected-lock"
		}
		ctx := w.A.QueryCtx()
		for _, acc := range w.A.App.SuperfluidKeeper.GetAllIntermediaryAccounts(ctx) {
			if asset, err := w.A.App.SuperfluidKeeper.GetSuperfluidAsset(ctx, acc.Denom); err != nil || asset.Denom != acc.Denom {
				// governance took the denomination off the asset list: its multiplier is zero at once, the stake is only
				// removed by the next epoch refresh; in between the registered invariant does not hold by design
				return "/" + name + "/asset-removed-until-next-refresh"
			}
		}
		return "/" + name + "/beyond-rounding"
	}
	return "/" + name
}

// lockupAccumulation compares what the lockup module reports as locked per denomination and minimum
// duration (the figures gauges distribute by and superfluid sizes its delegations by) for every native
// and synthetic denomination that has locks, and the delegation superfluid expects for every
// intermediary account. InitGenesis rebuilds the accumulation store from the exported locks.
func (w *world) lockupAccumulation() {
	ca, cd := w.A.QueryCtx(), w.D.PendingCtx()
	set := map[string]bool{}
	locks, _ := w.A.App.LockupKeeper.GetPeriodLocks(ca)
	for _, l := range locks {
		for _, c := range l.Coins {
			set[c.Denom] = true
		}
	}
	perSynth := map[string]int{}
	longer := false
	for _, sl := range w.A.App.LockupKeeper.GetAllSyntheticLockups(ca) {
		set[sl.SynthDenom] = true
		perSynth[sl.SynthDenom]++
		if ul, err := w.A.App.LockupKeeper.GetLockByID(ca, sl.UnderlyingLockId); err == nil && ul.Duration != sl.Duration && perSynth[sl.SynthDenom] > 1 {
			longer = true
		}
	}
	if longer {
		w.run.Probe("export-with-synthetic-locks-sharing-a-denom-on-longer-locks")
	}
	for _, c := range perSynth {
		if c > 1 {
			w.run.Probe("export-with-synthetic-locks-sharing-a-denom")
			break
		}
	}
	if len(perSynth) > 0 {
		w.run.Probe("export-with-synthetic-locks")
	}
	denoms := make([]string, 0, len(set))
	for d := range set {
		denoms = append(denoms, d)
	}
	sort.Strings(denoms)
	durs := append([]time.Duration{0, time.Nanosecond}, lockDurations...)
	durs = append(durs, sfUnbonding+time.Second, 2*time.Hour)
	for _, d := range denoms {
		for _, dur := range durs {
			q := lockuptypes.QueryCondition{LockQueryType: lockuptypes.ByDuration, Denom: d, Duration: dur}
			a, b := w.A.App.LockupKeeper.GetPeriodLocksAccumulation(ca, q), w.D.App.LockupKeeper.GetPeriodLocksAccumulation(cd, q)
			if !a.Equal(b) {
				w.report("import-query", "lockup/accumulation", "height %d: amount of %s locked for at least %s: A reports %s, the replica initialised from A's export reports %s", w.h, d, dur, a, b)
				return
			}
		}
	}
	w.run.Count("import-lockup-accumulation-compared")
	accs := w.A.App.SuperfluidKeeper.GetAllIntermediaryAccounts(ca)
	sort.Slice(accs, func(i, j int) bool { return accs[i].GetAccAddress().String() < accs[j].GetAccAddress().String() })
	for _, acc := range accs {
		a, ea := w.A.App.SuperfluidKeeper.GetExpectedDelegationAmount(ca, acc)
		b, eb := w.D.App.SuperfluidKeeper.GetExpectedDelegationAmount(cd, acc)
		if (ea == nil) != (eb == nil) || (ea == nil && !a.Equal(b)) {
			w.report("import-query", "superfluid/expected-delegation", "height %d: delegation expected for the intermediary account of %s to %s: A reports %s (err=%v), the replica initialised from A's export reports %s (err=%v)", w.h, acc.Denom, acc.ValAddr, a, ea, b, eb)
			return
		}
		w.run.Count("import-superfluid-expected-delegation-compared")
	}
}

// rawStateAllowed lists the classes of raw store keys (<store>/<key class>/<only-A|value>) that may differ
// between a node and a node initialised from its export one block later, each with the reason. Keys that
// exist only on the imported node are not judged at all (an import may write defaults explicitly).
var rawStateAllowed = map[string]string{
	"staking/0x61/only-A":           "x/staking validator-updates record of the block being executed: written every end-block for the next ABCI response, not genesis state",
	"ibc/clients/value":             "ibc-go 02-client re-creates the 09-localhost client at the import height (documented under the export oracles)",
	"incentives/0x04/value":         "x/incentives gauge-id reference lists (by status and start time): same ids, appended in import order instead of creation order; gauges themselves are compared field by field by the export oracles",
	"incentives/0x05/value":         "x/incentives gauge-id reference lists by denomination: same ids, appended in import order instead of creation order",
	"staking/0x50/only-A":           "x/staking historical info (block headers of the last N heights): not part of genesis by design",
	"staking/0x50/value":            "x/staking historical info: not part of genesis by design",
	"staking/0x37/only-A":           "x/staking unbonding-id counter and index: same cause as the known finding fork-export/staking/...unbonding_id",
	"staking/0x38/only-A":           "x/staking unbonding-id index: same cause as the known finding fork-export/staking/...unbonding_id",
	"staking/0x39/only-A":           "x/staking unbonding-id index: same cause as the known finding fork-export/staking/...unbonding_id",
	"slashing/0x10/only-A":          "x/slashing missed-block bitmap chunks that are all zero are not exported (no missed block recorded in them)",
	"wasm/0x08/only-A":              "x/wasm TX counter of the current block: transient bookkeeping, not part of genesis by design",
	"bank/0x58/only-A":              "bank supply offsets: reported by the import-query/bank/supply-of oracle (known finding)",
	"bank/0x58/value":               "bank supply offsets: reported by the import-query/bank/supply-of oracle (known finding)",
	"epochs/0x01/value":             "x/epochs current_epoch_start_height is set to the import height: compared field by field by the export oracles (known finding when superfluid is in use)",
	"incentives/0x04/only-A":        "x/incentives gauge references by status and start time: upcoming gauges whose start time has passed are filed as active on import (known finding export-roundtrip/incentives/gauges<order>)",
	"incentives/0x03/only-A":        "x/incentives does not export finished gauges (only not-finished ones are part of its genesis)",
	"twap/0x01/only-A":              "x/twap pruning-in-progress marker: an interrupted pruning pass resumes at the next prune epoch after an import; answers inside the window do not depend on it",
	"twap/0x01/value":               "x/twap pruning-in-progress marker (see above)",
	"lockup/0x20-empty-name/only-A": "lockup accumulation tree opened under the empty denomination by AddTokensToLock / unlock when no synthetic lock exists: never read by any query",
	"lockup/0x20-empty-name/value":  "lockup accumulation tree under the empty denomination (see above)",
	"concentratedliquidity/accum-zero-share-record/only-A": "accumulator position record with zero shares and no unclaimed rewards left behind by a withdrawn position: not exported, not visible to any query",
	"lockup/0x20/only-A":  "lockup accumulation sum-tree nodes: leaves whose amount went back to zero stay in the tree on a running node and are not rebuilt on import; the sums themselves are compared for every denomination and duration by the import-query/lockup/accumulation oracle",
	"lockup/0x20/value":   "lockup accumulation sum-tree nodes (see lockup/0x20/only-A): inner nodes list zero-amount children",
	"protorev/0x12/value": "x/protorev cyclic-arb tracker start height: InitGenesis re-bases a zero start height at the import height (documented under the export oracles)",
	"protorev/0x11/value": "x/protorev cyclic-arb tracker (see protorev/0x12)",
}

// refineRawClass splits two key classes by content: accumulator position records that hold no shares and
// no unclaimed rewards (left behind by fully withdrawn positions; no query can see them).
func refineRawClass(store string, key, va, vb []byte) string {
	if store == "concentratedliquidity" && bytes.HasPrefix(key, []byte("accum||pos||")) && vb == nil {
		var rec accum.Record
		if err := proto.Unmarshal(va, &rec); err == nil && (rec.NumShares.IsNil() || rec.NumShares.IsZero()) && len(rec.UnclaimedRewardsTotal) == 0 {
			return "-zero-share-record"
		}
	}
	return ""
}

// osmosisStores are the KV stores of this repository's own modules: the raw-state oracle judges these.
var osmosisStores = map[string]bool{"concentratedliquidity": true, "gamm": true, "poolmanager": true, "lockup": true, "incentives": true,
	"poolincentives": true, "superfluid": true, "twap": true, "txfees": true, "protorev": true, "tokenfactory": true, "mint": true, "epochs": true,
	"valsetpref": true, "downtimedetector": true, "cosmwasmpool": true, "smartaccount": true, "hooks-for-ibc": true, "rate-limited-ibc": true}

// rawStateSteers lists judged classes whose loss changes how later transactions execute: the fork's suffix
// is no longer comparable once one of them differs.
var rawStateSteers = map[string]bool{"poolmanager/0x0b/only-A": true, "poolmanager/0x0a/only-A": true, "valsetpref/osmo/only-A": true, "concentratedliquidity/0x0e/value": true, "concentratedliquidity/0x0e/only-A": true}

// kvDiff compares the raw stores of A (committed state at the fork height) and of the replica initialised
// from A's export (its state right after InitChain, before it has executed anything): every key that A has and D lacks, or whose value differs, is
// module state that the export/import round trip lost or altered, unless its class is listed in
// rawStateAllowed. This is what makes the fork oracle independent of which genesis fields and queries the
// harness happens to know about.
func (w *world) kvDiff() {
	w.run.Count("import-raw-state-compared")
	classes, examples := simnet.DiffStoreClassesCtx(w.A, w.D, w.A.QueryCtx(), w.D.PendingCtx(), refineRawClass)
	for _, c := range classes {
		if strings.HasSuffix(c, "/only-D") {
			w.run.Count("info/raw-key-class-only-on-imported-node/" + c)
			continue
		}
		if !osmosisStores[strings.SplitN(c, "/", 2)[0]] {
			// stores of cosmos-sdk / ibc / wasm modules are outside the listed anchors (x/*/genesis.go of this
			// repository); their exports are still compared field by field by the export oracles
			w.run.Count("info/raw-key-class-differs-after-import/sdk-store/" + c)
			continue
		}
		if _, ok := rawStateAllowed[c]; ok {
			w.run.Count("info/raw-key-class-differs-after-import/allowed/" + c)
			continue
		}
		w.run.Count("info/raw-key-class-differs-after-import/judged/" + c)
		detail := examples[c]
		if os.Getenv("VERIF_C19_RAW_CALIBRATE") != "" { // calibration aid: count, do not report
			fmt.Fprintf(os.Stderr, "raw-class %s known=%v :: %.200s\n", c, w.knownRawClass(c), detail)
			continue
		}
		w.report("import-raw-state", c, "height %d: right after replica D was initialised from A's export its raw module stores differ from A's in key class %s (state lost or altered by the export/import round trip): %.260s", w.h, c, detail)
		if w.dLive && (rawStateSteers[c] || !w.knownRawClass(c)) {
			w.dLive = false
			w.run.Count("info/fork-suffix-not-compared-after-unfaithful-import")
		}
	}
}

// knownRawClass tells whether an open known finding covers the class (the suffix stays comparable then,
// unless the class steers execution).
func (w *world) knownRawClass(c string) bool {
	return simcore.IsKnown("C19", "import-raw-state", c)
}

// diffExports reports module by module; true when anything differed beyond
// the documented expected differences.
func (w *world) diffExports(oracle, phase string, a, d map[string]string) (differs bool) {
	names := map[string]bool{}
	for m := range a {
		names[m] = true
	}
	for m := range d {
		names[m] = true
	}
	mods := make([]string, 0, len(names))
	for m := range names {
		mods = append(mods, m)
	}
	sort.Strings(mods)
	for _, m := range mods {
		ja, oka := a[m]
		jd, okd := d[m]
		if !oka || !okd {
			w.report(oracle, m+"/<module>", "height %d: module %s is exported by only one of A and D", w.h, m)
			differs = true
			continue
		}
		if ja == jd {
			continue
		}
		na, nd := normalise(m, phase, ja), normalise(m, phase, jd)
		if m == "epochs" && phase == "import" && superfluidInUse(a["superfluid"]) && os.Getenv("VERIF_C19_EXPERIMENT_IGNORE_EPOCH_HEIGHT") == "" {
			// with superfluid assets or delegations the reset start height is not harmless:
			// the superfluid begin-blocker runs its epoch-start routine (move staking rewards
			// to gauges, distribute, recompute the asset multipliers, refresh delegations)
			// whenever height - current_epoch_start_height == 0, i.e. in the first block after
			// the import (at the end of a run the field is a leftover of a fork that was
			// judged harmless)
			na, nd = ja, jd
		}
		if m == "protorev" {
			na, nd = normaliseProtorev(ja, jd)
		}
		if na == nd {
			w.run.Count("info/expected-import-difference/" + m)
			continue
		}
		// one report per class of differing path (array indices dropped), so that a
		// known difference cannot hide another one in the same module
		diffs := simnet.JSONDiff(na, nd, 60)
		what := "right after InitChain from A's export, the new replica exports different module state than A did"
		if phase == "end" {
			what = "after the same blocks since the fork, A and the replica restarted from A's export report different module state"
		}
		var classes []string
		byClass := map[string][]string{}
		for _, df := range diffs {
			c := pathClass(df)
			if _, ok := byClass[c]; !ok {
				classes = append(classes, c)
			}
			if len(byClass[c]) < 3 {
				byClass[c] = append(byClass[c], df)
			}
		}
		if len(classes) > 6 {
			classes = classes[:6]
		}
		for _, c := range classes {
			w.report(oracle, m+"/"+c, "height %d module %s: %s: %s", w.h, m, what, strings.Join(byClass[c], " ; "))
		}
		differs = true
	}
	return differs
}

// pathClass turns "$.a[3].b: x != y" into "a[].b" (a stable class for the signature).
func pathClass(diff string) string {
	p := diff
	if i := strings.Index(p, ": "); i >= 0 {
		p = p[:i]
	}
	p = strings.TrimPrefix(p, "$.")
	var sb strings.Builder
	in := false
	for _, c := range p {
		switch {
		case c == '[':
			in = true
			sb.WriteString("[")
		case c == ']':
			in = false
			sb.WriteString("]")
		case !in:
			sb.WriteRune(c)
		}
	}
	return sb.String()
}

func parse(s string) interface{} {
	dec := json.NewDecoder(bytes.NewReader([]byte(s)))
	dec.UseNumber()
	var v interface{}
	if err := dec.Decode(&v); err != nil {
		return nil
	}
	return v
}

func unparse(v interface{}) string {
	b, _ := json.Marshal(v)
	return string(b)
}

const placeholder = "<set from the import context>"

// normalise blanks the export fields that InitGenesis overwrites from the
// import context by design (see Describe().Assumptions for the justification
// of each).
func normalise(module, phase, js string) string {
	switch module {
	case "epochs":
		// x/epochs keeper AddEpochInfo: epoch.CurrentEpochStartHeight = ctx.BlockHeight()
		v, ok := parse(js).(map[string]interface{})
		if !ok {
			return js
		}
		if es, ok := v["epochs"].([]interface{}); ok {
			for _, e := range es {
				if em, ok := e.(map[string]interface{}); ok {
					if _, has := em["current_epoch_start_height"]; has {
						em["current_epoch_start_height"] = placeholder
					}
				}
			}
		}
		return unparse(v)
	case "ibc":
		if phase != "import" {
			return js
		}
		// ibc-go 02-client InitGenesis re-creates the 09-localhost client at the
		// context height; the client begin-blocker rewrites it every block
		v, ok := parse(js).(map[string]interface{})
		if !ok {
			return js
		}
		cg, _ := v["client_genesis"].(map[string]interface{})
		cs, _ := cg["clients"].([]interface{})
		for _, c := range cs {
			cm, _ := c.(map[string]interface{})
			if cm == nil || cm["client_id"] != "09-localhost" {
				continue
			}
			if st, ok := cm["client_state"].(map[string]interface{}); ok {
				if _, has := st["latest_height"]; has {
					st["latest_height"] = placeholder
				}
			}
		}
		return unparse(v)
	}
	return js
}

func superfluidInUse(sfExport string) bool {
	v, ok := parse(sfExport).(map[string]interface{})
	if !ok {
		return false
	}
	accs, _ := v["intermediary_accounts"].([]interface{})
	assets, _ := v["superfluid_assets"].([]interface{})
	return len(accs) > 0 || len(assets) > 0
}

// normaliseProtorev: x/protorev InitGenesis stores ctx.BlockHeight() as the
// start of profit accounting when the imported value is 0 ("unset").
func normaliseProtorev(ja, jd string) (string, string) {
	va, oka := parse(ja).(map[string]interface{})
	vd, okd := parse(jd).(map[string]interface{})
	if !oka || !okd {
		return ja, jd
	}
	ta, _ := va["cyclic_arb_tracker"].(map[string]interface{})
	td, _ := vd["cyclic_arb_tracker"].(map[string]interface{})
	if ta != nil && td != nil && fmt.Sprint(ta["height_accounting_starts_from"]) == "0" {
		// start height and baseline are one pair: "accounting of cyclic-arbitrage
		// revenue starts at this height from these profits"
		for _, t := range []map[string]interface{}{ta, td} {
			t["height_accounting_starts_from"] = placeholder
			t["cyclic_arb"] = placeholder
		}
	}
	return unparse(va), unparse(vd)
}
