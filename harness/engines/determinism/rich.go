package determinism

// "Rich" profile of the C19 engine: module genesis states that start away from
// their defaults (governance-set parameters, white lists, administrators) and
// transactions that are only meaningful then (administrator-signed messages of
// poolmanager, txfees, protorev, lockup) plus message types the base profile
// does not send (lock extension / receiver / forced unlock, position top-up and
// transfer, stableswap pools, single-asset joins and exits, validator-set
// preferences, smart-account authenticators). The purpose is reach: an export
// field that is always at its default, or a store that no transaction ever
// writes, cannot reveal a lossy export/import or an order-dependent write.

import (
	"fmt"
	"sort"
	"time"

	"github.com/cosmos/cosmos-sdk/codec"
	sdk "github.com/cosmos/cosmos-sdk/types"

	"github.com/osmosis-labs/osmosis/osmomath"
	"github.com/osmosis-labs/osmosis/v31/app"
	cltypes "github.com/osmosis-labs/osmosis/v31/x/concentrated-liquidity/types"
	clgenesis "github.com/osmosis-labs/osmosis/v31/x/concentrated-liquidity/types/genesis"
	"github.com/osmosis-labs/osmosis/v31/x/gamm/pool-models/stableswap"
	gammtypes "github.com/osmosis-labs/osmosis/v31/x/gamm/types"
	incentivestypes "github.com/osmosis-labs/osmosis/v31/x/incentives/types"
	lockuptypes "github.com/osmosis-labs/osmosis/v31/x/lockup/types"
	minttypes "github.com/osmosis-labs/osmosis/v31/x/mint/types"
	poolmanagertypes "github.com/osmosis-labs/osmosis/v31/x/poolmanager/types"
	protorevtypes "github.com/osmosis-labs/osmosis/v31/x/protorev/types"
	smartaccounttypes "github.com/osmosis-labs/osmosis/v31/x/smart-account/types"
	superfluidtypes "github.com/osmosis-labs/osmosis/v31/x/superfluid/types"
	tftypes "github.com/osmosis-labs/osmosis/v31/x/tokenfactory/types"
	twaptypes "github.com/osmosis-labs/osmosis/v31/x/twap/types"
	txfeestypes "github.com/osmosis-labs/osmosis/v31/x/txfees/types"
	valsettypes "github.com/osmosis-labs/osmosis/v31/x/valset-pref/types"

	"verif/harness/simchain"
	"verif/harness/simcore"
)

// richKinds are the transaction kinds of the rich profile (appended to txKinds).
var richKinds = []string{"pm-pairfee", "txf-setfee", "pr-admin", "lock-force", "lock-extend", "lock-receiver", "cl-add", "cl-transfer",
	"gamm-stable", "gamm-joinswap", "gamm-exitswap", "vp-set", "vp-delegate", "vp-undelegate", "sa-add", "sa-remove", "lock-burst"}

var richEarly = []int{3, 4, 3, 1, 1, 1, 1, 1, 4, 2, 1, 3, 2, 1, 2, 1, 2}
var richLate = []int{2, 1, 3, 3, 3, 2, 3, 2, 1, 3, 3, 1, 2, 2, 1, 1, 1}

func acctAddr(i int) string {
	return sdk.AccAddress(simchain.AcctKey(i).PubKey().Address()).String()
}

func dec(s string) osmomath.Dec { return osmomath.MustNewDecFromStr(s) }

// richGenesis moves optional genesis fields away from their defaults. rich is a
// salt drawn by the plan: its bits choose among variants.
func richGenesis(cdc codec.JSONCodec, gs app.GenesisState, rich int64) {
	bit := func(k uint) bool { return rich>>k&1 == 1 }
	admin, second := acctAddr(0), acctAddr(1)

	var pg poolmanagertypes.GenesisState
	cdc.MustUnmarshalJSON(gs[poolmanagertypes.ModuleName], &pg)
	tf := &pg.Params.TakerFeeParams
	tf.OsmoTakerFeeDistribution = poolmanagertypes.TakerFeeDistributionPercentage{StakingRewards: dec("0.5"), CommunityPool: dec("0.3"), Burn: dec("0.2")}
	tf.NonOsmoTakerFeeDistribution = poolmanagertypes.TakerFeeDistributionPercentage{StakingRewards: dec("0.6"), CommunityPool: dec("0.3"), Burn: dec("0.1")}
	if bit(0) {
		tf.OsmoTakerFeeDistribution = poolmanagertypes.TakerFeeDistributionPercentage{StakingRewards: dec("0"), CommunityPool: dec("0"), Burn: dec("1")}
	}
	tf.AdminAddresses = []string{admin}
	tf.ReducedFeeWhitelist = []string{second}
	if bit(1) {
		tf.CommunityPoolDenomWhitelist = []string{"stk"}
	}
	tf.DailyStakingRewardsSmoothingFactor = uint64(1 + rich>>2&3)
	pg.DenomPairTakerFeeStore = []poolmanagertypes.DenomPairTakerFee{
		{TokenInDenom: "uosmo", TokenOutDenom: "uion", TakerFee: dec("0.005")},
		{TokenInDenom: "stk", TokenOutDenom: "ufoo", TakerFee: dec("0")},
	}
	gs[poolmanagertypes.ModuleName] = cdc.MustMarshalJSON(&pg)

	var tg txfeestypes.GenesisState
	cdc.MustUnmarshalJSON(gs[txfeestypes.ModuleName], &tg)
	tg.Params.WhitelistedFeeTokenSetters = []string{admin}
	gs[txfeestypes.ModuleName] = cdc.MustMarshalJSON(&tg)

	var prg protorevtypes.GenesisState
	cdc.MustUnmarshalJSON(gs[protorevtypes.ModuleName], &prg)
	prg.Params.Enabled = true
	prg.Params.Admin = admin
	gs[protorevtypes.ModuleName] = cdc.MustMarshalJSON(&prg)

	var lg lockuptypes.GenesisState
	cdc.MustUnmarshalJSON(gs[lockuptypes.ModuleName], &lg)
	if lg.Params == nil {
		lg.Params = &lockuptypes.Params{}
	}
	lg.Params.ForceUnlockAllowedAddresses = []string{admin}
	gs[lockuptypes.ModuleName] = cdc.MustMarshalJSON(&lg)

	var ig incentivestypes.GenesisState
	cdc.MustUnmarshalJSON(gs[incentivestypes.ModuleName], &ig)
	ig.Params.UnrestrictedCreatorWhitelist = []string{second}
	ig.Params.GroupCreationFee = sdk.NewCoins(sdk.NewCoin("uosmo", osmomath.NewInt(7_000_000)))
	if bit(4) {
		ig.Params.InternalUptime = time.Minute
	}
	gs[incentivestypes.ModuleName] = cdc.MustMarshalJSON(&ig)

	var cg clgenesis.GenesisState
	cdc.MustUnmarshalJSON(gs["concentratedliquidity"], &cg)
	cg.Params.UnrestrictedPoolCreatorWhitelist = []string{admin}
	cg.Params.BalancerSharesRewardDiscount = dec("0.07")
	if bit(5) {
		cg.Params.AuthorizedUptimes = append([]time.Duration{}, cltypes.SupportedUptimes[:3]...)
	}
	if bit(6) {
		// pools on either side of the accumulator-scaling thresholds
		cg.IncentivesAccumulatorPoolIdMigrationThreshold = 3
		cg.SpreadFactorPoolIdMigrationThreshold = 2
	}
	gs["concentratedliquidity"] = cdc.MustMarshalJSON(&cg)

	var twg twaptypes.GenesisState
	cdc.MustUnmarshalJSON(gs[twaptypes.ModuleName], &twg)
	twg.Params.PruneEpochIdentifier = "hour"
	twg.Params.RecordHistoryKeepPeriod = 150 * time.Second
	gs[twaptypes.ModuleName] = cdc.MustMarshalJSON(&twg)

	var mg minttypes.GenesisState
	cdc.MustUnmarshalJSON(gs[minttypes.ModuleName], &mg)
	mg.Params.WeightedDeveloperRewardsReceivers = []minttypes.WeightedAddress{{Address: admin, Weight: dec("0.6")}, {Address: second, Weight: dec("0.3")}, {Address: "", Weight: dec("0.1")}}
	if bit(7) {
		mg.Params.DistributionProportions = minttypes.DistributionProportions{Staking: dec("0.4"), PoolIncentives: dec("0.3"), DeveloperRewards: dec("0.3"), CommunityPool: dec("0")}
	}
	mg.Params.MintingRewardsDistributionStartEpoch = 1 + rich>>8&1
	gs[minttypes.ModuleName] = cdc.MustMarshalJSON(&mg)

	var tfg tftypes.GenesisState
	cdc.MustUnmarshalJSON(gs[tftypes.ModuleName], &tfg)
	if bit(9) {
		tfg.Params.DenomCreationFee = sdk.NewCoins(sdk.NewCoin("uosmo", osmomath.NewInt(3_000_000)))
		tfg.Params.DenomCreationGasConsume = 0
	} else {
		tfg.Params.DenomCreationFee = nil
		tfg.Params.DenomCreationGasConsume = 1_000_000
	}
	gs[tftypes.ModuleName] = cdc.MustMarshalJSON(&tfg)

	var sfg superfluidtypes.GenesisState
	cdc.MustUnmarshalJSON(gs[superfluidtypes.ModuleName], &sfg)
	if bit(10) {
		sfg.Params.MinimumRiskFactor = dec("0.25")
	}
	gs[superfluidtypes.ModuleName] = cdc.MustMarshalJSON(&sfg)

	govGenesis(cdc, gs)

	var sag smartaccounttypes.GenesisState
	cdc.MustUnmarshalJSON(gs[smartaccounttypes.ModuleName], &sag)
	sag.Params.IsSmartAccountActive = true
	sag.Params.CircuitBreakerControllers = []string{admin}
	gs[smartaccounttypes.ModuleName] = cdc.MustMarshalJSON(&sag)
}

// richSender is the account that signs a rich-profile transaction: the
// administrator (account 0) for administrator-only messages, except that every
// tenth comes from somebody else and must be refused.
func (v *view) richSender(st simcore.Step) (int, bool) {
	if s, ok := v.govSender(st); ok {
		return s, true
	}
	n := len(v.w.g.Accts)
	plain := int(st.Arg(0)) % n
	switch st.Op {
	case "pm-pairfee", "txf-setfee", "pr-admin", "lock-force":
		if st.Arg(7)%10 == 9 {
			return plain, true
		}
		return 0, true
	case "lock-extend", "lock-receiver":
		var el []int
		for i := 0; i < n; i++ {
			if len(v.w.A.App.LockupKeeper.GetAccountPeriodLocks(v.ctx, v.w.g.Accts[i])) > 0 {
				el = append(el, i)
			}
		}
		if len(el) == 0 || st.Arg(7)%10 == 9 {
			return plain, true
		}
		return el[int(st.Arg(0))%len(el)], true
	case "cl-add", "cl-transfer":
		var el []int
		for i := 0; i < n; i++ {
			ps, err := v.w.A.App.ConcentratedLiquidityKeeper.GetUserPositions(v.ctx, v.w.g.Accts[i], 0)
			if err == nil && len(ps) > 0 {
				el = append(el, i)
			}
		}
		if len(el) == 0 || st.Arg(7)%10 == 9 {
			return plain, true
		}
		return el[int(st.Arg(0))%len(el)], true
	case "vp-delegate", "vp-undelegate", "sa-remove":
		var el []int
		for i := 0; i < n; i++ {
			if st.Op == "sa-remove" {
				if as, err := v.w.A.App.SmartAccountKeeper.GetAuthenticatorDataForAccount(v.ctx, v.w.g.Accts[i]); err == nil && len(as) > 0 {
					el = append(el, i)
				}
			} else if _, ok := v.w.A.App.ValidatorSetPreferenceKeeper.GetValidatorSetPreference(v.ctx, v.w.g.Accts[i].String()); ok {
				el = append(el, i)
			}
		}
		if len(el) == 0 || st.Arg(7)%10 == 9 {
			return plain, true
		}
		return el[int(st.Arg(0))%len(el)], true
	case "gamm-exitswap":
		var el []int
		for i := 0; i < n; i++ {
			for _, p := range v.poolsOf(false) {
				if v.bal(i, gammtypes.GetPoolShareDenom(p.id)).IsPositive() {
					el = append(el, i)
					break
				}
			}
		}
		if len(el) == 0 {
			return plain, true
		}
		return el[int(st.Arg(0))%len(el)], true
	}
	return 0, false
}

// buildRich turns a rich-profile tx step into messages.
func (v *view) buildRich(st simcore.Step, sender int) []sdk.Msg {
	w := v.w
	n := len(w.g.Accts)
	me := w.g.Accts[sender].String()
	x0, x1, x2, x3 := st.Arg(4), st.Arg(5), st.Arg(6), st.Arg(7)
	one := func(m sdk.Msg) []sdk.Msg { return []sdk.Msg{m} }
	switch st.Op {
	case "pm-pairfee":
		d0, _ := pick(baseDenoms, x0)
		d1, _ := pick(baseDenoms, x0/4+1+x0%4)
		if d0 == d1 {
			d1, _ = pick(baseDenoms, x0+1)
		}
		fee := []string{"0", "0.0005", "0.002", "0.01", "0.05"}[x1%5]
		return one(&poolmanagertypes.MsgSetDenomPairTakerFee{Sender: me, DenomPairTakerFee: []poolmanagertypes.DenomPairTakerFee{{TokenInDenom: d0, TokenOutDenom: d1, TakerFee: dec(fee)}}})
	case "txf-setfee":
		// fee tokens are priced through a pool against the base denom: pool 1 is uosmo/uion
		var fts []txfeestypes.FeeToken
		for _, p := range v.poolsOf(false) {
			if len(p.denoms) == 2 && contains(p.denoms, "uosmo") {
				d := otherDenom(p, "uosmo")
				dup := false
				for _, f := range fts {
					dup = dup || f.Denom == d
				}
				if !dup && (len(fts) == 0 || x1%2 == 0) {
					fts = append(fts, txfeestypes.FeeToken{Denom: d, PoolID: p.id})
				}
			}
		}
		if len(fts) == 0 {
			return nil
		}
		return one(&txfeestypes.MsgSetFeeTokens{FeeTokens: fts, Sender: me})
	case "pr-admin":
		switch x0 % 5 {
		case 0:
			return one(&protorevtypes.MsgSetDeveloperAccount{Admin: me, DeveloperAccount: w.g.Accts[int(x1)%n].String()})
		case 1:
			return one(&protorevtypes.MsgSetMaxPoolPointsPerTx{Admin: me, MaxPoolPointsPerTx: uint64(1 + x1%40)})
		case 2:
			return one(&protorevtypes.MsgSetMaxPoolPointsPerBlock{Admin: me, MaxPoolPointsPerBlock: uint64(50 + x1%300)})
		case 3:
			return one(&protorevtypes.MsgSetInfoByPoolType{Admin: me, InfoByPoolType: protorevtypes.InfoByPoolType{
				Stable:       protorevtypes.StablePoolInfo{Weight: uint64(1 + x1%5)},
				Balancer:     protorevtypes.BalancerPoolInfo{Weight: uint64(1 + x2%5)},
				Concentrated: protorevtypes.ConcentratedPoolInfo{Weight: uint64(1 + x3%5), MaxTicksCrossed: uint64(1 + x1%7)},
				Cosmwasm:     protorevtypes.CosmwasmPoolInfo{},
			}})
		default:
			bds := []protorevtypes.BaseDenom{{Denom: "uosmo", StepSize: osmomath.NewInt(1_000_000)}}
			if x1%2 == 0 {
				bds = append(bds, protorevtypes.BaseDenom{Denom: "uion", StepSize: osmomath.NewInt(1000 + x2%100000)})
			}
			if x1%3 == 0 {
				bds = append(bds, protorevtypes.BaseDenom{Denom: "stk", StepSize: osmomath.NewInt(500_000)})
			}
			return one(&protorevtypes.MsgSetBaseDenoms{Admin: me, BaseDenoms: bds})
		}
	case "lock-force":
		all, err := w.A.App.LockupKeeper.GetPeriodLocks(v.ctx)
		if err != nil || len(all) == 0 {
			return nil
		}
		sort.Slice(all, func(i, j int) bool { return all[i].ID < all[j].ID })
		l, _ := pick(all, x0)
		var coins sdk.Coins
		if x1%3 == 0 && len(l.Coins) == 1 {
			if part := bp(l.Coins[0].Amount, x1%9000+1); part.IsPositive() {
				coins = sdk.NewCoins(sdk.NewCoin(l.Coins[0].Denom, part))
			}
		}
		return one(&lockuptypes.MsgForceUnlock{Owner: me, ID: l.ID, Coins: coins})
	case "lock-extend", "lock-receiver":
		locks := w.A.App.LockupKeeper.GetAccountPeriodLocks(v.ctx, w.g.Accts[sender])
		sort.Slice(locks, func(i, j int) bool { return locks[i].ID < locks[j].ID })
		l, ok := pick(locks, x0)
		if !ok {
			if x1%4 != 0 {
				return nil
			}
			l.ID = uint64(1 + x0%5) // somebody else's lock (or none): must be refused
		}
		if st.Op == "lock-extend" {
			dur, _ := pick(lockDurations, x1)
			var longer []time.Duration
			for _, d := range lockDurations {
				if d > l.Duration {
					longer = append(longer, d)
				}
			}
			if d, ok := pick(longer, x1); ok && x1%5 != 0 {
				dur = d
			}
			return one(&lockuptypes.MsgExtendLockup{Owner: me, ID: l.ID, Duration: dur})
		}
		return one(&lockuptypes.MsgSetRewardReceiverAddress{Owner: me, LockID: l.ID, RewardReceiver: w.g.Accts[(sender+int(x2%int64(n)))%n].String()})
	case "cl-add", "cl-transfer":
		ps, err := w.A.App.ConcentratedLiquidityKeeper.GetUserPositions(v.ctx, w.g.Accts[sender], 0)
		if err != nil || len(ps) == 0 {
			return nil
		}
		sort.Slice(ps, func(i, j int) bool { return ps[i].PositionId < ps[j].PositionId })
		pos, _ := pick(ps, x0)
		if st.Op == "cl-transfer" {
			ids := []uint64{pos.PositionId}
			if other, _ := pick(ps, x0+1); other.PositionId != pos.PositionId && x1%2 == 0 {
				ids = append(ids, other.PositionId)
			}
			sort.Slice(ids, func(i, j int) bool { return ids[i] < ids[j] })
			return one(&cltypes.MsgTransferPositions{PositionIds: ids, Sender: me, NewOwner: w.g.Accts[(sender+1+int(x2%int64(n-1)))%n].String()})
		}
		return one(&cltypes.MsgAddToPosition{PositionId: pos.PositionId, Sender: me, Amount0: osmomath.NewInt(1000 + x1%100_000_000), Amount1: osmomath.NewInt(1000 + x2%100_000_000),
			TokenMinAmount0: osmomath.ZeroInt(), TokenMinAmount1: osmomath.ZeroInt()})
	case "gamm-stable":
		d0, _ := pick(baseDenoms, x0)
		d1, _ := pick(baseDenoms, x0/4+1+x0%4)
		if d0 == d1 {
			d1, _ = pick(baseDenoms, x0+1)
		}
		liq := sdk.NewCoins(sdk.NewCoin(d0, osmomath.NewInt(1_000_000_000+x1%50_000_000_000)), sdk.NewCoin(d1, osmomath.NewInt(1_000_000_000+x2%50_000_000_000)))
		sfs := []uint64{1, uint64(1 + x3%3)}
		fee := []string{"0", "0.001", "0.003"}[x3%3]
		m := stableswap.NewMsgCreateStableswapPool(w.g.Accts[sender], stableswap.PoolParams{SwapFee: dec(fee), ExitFee: osmomath.ZeroDec()}, liq, sfs, "")
		if x1%2 == 0 {
			m.ScalingFactorController = me
		}
		return one(&m)
	case "gamm-joinswap":
		p, ok := pick(v.poolsOf(false), x0)
		if !ok {
			return nil
		}
		d, _ := pick(p.denoms, x1)
		amt := bp(v.bal(sender, d), x2%20+1)
		poolBal := w.A.App.BankKeeper.GetBalance(v.ctx, poolmanagertypes.NewPoolAddress(p.id), d).Amount
		if cap := bp(poolBal, 300); cap.IsPositive() && amt.GT(cap) {
			amt = cap
		}
		if !amt.IsPositive() {
			return nil
		}
		return one(&gammtypes.MsgJoinSwapExternAmountIn{Sender: me, PoolId: p.id, TokenIn: sdk.NewCoin(d, amt), ShareOutMinAmount: osmomath.NewInt(1)})
	case "gamm-exitswap":
		var mine []poolInfo
		for _, q := range v.poolsOf(false) {
			if v.bal(sender, gammtypes.GetPoolShareDenom(q.id)).IsPositive() {
				mine = append(mine, q)
			}
		}
		p, ok := pick(mine, x0)
		if !ok {
			return nil
		}
		have := v.bal(sender, gammtypes.GetPoolShareDenom(p.id))
		in := bp(have, x1%3000+1)
		if !in.IsPositive() {
			return nil
		}
		d, _ := pick(p.denoms, x2)
		return one(&gammtypes.MsgExitSwapShareAmountIn{Sender: me, PoolId: p.id, TokenOutDenom: d, ShareInAmount: in, TokenOutMinAmount: osmomath.NewInt(1)})
	case "vp-set":
		vals := w.g.ValAddrs
		var prefs []valsettypes.ValidatorPreference
		switch {
		case len(vals) >= 3 && x0%3 == 0:
			prefs = []valsettypes.ValidatorPreference{{ValOperAddress: vals[0].String(), Weight: dec("0.5")}, {ValOperAddress: vals[1].String(), Weight: dec("0.3")}, {ValOperAddress: vals[2].String(), Weight: dec("0.2")}}
		case len(vals) >= 2:
			wt := []string{"0.5", "0.25", "0.9", "0.333333333333333333"}[x1%4]
			prefs = []valsettypes.ValidatorPreference{{ValOperAddress: vals[0].String(), Weight: dec(wt)}, {ValOperAddress: vals[1].String(), Weight: osmomath.OneDec().Sub(dec(wt))}}
		default:
			prefs = []valsettypes.ValidatorPreference{{ValOperAddress: vals[0].String(), Weight: osmomath.OneDec()}}
		}
		return one(&valsettypes.MsgSetValidatorSetPreference{Delegator: me, Preferences: prefs})
	case "vp-delegate":
		return one(&valsettypes.MsgDelegateToValidatorSet{Delegator: me, Coin: sdk.NewCoin("uosmo", osmomath.NewInt(1_000_000+x1%3_000_000_000))})
	case "vp-undelegate":
		return one(&valsettypes.MsgUndelegateFromValidatorSet{Delegator: me, Coin: sdk.NewCoin("uosmo", osmomath.NewInt(100_000+x1%1_000_000_000))})
	case "lock-burst":
		// many locks of one denomination with as many different durations in one transaction: the per-denomination
		// accumulation tree then has more leaves than one node holds
		var out []sdk.Msg
		denom, _ := pick([]string{"stk", "uion"}, x0)
		have := v.bal(sender, denom)
		k := 12 + int(x1%6)
		for j := 0; j < k; j++ {
			amt := bp(have, 1+int64(j)%5)
			if !amt.IsPositive() {
				return nil
			}
			out = append(out, &lockuptypes.MsgLockTokens{Owner: me, Duration: time.Duration(3+7*int64(j)+x2%5) * time.Second, Coins: sdk.NewCoins(sdk.NewCoin(denom, amt))})
		}
		return out
	case "sa-add":
		// a second signature authenticator: the account's own key, or another account's key
		pk := w.g.Privs[sender].PubKey()
		if x0%3 == 0 {
			pk = w.g.Privs[(sender+1)%n].PubKey()
		}
		return one(&smartaccounttypes.MsgAddAuthenticator{Sender: me, AuthenticatorType: "SignatureVerification", Data: pk.Bytes()})
	case "sa-remove":
		id := uint64(1 + x0%4)
		if as, err := w.A.App.SmartAccountKeeper.GetAuthenticatorDataForAccount(v.ctx, w.g.Accts[sender]); err == nil && len(as) > 0 && x1%5 != 0 {
			sort.Slice(as, func(i, j int) bool { return as[i].Id < as[j].Id })
			a, _ := pick(as, x0)
			id = a.Id
		}
		return one(&smartaccounttypes.MsgRemoveAuthenticator{Sender: me, Id: id})
	}
	return v.buildGov(st, sender)
}

var _ = fmt.Sprintf
