package classic

import (
	"fmt"
	"math/big"
	"os"
	"sort"
	"strconv"

	abci "github.com/cometbft/cometbft/abci/types"
	sdk "github.com/cosmos/cosmos-sdk/types"

	gammkeeper "github.com/osmosis-labs/osmosis/v31/x/gamm/keeper"
	"github.com/osmosis-labs/osmosis/v31/x/gamm/pool-models/balancer"
	"github.com/osmosis-labs/osmosis/v31/x/gamm/pool-models/stableswap"
	gammtypes "github.com/osmosis-labs/osmosis/v31/x/gamm/types"
	pmtypes "github.com/osmosis-labs/osmosis/v31/x/poolmanager/types"

	"verif/harness/simcore"
)

func routeIn(pool uint64, out string) []pmtypes.SwapAmountInRoute {
	return []pmtypes.SwapAmountInRoute{{PoolId: pool, TokenOutDenom: out}}
}

// ======================= C02 =======================

// snap is every (address, denom) balance in the bank.
type snap map[string]map[string]*big.Int

func (w *world) snapshot(ctx sdk.Context) snap {
	s := snap{}
	w.n.App.BankKeeper.IterateAllBalances(ctx, func(addr sdk.AccAddress, c sdk.Coin) bool {
		k := string(addr)
		if s[k] == nil {
			s[k] = map[string]*big.Int{}
		}
		s[k][c.Denom] = bi(c.Amount)
		return false
	})
	return s
}

func (s snap) get(addr, denom string) *big.Int {
	if m := s[addr]; m != nil {
		if v := m[denom]; v != nil {
			return v
		}
	}
	return new(big.Int)
}

// ledger is the per-message conservation check (iv): per non-share denom the
// balance changes of ALL accounts sum to zero and only the sender, the pools
// named in the message, the taker-fee collector (swaps) and the community
// pool (pool creation fee) change.
func (w *world) ledger(op string, b *built, pre, post snap) bool {
	allowed := map[string]string{string(w.n.Accts[b.sender]): "sender"}
	for _, id := range b.pools {
		if p := w.poolByID(id); p != nil {
			allowed[string(p.addr)] = fmt.Sprintf("pool %d", id)
		}
	}
	if b.swap {
		allowed[string(w.takerAddr)] = "taker-fee collector"
	}
	if b.create {
		allowed[string(w.distrAddr)] = "community pool"
	}
	addrs := map[string]bool{}
	for a := range pre {
		addrs[a] = true
	}
	for a := range post {
		addrs[a] = true
	}
	keys := make([]string, 0, len(addrs))
	for a := range addrs {
		keys = append(keys, a)
	}
	sort.Strings(keys)
	sums := map[string]*big.Int{}
	for _, a := range keys {
		dn := map[string]bool{}
		for d := range pre[a] {
			dn[d] = true
		}
		for d := range post[a] {
			dn[d] = true
		}
		ds := make([]string, 0, len(dn))
		for d := range dn {
			ds = append(ds, d)
		}
		sort.Strings(ds)
		for _, d := range ds {
			delta := new(big.Int).Sub(post.get(a, d), pre.get(a, d))
			if delta.Sign() == 0 {
				continue
			}
			if _, ok := allowed[a]; !ok {
				w.run.Fail("C02", "ledger-bystander", op, "%s: balance of %s at %s changed by %s although it is neither the sender, a pool named in the message, the taker-fee collector nor the pool-creation fee sink", op, d, sdk.AccAddress(a), delta)
				return false
			}
			if sums[d] == nil {
				sums[d] = new(big.Int)
			}
			sums[d].Add(sums[d], delta)
			if a == string(w.takerAddr) {
				w.run.Probe("taker-fee-charged")
				if delta.Sign() < 0 {
					w.run.Fail("C02", "ledger-taker-fee-collector", op, "%s: the taker-fee collector lost %s%s during a user message", op, new(big.Int).Neg(delta), d)
					return false
				}
			}
		}
	}
	ds := make([]string, 0, len(sums))
	for d := range sums {
		ds = append(ds, d)
	}
	sort.Strings(ds)
	for _, d := range ds {
		if isShare(d) {
			continue
		}
		if sums[d].Sign() != 0 {
			w.run.Fail("C02", "ledger-sum", op, "%s: balance changes of %s over all accounts sum to %s, not 0 (units were created or lost)", op, d, sums[d])
			return false
		}
	}
	return true
}

// invariants are checks (i)-(iii), evaluated after every message and block.
func (w *world) invariants(op string) bool { return w.invariantsAt(op, w.n.QueryCtx()) }

func (w *world) invariantsAt(op string, ctx sdk.Context) bool {
	n := w.n
	var poisoned []uint64
	defer func() {
		for _, id := range poisoned {
			w.poison(id)
		}
	}()
	for _, p := range w.pools {
		cp, err := n.App.GAMMKeeper.GetPoolAndPoke(ctx, p.id)
		if err != nil {
			w.run.Fail("C02", "pool-readable", op, "pool %d cannot be read: %v", p.id, err)
			return false
		}
		liq := cp.GetTotalPoolLiquidity(ctx)
		bal := n.AllBalances(ctx, p.addr)
		dn := map[string]bool{}
		for _, c := range liq {
			dn[c.Denom] = true
		}
		for _, c := range bal {
			dn[c.Denom] = true
		}
		for d := range p.don {
			dn[d] = true
		}
		ds := make([]string, 0, len(dn))
		for d := range dn {
			ds = append(ds, d)
		}
		sort.Strings(ds)
		for _, d := range ds {
			want := bi(liq.AmountOf(d))
			if v := p.don[d]; v != nil {
				want = new(big.Int).Add(want, v)
			}
			if got := bi(bal.AmountOf(d)); got.Cmp(want) != 0 {
				sig := op
				don := new(big.Int).Sub(want, bi(liq.AmountOf(d)))
				if w.drained[drainKey(p.id, d)] {
					// a swap of the message just executed paid out the whole reported reserve of d
					sig = "weighted-reserve-emptied-report-stale"
				}
				w.run.Fail("C02", "pool-balance", sig, "after %s: pool %d holds %s%s in the bank, reports reserves %s and received %s directly (expected bank balance %s)", op, p.id, got, d, liq.AmountOf(d), don, want)
				if sig == op {
					return false
				}
				// This class is a recorded finding. The run goes on without the pool
				// (identically whether or not the finding is suppressed, so replays of
				// later violations still reproduce).
				poisoned = append(poisoned, p.id)
				break
			}
		}
		if len(poisoned) > 0 && poisoned[len(poisoned)-1] == p.id {
			continue
		}
		sd := gammtypes.GetPoolShareDenom(p.id)
		if sup, tot := n.Supply(ctx, sd), cp.GetTotalShares(); !sup.Equal(tot) {
			w.run.Fail("C02", "share-supply", op, "pool %d: bank supply of %s is %s, pool reports %s total shares", p.id, sd, sup, tot)
			return false
		}
	}
	for _, d := range w.denoms {
		if got := n.Supply(ctx, d); !got.Equal(w.supply0[d]) {
			w.run.Fail("C02", "token-supply", op, "total supply of %s is %s, was %s at genesis", d, got, w.supply0[d])
			return false
		}
	}
	return true
}

// poison drops a pool hit by the recorded stale-reserve finding from the
// workload and from every later oracle.
func (w *world) poison(id uint64) {
	var keep []*poolInfo
	for _, p := range w.pools {
		if p.id != id {
			keep = append(keep, p)
		}
	}
	w.pools = keep
	w.run.Probe("pool-dropped-after-stale-reserve-finding")
}

func drainKey(id uint64, denom string) string { return fmt.Sprintf("%d:%s", id, denom) }

// ======================= C04 =======================

// pstate is the reference's view of one pool.
type pstate struct {
	id     uint64
	stable bool
	denoms []string
	B      map[string]*big.Int
	S      *big.Int
	wt     map[string]*big.Int // balancer weights
	W      *big.Int
	sf     map[string]*big.Int // stableswap scaling factors
	f      *big.Rat            // spread factor
	x      *big.Rat            // exit fee (legacy pools only)
}

func (s *pstate) clone() *pstate {
	c := *s
	c.B = map[string]*big.Int{}
	for d, v := range s.B {
		c.B[d] = new(big.Int).Set(v)
	}
	c.S = new(big.Int).Set(s.S)
	return &c
}

var decUnit = new(big.Int).Exp(big.NewInt(10), big.NewInt(18), nil)

func (w *world) readPools(ctx sdk.Context) map[uint64]*pstate {
	out := map[uint64]*pstate{}
	for _, p := range w.pools {
		cp, err := w.n.App.GAMMKeeper.GetPoolAndPoke(ctx, p.id)
		if err != nil {
			panic(fmt.Sprintf("harness: known pool %d unreadable: %v", p.id, err))
		}
		s := &pstate{id: p.id, stable: p.stable, denoms: p.denoms, B: map[string]*big.Int{}, S: bi(cp.GetTotalShares())}
		for _, c := range cp.GetTotalPoolLiquidity(ctx) {
			s.B[c.Denom] = bi(c.Amount)
		}
		s.f = new(big.Rat).SetFrac(cp.GetSpreadFactor(ctx).BigInt(), decUnit)
		s.x = new(big.Rat).SetFrac(cp.GetExitFee(ctx).BigInt(), decUnit)
		switch q := cp.(type) {
		case *balancer.Pool:
			s.wt = map[string]*big.Int{}
			for _, a := range q.PoolAssets {
				s.wt[a.Token.Denom] = bi(a.Weight)
			}
			// the total is the sum of the asset weights (the formula normalises by it); the
			// pool's own cached total is deliberately not read
			s.W = new(big.Int)
			for _, a := range q.PoolAssets {
				s.W.Add(s.W, bi(a.Weight))
			}
		case *stableswap.Pool:
			s.sf = map[string]*big.Int{}
			for k, c := range q.PoolLiquidity {
				s.sf[c.Denom] = new(big.Int).SetUint64(q.ScalingFactors[k])
			}
		default:
			panic(fmt.Sprintf("harness: pool %d has unexpected type %T", p.id, cp))
		}
		out[p.id] = s
	}
	return out
}

// poolOp is one pool-level operation reported by the message's events.
type poolOp struct {
	kind string // swap | join | exit
	pool uint64
	in   sdk.Coins
	out  sdk.Coins
}

func parseOps(events []abci.Event) []poolOp {
	var ops []poolOp
	for _, e := range events {
		var kind string
		switch e.Type {
		case gammtypes.TypeEvtTokenSwapped:
			kind = "swap"
		case gammtypes.TypeEvtPoolJoined:
			kind = "join"
		case gammtypes.TypeEvtPoolExited:
			kind = "exit"
		default:
			continue
		}
		op := poolOp{kind: kind}
		for _, a := range e.Attributes {
			switch a.Key {
			case gammtypes.AttributeKeyPoolId:
				id, err := strconv.ParseUint(a.Value, 10, 64)
				if err != nil {
					panic("harness: bad pool id in event: " + a.Value)
				}
				op.pool = id
			case gammtypes.AttributeKeyTokensIn:
				c, err := sdk.ParseCoinsNormalized(a.Value)
				if err != nil {
					panic("harness: bad coins in event: " + a.Value)
				}
				op.in = c
			case gammtypes.AttributeKeyTokensOut:
				c, err := sdk.ParseCoinsNormalized(a.Value)
				if err != nil {
					panic("harness: bad coins in event: " + a.Value)
				}
				op.out = c
			}
		}
		ops = append(ops, op)
	}
	return ops
}

// documented precision of osmomath fractional exponentiation
var powPrec = fStr("0.00000001")
var e18 = fStr("0.000000000000000001")

// powTol bounds |Pow_impl(y,e) - y^e| from the documentation of osmomath.Pow:
// Pow = y^floor(e) * PowApprox(y, frac(e)); PowApprox sums the binomial series
// in x = y-1 until a term is below 1e-8 (the documented precision). For y >= 1
// the series alternates with decreasing terms, so the tail is below 1e-8; for
// y < 1 all terms have one sign and each is at most |x| times the previous one,
// so the tail is below 1e-8*|x|/(1-|x|) (which is <= 1e-8 in the documented
// "small base" regime |x| <= 1/2). The remaining terms are the effect of the
// 18-digit decimal representation of y, of e (relative error relE) and of the
// integer power by repeated multiplication. 1% head-room on the first term.
func powTol(y, e, P, relE *big.Float) *big.Float {
	x := fAbs(fSub(y, fOne))
	amp := nf().Set(fOne)
	if y.Cmp(fOne) < 0 {
		den := fSub(fOne, x)
		if den.Sign() > 0 {
			amp = fMax(fOne, fQuo(x, den))
		}
	}
	fl := fFloor(e)
	I := nf().Set(fOne)
	if fl.Sign() > 0 {
		I = fPow(y, fl)
	}
	t := fMul(fMul(fStr("1.01"), powPrec), fMul(amp, I))
	lnP := fAbs(fLn(P))
	r := fMul(P, fMul(lnP, relE))                      // exponent rounding
	r = fAdd(r, fMul(P, fQuo(fMul(e, e18), y)))        // base rounding
	r = fAdd(r, fMul(P, fMul(fAdd(e, fI64(64)), e18))) // integer power and final rounding
	r = fAdd(r, fMul(fI64(4), e18))
	return fAdd(t, r)
}

// lnRatio returns ln(a/b) for positive big ints (a may be a Float).
func lnRatioF(a, b *big.Float) *big.Float { return fLn(fQuo(a, b)) }

// replay walks the pool operations of one successful message over the
// reference's copy of the pre-state, checks each against the exact formulas,
// and finally requires the copy to equal the real post-state. It returns, per
// pool, the sum of the V/S tolerances granted (used by closed-cycle probes).
func (w *world) replay(op, kind string, pre, post map[uint64]*pstate, ops []poolOp, ctx sdk.Context) (map[uint64]*big.Float, bool) {
	run := w.run
	eps := map[uint64]*big.Float{}
	sh := map[uint64]*pstate{}
	get := func(id uint64) *pstate {
		if s := sh[id]; s != nil {
			return s
		}
		p := pre[id]
		if p == nil {
			return nil
		}
		sh[id] = p.clone()
		return sh[id]
	}
	touched := map[uint64]int{}
	// every reported failure ends the run (known findings included: a replay
	// does not suppress them, so going on would make replays diverge)
	giveUp := func() (map[uint64]*big.Float, bool) { return eps, false }
	fail := func(oracle, format string, a ...interface{}) (map[uint64]*big.Float, bool) {
		run.Fail("C04", oracle, op, format, a...)
		return giveUp()
	}
	drained := map[uint64]bool{}
	// bail gives up on a message whose events the reference cannot follow; the
	// caller turns this into a harness error unless a C02 oracle fires first.
	bail := func(why string) (map[uint64]*big.Float, bool) {
		if w.mismatch == "" {
			w.mismatch = fmt.Sprintf("harness: %s: %s (events %v)", op, why, ops)
		}
		return eps, true
	}
	grant := func(id uint64, e *big.Float) {
		if eps[id] == nil {
			eps[id] = nf()
		}
		eps[id] = fAdd(eps[id], e)
	}
	for _, o := range ops {
		s := get(o.pool)
		if s == nil {
			if kind == "create" {
				continue
			}
			return bail(fmt.Sprintf("event for unknown pool %d", o.pool))
		}
		touched[o.pool]++
		if touched[o.pool] > 1 {
			run.Probe("pool-touched-twice-in-one-message")
		}
		dS := new(big.Int)
		if o.kind != "swap" {
			dS.Sub(post[o.pool].S, pre[o.pool].S)
		}
		switch {
		case o.kind == "swap":
			if len(o.in) != 1 || len(o.out) != 1 {
				return bail("swap event without exactly one coin each side")
			}
			in, out := o.in[0], o.out[0]
			a, q := bi(in.Amount), bi(out.Amount)
			Bi, Bj := s.B[in.Denom], s.B[out.Denom]
			if Bi == nil || Bj == nil {
				return bail("swap event with denom outside the pool")
			}
			if s.stable {
				k0 := stableK(s)
				s.B[in.Denom] = new(big.Int).Add(Bi, a)
				s.B[out.Denom] = new(big.Int).Sub(Bj, q)
				k1 := stableK(s)
				run.Count("c04/stable-swaps-checked")
				if k1.Cmp(k0) < 0 {
					return fail("stableswap-invariant", "stableswap pool %d: swap %s -> %s lowered the invariant prod(a_i)*sum(a_i^2) on scaled reserves: before %s, after %s (reserves now %v)", s.id, in, out, k0.FloatString(6), k1.FloatString(6), s.B)
				}
				if k1.Cmp(k0) == 0 {
					run.Probe("stableswap-invariant-exactly-kept")
				}
				continue
			}
			if q.Cmp(Bj) >= 0 {
				// the whole reserve left the pool: the weighted product is zero, the
				// exact formula differs from this by less than any tolerance; the
				// accounting consequence is C02's business (pool-balance)
				run.Probe("weighted-swap-took-whole-reserve")
				drained[s.id] = true
				if w.drained != nil {
					w.drained[drainKey(s.id, out.Denom)] = true
				}
				s.B[in.Denom] = new(big.Int).Add(Bi, a)
				continue
			}
			exactOut := kind == "swapout"
			e, ok := w.balSwap(s, in.Denom, out.Denom, a, q, exactOut)
			if !ok {
				return giveUp()
			}
			grant(s.id, e)
			s.B[in.Denom] = new(big.Int).Add(Bi, a)
			s.B[out.Denom] = new(big.Int).Sub(Bj, q)
		case o.kind == "join" && len(o.in) == 1 && kind != "joinall":
			c := o.in[0]
			a := bi(c.Amount)
			if s.B[c.Denom] == nil || dS.Sign() <= 0 {
				return bail("single join event inconsistent")
			}
			if !s.stable {
				e, ok := w.balJoinSingle(s, c.Denom, a, dS, kind == "joinout")
				if !ok {
					return giveUp()
				}
				grant(s.id, e)
			} else {
				run.Count("c04/stable-single-joins-seen")
			}
			s.B[c.Denom] = new(big.Int).Add(s.B[c.Denom], a)
			s.S = new(big.Int).Add(s.S, dS)
		case o.kind == "join":
			// all-asset join: shares/S <= in_i/B_i for every asset, exactly
			if dS.Sign() < 0 {
				return bail("join lowered the share total")
			}
			if dS.Sign() == 0 {
				// asking for fewer shares than 1e-18 of the total: the needed tokens are rounded up to
				// whole units, the shares they buy are rounded down to none (the keeper logs and goes on)
				run.Probe("all-asset-join-minted-nothing")
			}
			for _, d := range s.denoms {
				in := bi(o.in.AmountOf(d))
				l := new(big.Int).Mul(dS, s.B[d])
				r := new(big.Int).Mul(in, s.S)
				if l.Cmp(r) > 0 {
					return fail("proportional-join", "pool %d: all-asset join minted %s shares of %s for %s%s of reserve %s: more than the proportional share count floor(%s)", s.id, dS, s.S, in, d, s.B[d], new(big.Int).Quo(r, s.B[d]))
				}
			}
			run.Count("c04/proportional-joins-checked")
			for _, c := range o.in {
				if s.B[c.Denom] == nil {
					return bail("join event with denom outside the pool")
				}
				s.B[c.Denom] = new(big.Int).Add(s.B[c.Denom], bi(c.Amount))
			}
			s.S = new(big.Int).Add(s.S, dS)
		case o.kind == "exit" && kind == "exitout":
			if len(o.out) != 1 || dS.Sign() >= 0 {
				return bail("single exit event inconsistent")
			}
			c := o.out[0]
			burn := new(big.Int).Neg(dS)
			if !s.stable {
				e, ok := w.balExitSingle(s, c.Denom, bi(c.Amount), burn)
				if !ok {
					return giveUp()
				}
				grant(s.id, e)
			}
			s.B[c.Denom] = new(big.Int).Sub(s.B[c.Denom], bi(c.Amount))
			s.S = new(big.Int).Sub(s.S, burn)
		case o.kind == "exit":
			// proportional exit: out_i/B_i <= burned/S for every asset, exactly
			if dS.Sign() >= 0 {
				return bail("exit without burned shares")
			}
			burn := new(big.Int).Neg(dS)
			for _, c := range o.out {
				if s.B[c.Denom] == nil {
					return bail("exit event with denom outside the pool")
				}
				// the exit fee stays in the pool: only burn*(1-x) shares are redeemed
				l := new(big.Rat).SetInt(new(big.Int).Mul(bi(c.Amount), s.S))
				r := new(big.Rat).SetInt(new(big.Int).Mul(burn, s.B[c.Denom]))
				r.Mul(r, new(big.Rat).Sub(big.NewRat(1, 1), s.x))
				if l.Cmp(r) > 0 {
					return fail("proportional-exit", "pool %d (exit fee %s): exit of %s shares of %s paid %s of reserve %s: more than the proportional amount %s", s.id, s.x.FloatString(6), burn, s.S, c, s.B[c.Denom], new(big.Rat).Quo(r, new(big.Rat).SetInt(s.S)).FloatString(3))
				}
				if s.x.Sign() > 0 {
					run.Count("c04/exits-with-exit-fee-checked")
				}
				s.B[c.Denom] = new(big.Int).Sub(s.B[c.Denom], bi(c.Amount))
			}
			run.Count("c04/proportional-exits-checked")
			s.S = new(big.Int).Sub(s.S, burn)
		}
	}
	// the events must explain the whole state change of every pool
	ids := make([]uint64, 0, len(pre))
	for id := range pre {
		ids = append(ids, id)
	}
	sort.Slice(ids, func(i, j int) bool { return ids[i] < ids[j] })
	for _, id := range ids {
		if drained[id] {
			continue
		}
		want := post[id]
		got := sh[id]
		if got == nil {
			got = pre[id]
		}
		same := got.S.Cmp(want.S) == 0
		for _, d := range want.denoms {
			if got.B[d] == nil || got.B[d].Cmp(want.B[d]) != 0 {
				same = false
			}
		}
		if !same && w.mismatch == "" {
			// reported by the caller once the C02 oracles have had their say
			w.mismatch = fmt.Sprintf("harness: %s: events %v do not explain pool %d going from %v/%s to %v/%s (replayed %v/%s)", op, ops, id, pre[id].B, pre[id].S, want.B, want.S, got.B, got.S)
		}
	}
	return eps, true
}

// stableK is prod(a_i)*sum(a_i^2) over scaled reserves a_i = B_i/sf_i, exact.
func stableK(s *pstate) *big.Rat {
	prod := big.NewRat(1, 1)
	sum := new(big.Rat)
	for _, d := range s.denoms {
		a := new(big.Rat).SetFrac(s.B[d], s.sf[d])
		prod.Mul(prod, a)
		sum.Add(sum, new(big.Rat).Mul(a, a))
	}
	return prod.Mul(prod, sum)
}

// slack records how much of the power-precision tolerance the code used in
// the direction that costs the pool (obs > 0).
func (w *world) slack(name string, obs, tol *big.Float) {
	if obs.Sign() > 0 {
		w.run.Max("max/c04-"+name+"-pool-cost-permille-of-tolerance", permille(obs, tol))
	}
}

// vsFall records how far V/S actually fell in units of the power precision.
func (w *world) vsFall(delta *big.Float, ctxt ...interface{}) {
	if delta.Sign() < 0 {
		pm := permille(fAbs(delta), powPrec)
		if debugVS && pm > 100000 {
			fmt.Fprintf(os.Stderr, "VSFALL %s seed=%d step=%d %v\n", fAbs(delta).Text('g', 5), w.run.Plan.Seed, w.run.StepIdx, ctxt)
		}
		w.run.Max("max/c04-vs-fall-permille-of-1e-8", pm)
		if pm > 1000 {
			w.run.Probe("vs-fell-more-than-1e-8-within-tolerance")
			w.run.Logf("   V/S fell by %s (within the granted tolerance)", fAbs(delta).Text('g', 6))
		}
	}
}

var debugVS = os.Getenv("CLASSIC_VSDUMP") != ""

// balSwap checks one weighted-pool swap (a in, q out) at reference state s.
func (w *world) balSwap(s *pstate, din, dout string, a, q *big.Int, exactOut bool) (*big.Float, bool) {
	run := w.run
	Bi, Bj := fInt(s.B[din]), fInt(s.B[dout])
	wi, wj := fInt(s.wt[din]), fInt(s.wt[dout])
	W := fInt(s.W)
	oneMinusF := fSub(fOne, fRat(s.f))
	af, qf := fInt(a), fInt(q)
	var tolQ *big.Float // tolerance on the Pow-derived amount
	var dcorr *big.Float
	if !exactOut {
		// out = B_j * (1 - (B_i/(B_i + a(1-f)))^(w_i/w_j)), truncated
		run.Count("c04/weighted-swaps-in-checked")
		y := fQuo(Bi, fAdd(Bi, fMul(af, oneMinusF)))
		e := fQuo(wi, wj)
		P := fPow(y, e)
		exact := fMul(Bj, fSub(fOne, P))
		tolQ = fMul(Bj, powTol(y, e, P, fQuo(e18, e)))
		diff := fSub(qf, exact)
		w.slack("swap-in", diff, tolQ)
		if diff.Cmp(tolQ) > 0 {
			run.Fail("C04", "weighted-swap-formula", "exact-in", "pool %d: swap of %s%s (reserve %s, weight %s) paid %s%s (reserve %s, weight %s, spread %s): the constant-weighted-product formula gives %s, excess %s above the tolerance %s", s.id, a, din, s.B[din], s.wt[din], q, dout, s.B[dout], s.wt[dout], s.f.FloatString(18), exact.Text('f', 6), diff.Text('g', 12), tolQ.Text('g', 12))
			return nil, false
		}
		if fAdd(diff, fAdd(tolQ, fOne)).Sign() < 0 {
			run.Fail("C04", "weighted-swap-formula", "exact-in-low", "pool %d: swap of %s%s paid only %s%s: the constant-weighted-product formula gives %s, shortfall beyond truncation and the tolerance %s", s.id, a, din, q, dout, exact.Text('f', 6), tolQ.Text('g', 12))
			return nil, false
		}
		// V/S: reserves per share with the out-reserve given back the tolerance
		after := fSub(Bj, qf)
		act := fAdd(fMul(fQuo(wi, W), lnRatioF(fAdd(Bi, af), Bi)), fMul(fQuo(wj, W), lnRatioF(after, Bj)))
		w.vsFall(act, "swap-in", s.id, "a", a, "Bi", s.B[din], "wi", s.wt[din], "q", q, "Bj", s.B[dout], "wj", s.wt[dout], "f", s.f.FloatString(6), "exact", exact.Text('f', 3), "tol", tolQ.Text('g', 6))
		dcorr = fAdd(fMul(fQuo(wi, W), lnRatioF(fAdd(Bi, af), Bi)), fMul(fQuo(wj, W), lnRatioF(fAdd(after, tolQ), Bj)))
		if dcorr.Cmp(fNeg(fEps)) < 0 {
			run.Fail("C04", "weighted-product-per-share", "swap-in", "pool %d: swap %s%s -> %s%s lowered the weighted product of reserves by more than the power precision allows: d ln V = %s even after giving the pool back %s%s", s.id, a, din, q, dout, dcorr.Text('g', 12), tolQ.Text('g', 8), dout)
			return nil, false
		}
		return fSub(dcorr, act), true
	}
	// in = B_i * ((B_j/(B_j - q))^(w_j/w_i) - 1) / (1-f), rounded up
	run.Count("c04/weighted-swaps-out-checked")
	y := fQuo(Bj, fSub(Bj, qf))
	e := fQuo(wj, wi)
	P := fPow(y, e)
	exact := fQuo(fMul(Bi, fSub(P, fOne)), oneMinusF)
	tolQ = fQuo(fMul(Bi, powTol(y, e, P, fQuo(e18, e))), oneMinusF)
	diff := fSub(exact, af) // positive: pool under-collected
	w.slack("swap-out", diff, tolQ)
	if diff.Cmp(tolQ) > 0 {
		run.Fail("C04", "weighted-swap-formula", "exact-out", "pool %d: swap for %s%s (reserve %s, weight %s) charged %s%s (reserve %s, weight %s, spread %s): the constant-weighted-product formula requires %s, short by %s beyond the tolerance %s", s.id, q, dout, s.B[dout], s.wt[dout], a, din, s.B[din], s.wt[din], s.f.FloatString(18), exact.Text('f', 6), diff.Text('g', 12), tolQ.Text('g', 12))
		return nil, false
	}
	if fAdd(diff, fAdd(tolQ, fOne)).Sign() < 0 {
		run.Fail("C04", "weighted-swap-formula", "exact-out-high", "pool %d: swap for %s%s charged %s%s: the constant-weighted-product formula requires only %s, excess beyond rounding up and the tolerance %s", s.id, q, dout, a, din, exact.Text('f', 6), tolQ.Text('g', 12))
		return nil, false
	}
	after := fAdd(Bi, af)
	outTerm := fMul(fQuo(wj, W), lnRatioF(fSub(Bj, qf), Bj))
	act := fAdd(fMul(fQuo(wi, W), lnRatioF(after, Bi)), outTerm)
	w.vsFall(act, "swap-out", s.id, "a", a, "Bi", s.B[din], "wi", s.wt[din], "q", q, "Bj", s.B[dout], "wj", s.wt[dout], "f", s.f.FloatString(6), "exact", exact.Text('f', 3), "tol", tolQ.Text('g', 6))
	dcorr = fAdd(fMul(fQuo(wi, W), lnRatioF(fAdd(after, tolQ), Bi)), outTerm)
	if dcorr.Cmp(fNeg(fEps)) < 0 {
		run.Fail("C04", "weighted-product-per-share", "swap-out", "pool %d: swap %s%s -> %s%s lowered the weighted product of reserves by more than the power precision allows: d ln V = %s even after crediting the pool %s%s", s.id, a, din, q, dout, dcorr.Text('g', 12), tolQ.Text('g', 8), din)
		return nil, false
	}
	return fSub(dcorr, act), true
}

func fNeg(a *big.Float) *big.Float { return nf().Neg(a) }

// balJoinSingle checks a single-asset join of a units of d minting sh shares.
// byShares: the message fixed the shares and the code derived the tokens.
func (w *world) balJoinSingle(s *pstate, d string, a, sh *big.Int, byShares bool) (*big.Float, bool) {
	run := w.run
	B, S := fInt(s.B[d]), fInt(s.S)
	om := fQuo(fInt(s.wt[d]), fInt(s.W)) // normalised weight
	// the spread factor applies to the share of the deposit that is notionally swapped
	phi := fSub(fOne, fMul(fSub(fOne, om), fRat(s.f)))
	af, shf := fInt(a), fInt(sh)
	relE := fQuo(fMul(fI64(2), e18), om)
	if !byShares {
		// shares = S * ((1 + a*phi/B)^om - 1), truncated
		run.Count("c04/weighted-joins-by-tokens-checked")
		y := fAdd(fOne, fQuo(fMul(af, phi), B))
		P := fPow(y, om)
		exact := fMul(S, fSub(P, fOne))
		tolQ := fMul(S, powTol(y, om, P, relE))
		diff := fSub(shf, exact)
		w.slack("join-by-tokens", diff, tolQ)
		if diff.Cmp(tolQ) > 0 {
			run.Fail("C04", "weighted-join-formula", "tokens-in", "pool %d: single-asset join of %s%s (reserve %s, weight %s of %s, spread %s) minted %s shares of %s: the formula gives %s, excess %s above the tolerance %s", s.id, a, d, s.B[d], s.wt[d], s.W, s.f.FloatString(18), sh, s.S, exact.Text('f', 6), diff.Text('g', 12), tolQ.Text('g', 12))
			return nil, false
		}
		if fAdd(diff, fAdd(tolQ, fOne)).Sign() < 0 {
			run.Fail("C04", "weighted-join-formula", "tokens-in-low", "pool %d: single-asset join of %s%s minted only %s shares: the formula gives %s, shortfall beyond truncation and the tolerance %s", s.id, a, d, sh, exact.Text('f', 6), tolQ.Text('g', 12))
			return nil, false
		}
		resTerm := fMul(om, lnRatioF(fAdd(B, af), B))
		act := fSub(resTerm, lnRatioF(fAdd(S, shf), S))
		w.vsFall(act, "join-by-tokens", s.id, "a", a, "B", s.B[d], "w", s.wt[d], "W", s.W, "sh", sh, "S", s.S, "f", s.f.FloatString(6), "exact", exact.Text('f', 3), "tol", tolQ.Text('g', 6))
		corrS := fSub(fAdd(S, shf), tolQ)
		if corrS.Sign() <= 0 {
			run.Probe("vs-check-vacuous")
			return fAbs(act), true
		}
		dcorr := fSub(resTerm, lnRatioF(corrS, S))
		if dcorr.Cmp(fNeg(fEps)) < 0 {
			run.Fail("C04", "weighted-product-per-share", "join-by-tokens", "pool %d: single-asset join %s%s for %s shares lowered the weighted product per share by more than the power precision allows: d ln(V/S) = %s even with %s fewer shares", s.id, a, d, sh, dcorr.Text('g', 12), tolQ.Text('g', 8))
			return nil, false
		}
		return fSub(dcorr, act), true
	}
	// tokens = B * ((1 + sh/S)^(1/om) - 1) / phi, rounded up
	run.Count("c04/weighted-joins-by-shares-checked")
	y := fAdd(fOne, fQuo(shf, S))
	e := fQuo(fOne, om)
	P := fPow(y, e)
	exact := fQuo(fMul(B, fSub(P, fOne)), phi)
	tolQ := fQuo(fMul(B, powTol(y, e, P, relE)), phi)
	diff := fSub(exact, af) // positive: under-collected
	w.slack("join-by-shares", diff, tolQ)
	if diff.Cmp(tolQ) > 0 {
		run.Fail("C04", "weighted-join-formula", "shares-out", "pool %d: join for %s shares of %s charged %s%s (reserve %s, weight %s of %s, spread %s): the formula requires %s, short by %s beyond the tolerance %s", s.id, sh, s.S, a, d, s.B[d], s.wt[d], s.W, s.f.FloatString(18), exact.Text('f', 6), diff.Text('g', 12), tolQ.Text('g', 12))
		return nil, false
	}
	if fAdd(diff, fAdd(tolQ, fOne)).Sign() < 0 {
		run.Fail("C04", "weighted-join-formula", "shares-out-high", "pool %d: join for %s shares charged %s%s: the formula requires only %s, excess beyond rounding up and the tolerance %s", s.id, sh, a, d, exact.Text('f', 6), tolQ.Text('g', 12))
		return nil, false
	}
	shTerm := lnRatioF(fAdd(S, shf), S)
	act := fSub(fMul(om, lnRatioF(fAdd(B, af), B)), shTerm)
	w.vsFall(act, "join-by-shares", s.id, "a", a, "B", s.B[d], "w", s.wt[d], "W", s.W, "sh", sh, "S", s.S, "f", s.f.FloatString(6), "exact", exact.Text('f', 3), "tol", tolQ.Text('g', 6))
	dcorr := fSub(fMul(om, lnRatioF(fAdd(fAdd(B, af), tolQ), B)), shTerm)
	if dcorr.Cmp(fNeg(fEps)) < 0 {
		run.Fail("C04", "weighted-product-per-share", "join-by-shares", "pool %d: join for %s shares paying %s%s lowered the weighted product per share by more than the power precision allows: d ln(V/S) = %s even after crediting the pool %s%s", s.id, sh, a, d, dcorr.Text('g', 12), tolQ.Text('g', 8), d)
		return nil, false
	}
	return fSub(dcorr, act), true
}

// balExitSingle checks ExitSwapExternAmountOut: q units of d out for burn shares.
func (w *world) balExitSingle(s *pstate, d string, q, burn *big.Int) (*big.Float, bool) {
	run := w.run
	run.Count("c04/weighted-exits-by-tokens-checked")
	B, S := fInt(s.B[d]), fInt(s.S)
	om := fQuo(fInt(s.wt[d]), fInt(s.W))
	phi := fSub(fOne, fMul(fSub(fOne, om), fRat(s.f)))
	qf, bf := fInt(q), fInt(burn)
	// shares = S * (1 - (1 - q/(phi*B))^om) / (1 - exitFee), truncated
	y := fSub(fOne, fQuo(qf, fMul(phi, B)))
	if y.Sign() <= 0 {
		panic("harness: single-asset exit beyond the reserve succeeded")
	}
	P := fPow(y, om)
	// with an exit fee x the shares to burn are that amount divided by (1-x)
	keep := fSub(fOne, fRat(s.x))
	exact := fQuo(fMul(S, fSub(fOne, P)), keep)
	tolQ := fQuo(fMul(S, powTol(y, om, P, fQuo(fMul(fI64(2), e18), om))), keep)
	if s.x.Sign() > 0 {
		run.Count("c04/exits-with-exit-fee-checked")
	}
	diff := fSub(exact, bf) // positive: too few shares burned
	w.slack("exit-by-tokens", diff, fAdd(tolQ, fOne))
	if diff.Cmp(fAdd(tolQ, fOne)) > 0 {
		run.Fail("C04", "weighted-exit-formula", "tokens-out", "pool %d: exit of %s%s (reserve %s, weight %s of %s, spread %s) burned %s shares of %s: the formula requires %s, short by %s beyond truncation and the tolerance %s", s.id, q, d, s.B[d], s.wt[d], s.W, s.f.FloatString(18), burn, s.S, exact.Text('f', 6), diff.Text('g', 12), tolQ.Text('g', 12))
		return nil, false
	}
	if fAdd(diff, tolQ).Sign() < 0 {
		run.Fail("C04", "weighted-exit-formula", "tokens-out-high", "pool %d: exit of %s%s burned %s shares: the formula requires only %s, excess beyond the tolerance %s", s.id, q, d, burn, exact.Text('f', 6), tolQ.Text('g', 12))
		return nil, false
	}
	resTerm := fMul(om, lnRatioF(fSub(B, qf), B))
	act := fSub(resTerm, lnRatioF(fSub(S, bf), S))
	w.vsFall(act, "exit-by-tokens", s.id, "q", q, "B", s.B[d], "w", s.wt[d], "W", s.W, "burn", burn, "S", s.S, "f", s.f.FloatString(6), "exact", exact.Text('f', 3), "tol", tolQ.Text('g', 6))
	corrS := fSub(fSub(S, bf), fAdd(tolQ, fOne))
	if corrS.Sign() <= 0 {
		run.Probe("vs-check-vacuous")
		return fAbs(act), true
	}
	dcorr := fSub(resTerm, lnRatioF(corrS, S))
	if dcorr.Cmp(fNeg(fEps)) < 0 {
		run.Fail("C04", "weighted-product-per-share", "exit-by-tokens", "pool %d: exit of %s%s for %s shares lowered the weighted product per share by more than the power precision allows: d ln(V/S) = %s even with %s more shares burned", s.id, q, d, burn, dcorr.Text('g', 12), tolQ.Text('g', 8))
		return nil, false
	}
	return fSub(dcorr, act), true
}

// ======================= closed-cycle probes =======================

// probe runs a closed cycle on a discarded branch of the block state and
// requires that the actor does not end with more of any denomination than it
// started with (beyond the granted V/S tolerances).
func (w *world) probe(i int, st simcore.Step) bool {
	run, n := w.run, w.n
	p := w.pool(st.Arg(2))
	if st.Arg(0) == 0 {
		p = w.poolOfKind(st.Arg(2), st.Arg(3)%4 == 0)
	}
	if p == nil {
		run.Event("probe", "skip")
		return true
	}
	if !w.quoteMultiAssetJoin(p, st) {
		return false
	}
	a := w.actor(st.Arg(1))
	addr := n.Accts[a]
	d := pick(p.denoms, st.Arg(3))
	branch, _ := n.Ctx.CacheContext()
	dg := n.Digest(n.Ctx, "bank", "gamm", "poolmanager")
	before := n.AllBalances(n.Ctx, addr)
	ps := w.readPools(n.Ctx)
	eps := nf()
	name := ""
	failed := false
	w.drained = nil
	w.mismatch = ""
	step := func(kind string, m sdk.Msg) (bool, interface{}) {
		pre := w.readPools(branch)
		res := n.DeliverOn(branch, m, 0, false)
		if res.Outcome != "ok" {
			return false, nil
		}
		post := w.readPools(branch)
		e, ok := w.replay("probe-"+name, kind, pre, post, parseOps(append(append([]abci.Event(nil), res.Events...), res.Resp.Events...)), branch)
		if !ok {
			failed = true
			return false, nil
		}
		if w.mismatch != "" {
			// the branch is a legitimate history: let the C02 oracles look at it first
			if !w.invariantsAt("probe-"+name, branch) {
				failed = true
				return false, nil
			}
			panic(w.mismatch)
		}
		if e[p.id] != nil {
			eps = fAdd(eps, e[p.id])
		}
		return true, res.Resp.MsgResponses[0].GetCachedValue()
	}
	ok := false
	switch st.Arg(0) {
	case 0: // single-asset join, then exit the minted shares back into the same asset
		name = "join-single-exit-single"
		amt := amount(st, 5, w.reserve(p, d))
		r1ok, r1 := step("joinin", &gammtypes.MsgJoinSwapExternAmountIn{Sender: addr.String(), PoolId: p.id, TokenIn: coin(d, amt), ShareOutMinAmount: toInt(big.NewInt(1))})
		if failed {
			return false
		}
		if r1ok {
			sh := r1.(*gammtypes.MsgJoinSwapExternAmountInResponse).ShareOutAmount
			ok, _ = step("exitin", &gammtypes.MsgExitSwapShareAmountIn{Sender: addr.String(), PoolId: p.id, TokenOutDenom: d, ShareInAmount: sh, TokenOutMinAmount: toInt(big.NewInt(1))})
		}
	case 1: // swap there and back through the router
		name = "swap-there-and-back"
		o := pickOther(p.denoms, d, st.Arg(4))
		amt := amount(st, 5, w.reserve(p, d))
		r1ok, r1 := step("swapin", &pmtypes.MsgSwapExactAmountIn{Sender: addr.String(), Routes: routeIn(p.id, o), TokenIn: coin(d, amt), TokenOutMinAmount: toInt(big.NewInt(1))})
		if failed {
			return false
		}
		if r1ok {
			got := r1.(*pmtypes.MsgSwapExactAmountInResponse).TokenOutAmount
			ok, _ = step("swapin", &pmtypes.MsgSwapExactAmountIn{Sender: addr.String(), Routes: routeIn(p.id, d), TokenIn: sdk.NewCoin(o, got), TokenOutMinAmount: toInt(big.NewInt(1))})
		}
	default: // all-asset join, then exit the minted shares
		name = "join-all-exit-all"
		shares := amount(st, 5, w.totalShares(p))
		r1ok, r1 := step("joinall", &gammtypes.MsgJoinPool{Sender: addr.String(), PoolId: p.id, ShareOutAmount: toInt(shares)})
		if failed {
			return false
		}
		if r1ok {
			sh := r1.(*gammtypes.MsgJoinPoolResponse).ShareOutAmount
			ok, _ = step("exitall", &gammtypes.MsgExitPool{Sender: addr.String(), PoolId: p.id, ShareInAmount: sh})
		}
	}
	if failed {
		return false
	}
	if got := n.Digest(n.Ctx, "bank", "gamm", "poolmanager"); got != dg {
		panic("harness: probe on a discarded branch changed the block state")
	}
	if !ok {
		run.Event("probe", "void")
		run.Logf("%d probe %s pool=%d void", i, name, p.id)
		return true
	}
	run.Event("probe", "ok")
	run.Probe("cycle-" + name)
	after := n.AllBalances(branch, addr)
	// allowed gain in the cycle's denomination
	allowed := nf()
	s0 := ps[p.id]
	if !s0.stable && eps.Sign() > 0 && st.Arg(0) != 2 {
		om := fQuo(fInt(s0.wt[d]), fInt(s0.W))
		allowed = fMul(fInt(s0.B[d]), fSub(fOne, fExp(fNeg(fQuo(eps, om)))))
	}
	dn := map[string]bool{}
	for _, c := range before {
		dn[c.Denom] = true
	}
	for _, c := range after {
		dn[c.Denom] = true
	}
	ds := make([]string, 0, len(dn))
	for x := range dn {
		ds = append(ds, x)
	}
	sort.Strings(ds)
	for _, x := range ds {
		gain := new(big.Int).Sub(bi(after.AmountOf(x)), bi(before.AmountOf(x)))
		if gain.Sign() <= 0 {
			continue
		}
		lim := nf()
		if x == d {
			lim = allowed
		}
		if fInt(gain).Cmp(lim) > 0 {
			kind := "weighted"
			if s0.stable {
				kind = "stableswap"
			}
			run.Fail("C04", "closed-cycle-profit", name+"/"+kind, "pool %d (%s, reserves %v, shares %s): the cycle %s starting with %s left account %d with %s more %s than before (allowed by the power precision: %s)", p.id, kind, s0.B, s0.S, name, d, a, gain, x, lim.Text('f', 3))
			return false
		}
		run.Max("max/c04-cycle-gain-permille-of-allowance", permille(fInt(gain), fAdd(lim, fEps)))
	}
	run.Logf("%d probe %s pool=%d ok eps=%s", i, name, p.id, eps.Text('g', 6))
	return true
}

// quoteMultiAssetJoin asks the pool (through the gamm CalcJoinPoolShares query, the only public way to reach
// the pool model's general join: all assets at once, in a ratio different from the reserves) how many shares
// a multi-asset join would mint, and checks that the weighted product of reserves per share does not fall:
//
//	d ln(V/S) = sum_i (w_i/W) * ln((B_i + a_i)/B_i) - ln((S + shares)/S) >= -(k+1) * 1e-7
//
// k = number of assets (one pow per single-asset join of the remainder, documented power precision 1e-8,
// one order of magnitude granted for its amplification at extreme ratios; a join also pays the spread factor,
// so the true change is positive).
func (w *world) quoteMultiAssetJoin(p *poolInfo, st simcore.Step) bool {
	run, n := w.run, w.n
	ps := w.readPools(n.Ctx)
	s0 := ps[p.id]
	if s0 == nil || s0.stable || len(s0.denoms) < 2 {
		return true
	}
	tokens := sdk.NewCoins()
	for j, d := range s0.denoms {
		bp := int64(1 + (st.Arg(5)+int64(j)*7919+st.Arg(3)*104729)%3000) // 0.01% .. 30% of each reserve, different per asset
		amt := new(big.Int).Quo(new(big.Int).Mul(s0.B[d], big.NewInt(bp)), big.NewInt(10000))
		if amt.Sign() <= 0 {
			return true
		}
		tokens = tokens.Add(coin(d, amt))
	}
	q := gammkeeper.NewQuerier(*n.App.GAMMKeeper)
	qctx, _ := n.Ctx.CacheContext()
	var resp *gammtypes.QueryCalcJoinPoolSharesResponse
	var err error
	func() {
		defer func() {
			if x := recover(); x != nil {
				err = fmt.Errorf("panic: %v", x)
			}
		}()
		resp, err = q.CalcJoinPoolShares(qctx, &gammtypes.QueryCalcJoinPoolSharesRequest{PoolId: p.id, TokensIn: tokens})
	}()
	if err != nil || resp == nil || !resp.ShareOutAmount.IsPositive() {
		run.Event("quote-multi-join", "void")
		return true
	}
	run.Event("quote-multi-join", "ok")
	run.Count("c04/multi-asset-join-quotes-checked")
	dlnV := nf()
	for _, d := range s0.denoms {
		added := bi(resp.TokensOut.AmountOf(d))
		if added.Sign() == 0 {
			continue
		}
		om := fQuo(fInt(s0.wt[d]), fInt(s0.W))
		dlnV = fAdd(dlnV, fMul(om, lnRatioF(fAdd(fInt(s0.B[d]), fInt(added)), fInt(s0.B[d]))))
	}
	dlnS := lnRatioF(fAdd(fInt(s0.S), fInt(bi(resp.ShareOutAmount))), fInt(s0.S))
	delta := fSub(dlnV, dlnS)
	tol := fMul(fI64(int64(len(s0.denoms)+1)), fQuo(fOne, fI64(10_000_000)))
	if fAdd(delta, tol).Sign() < 0 {
		run.Fail("C04", "weighted-product-per-share", "multi-asset-join", "pool %d (reserves %v, shares %s): a join of %s would mint %s shares for %s: the weighted product of reserves per share falls by %s (d ln V = %s, d ln S = %s)", p.id, s0.B, s0.S, tokens, resp.ShareOutAmount, resp.TokensOut, fNeg(delta).Text('g', 8), dlnV.Text('g', 10), dlnS.Text('g', 10))
		return false
	}
	return true
}

var _ = simcore.ParseFault
