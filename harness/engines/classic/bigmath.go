package classic

// High-precision real arithmetic for the C04 reference: natural logarithm and
// exponential on math/big Floats with a 768-bit working mantissa (results are
// good to far more than 600 bits). Nothing here calls osmomath.

import (
	"math/big"
)

const workPrec = 768

func nf() *big.Float { return new(big.Float).SetPrec(workPrec) }

func fInt(x *big.Int) *big.Float { return nf().SetInt(x) }

func fRat(r *big.Rat) *big.Float { return nf().SetRat(r) }

func fI64(x int64) *big.Float { return nf().SetInt64(x) }

func fStr(s string) *big.Float {
	f, ok := nf().SetString(s)
	if !ok {
		panic("bad float literal " + s)
	}
	return f
}

func fAdd(a, b *big.Float) *big.Float { return nf().Add(a, b) }
func fSub(a, b *big.Float) *big.Float { return nf().Sub(a, b) }
func fMul(a, b *big.Float) *big.Float { return nf().Mul(a, b) }
func fQuo(a, b *big.Float) *big.Float { return nf().Quo(a, b) }
func fAbs(a *big.Float) *big.Float    { return nf().Abs(a) }
func fMax(a, b *big.Float) *big.Float {
	if a.Cmp(b) >= 0 {
		return a
	}
	return b
}

var (
	fOne  = fI64(1)
	fZero = fI64(0)
	ln2   = computeLn2()
	// smaller than any quantity the oracle distinguishes
	fEps = nf().SetMantExp(fI64(1), -600)
)

// atanhSeries returns atanh(z) = z + z^3/3 + z^5/5 + ... for |z| < 1/2.
func atanhSeries(z *big.Float) *big.Float {
	z2 := fMul(z, z)
	term := nf().Set(z)
	sum := nf().Set(z)
	for k := int64(3); ; k += 2 {
		term = fMul(term, z2)
		if term.Sign() == 0 {
			break
		}
		t := fQuo(term, fI64(k))
		if t.MantExp(nil)-sum.MantExp(nil) < -(workPrec + 8) {
			break
		}
		sum = fAdd(sum, t)
	}
	return sum
}

func computeLn2() *big.Float {
	// ln 2 = 2 atanh(1/3)
	return fMul(fI64(2), atanhSeries(fQuo(fI64(1), fI64(3))))
}

// fLn returns ln(x), x > 0.
func fLn(x *big.Float) *big.Float {
	if x.Sign() <= 0 {
		panic("fLn: non-positive argument")
	}
	m := nf()
	e := x.MantExp(m) // x = m * 2^e, m in [0.5,1)
	// ln m = 2 atanh((m-1)/(m+1)); bring m towards 1 first with square roots
	const roots = 12
	for i := 0; i < roots; i++ {
		m = nf().Sqrt(m)
	}
	z := fQuo(fSub(m, fOne), fAdd(m, fOne))
	r := fMul(fI64(2), atanhSeries(z))
	r = nf().SetMantExp(r, roots)
	return fAdd(r, fMul(fI64(int64(e)), ln2))
}

// fExp returns e^x.
func fExp(x *big.Float) *big.Float {
	if x.Sign() == 0 {
		return nf().Set(fOne)
	}
	// x = k ln2 + r, |r| <= ln2/2
	q := fQuo(x, ln2)
	qi, _ := q.Int(nil)
	if !qi.IsInt64() || qi.Int64() > 1<<28 || qi.Int64() < -(1<<28) {
		panic("fExp: argument out of range")
	}
	k := qi.Int64()
	r := fSub(x, fMul(fI64(k), ln2))
	const halvings = 24
	r = nf().SetMantExp(r, -halvings)
	term := nf().Set(fOne)
	sum := nf().Set(fOne)
	for i := int64(1); i < 400; i++ {
		term = fQuo(fMul(term, r), fI64(i))
		if term.Sign() == 0 || term.MantExp(nil) < -(workPrec+8) {
			break
		}
		sum = fAdd(sum, term)
	}
	for i := 0; i < halvings; i++ {
		sum = fMul(sum, sum)
	}
	return nf().SetMantExp(sum, int(k))
}

// fPow returns y^e for y > 0.
func fPow(y, e *big.Float) *big.Float { return fExp(fMul(e, fLn(y))) }

// fFloor returns floor(x) for x >= 0 as a Float.
func fFloor(x *big.Float) *big.Float {
	i, _ := x.Int(nil)
	return nf().SetInt(i)
}

// permille returns 1000*a/b as an int64, saturating.
func permille(a, b *big.Float) int64 {
	if b.Sign() <= 0 {
		return 0
	}
	q := fQuo(fMul(a, fI64(1000)), b)
	if q.Cmp(fI64(1<<60)) > 0 {
		return 1 << 60
	}
	v, _ := q.Int64()
	return v
}
