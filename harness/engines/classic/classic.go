// Package classic is the C02/C04 engine: balancer and stableswap pools of
// x/gamm and the x/poolmanager swap router inside the full application, driven
// through their messages. After every message a full bank snapshot diff, the
// pool-account / share-supply / total-supply equalities (C02) and an exact
// reference for the pool math (C04) are evaluated.
package classic

import (
	"fmt"
	clgenesis "github.com/osmosis-labs/osmosis/v31/x/concentrated-liquidity/types/genesis"
	"math/big"
	"os"
	"sort"
	"strings"
	"time"

	abci "github.com/cometbft/cometbft/abci/types"
	"github.com/cosmos/cosmos-sdk/codec"
	sdk "github.com/cosmos/cosmos-sdk/types"
	authtypes "github.com/cosmos/cosmos-sdk/x/auth/types"
	banktypes "github.com/cosmos/cosmos-sdk/x/bank/types"
	distrtypes "github.com/cosmos/cosmos-sdk/x/distribution/types"

	"github.com/osmosis-labs/osmosis/osmomath"
	"github.com/osmosis-labs/osmosis/v31/app"
	"github.com/osmosis-labs/osmosis/v31/x/gamm/pool-models/balancer"
	"github.com/osmosis-labs/osmosis/v31/x/gamm/pool-models/stableswap"
	gammtypes "github.com/osmosis-labs/osmosis/v31/x/gamm/types"
	minttypes "github.com/osmosis-labs/osmosis/v31/x/mint/types"
	pmtypes "github.com/osmosis-labs/osmosis/v31/x/poolmanager/types"
	txfeestypes "github.com/osmosis-labs/osmosis/v31/x/txfees/types"

	"verif/harness/simchain"
	"verif/harness/simcore"
)

type Engine struct{}

func init() { simcore.Register(Engine{}) }

func (Engine) Name() string    { return "classic" }
func (Engine) Props() []string { return []string{"C02", "C04"} }
func (Engine) Budget(tier, prop string) (int, int) {
	// CPU per run: ~0.25 s (quick, ~42 steps), ~0.45 s (thorough, ~70 steps)
	if tier == "thorough" {
		return 30000, 1100
	}
	return 4000, 150
}

func (Engine) Describe() simcore.Description {
	return simcore.Description{
		Real: []string{"full OsmosisApp: x/gamm keeper + msg server, balancer and stableswap pool models, cfmm_common, osmomath Pow/binary search, x/poolmanager router, taker fees and pool creation, bank, distribution (community pool), txfees/protorev/twap/pool-incentives hooks, real BeginBlocker/EndBlocker of every module (incl. epoch hooks that move and swap taker fees), IAVL commit per block, SDK gas metering"},
		Stub: []string{"CometBFT (the simulator supplies header time/height and message order)", "ante/post handlers (sender taken as authenticated, no tx fees, no protorev back-running)", "governance (taker-fee parameters are written with the keeper's param setter, pair overrides go through MsgSetDenomPairTakerFee from an admin account)"},
		Rule: "one run = 2-5 accounts each funded with 10^33 units of 4-8 denominations, an amount regime (tiny / mid / huge up to 10^30 per reserve, plus strongly unbalanced pools), an initial taker fee; steps are MsgCreateBalancerPool (2-8 assets, weights 1..2^20-1, spread factor from a set incl. 0), MsgCreateStableswapPool (2-5 assets, scaling factors), MsgJoinPool, MsgJoinSwapExternAmountIn, MsgJoinSwapShareAmountOut, MsgExitPool, MsgExitSwapShareAmountIn, MsgExitSwapExternAmountOut, poolmanager and gamm MsgSwapExactAmountIn/Out over 1-3 hops, MsgSplitRouteSwapExactAmountIn/Out, bank MsgSend to a pool address (tracked donations), taker-fee parameter changes (default, per-pair override, reduced-fee whitelist), new blocks, day-epoch crossings, node restarts, closed-cycle probes on discarded branches; odd run indices add out-of-gas (gas limit = fraction of the message's own use) and forced roll-back on messages.",
		Assumptions: []string{
			"mint is switched off in genesis (MintingRewardsDistributionStartEpoch far in the future) so that 'total supply of every non-share token is unchanged' can be checked for uosmo as well; taker-fee burn share stays at its default 0",
			"about one balancer pool in seven is a liquidity-bootstrapping pool: its weights move smoothly to target weights with another total over 2-60 s starting 0-9 s after creation, so blocks land before, inside and after the change; the reference reads the asset weights in force at each block from the pool and normalises by their own sum (the pool's cached total weight is deliberately not read); stableswap pools name their creator as scaling-factor controller, who re-scales them during the run (MsgStableSwapAdjustScalingFactors; one attempt in ten comes from somebody else and is followed, not judged)",
			"C04 tolerance: osmomath documents fractional exponentiation as accurate to powPrecision=1e-8 'for small bases'. For a call result q = scale*g(Pow(y,e)) the reference allows |q_impl - q_exact| <= scale*tolP (+1 unit in the direction the code is documented to round), with tolP = 1.01*1e-8*amp*y^floor(e) + 18-digit rounding terms, amp = max(1,|1-y|/(1-|1-y|)) for y<1 (all series terms have one sign there, so the tail after the first term below 1e-8 is bounded by that geometric factor) and amp = 1 for y>=1 (alternating series). Inside |1-y|<=1/2 this is exactly the documented 1e-8.",
			"C04 'weighted product per share never falls by more than that precision' is checked as: V/S after the call, with the single Pow-derived quantity moved by the tolerance above in the pool's favour, is >= V/S before, in 768-bit logarithms; all-asset joins/exits and every stableswap swap are checked exactly in rationals with no tolerance",
			"closed-cycle probes allow the actor a gain of reserve*(1-exp(-eps/w)) in the cycle's denomination, eps being the sum of the per-call V/S tolerances of the cycle (0 for stableswap and for join-all/exit-all)",
			"a panic that escapes a message handler is a failed message (state must be unchanged); it is counted, not reported under C02/C04",
			"a weighted swap that pays out the WHOLE reported reserve (Pow rounded to 0) is reported under C02 (pool-balance/weighted-reserve-emptied-report-stale); its result is within the power precision of the exact formula, so C04 does not report it; the pool then leaves the workload and the run goes on",
			"the per-message decomposition of multi-hop / exit-and-swap messages into pool operations is taken from the token_swapped / pool_joined / pool_exited events and is cross-checked: the replayed reserves and shares must equal the real post-state, otherwise the run is a harness error",
		},
	}
}

var allDenoms = []string{"uosmo", "uatom", "udai", "ujuno", "uusdc", "uusdt", "wbtc", "weth"}
var spreadFactors = []string{"0", "0", "0.0001", "0.003", "0.01", "0.05", "0.3", "0.000000000000000001", "0.002"}
var takerFees = []string{"0", "0.0001", "0.001", "0.0015", "0.01", "0.1", "0"}
var scalingFactorSet = []uint64{1, 1, 1, 2, 3, 10, 1000, 1000000, 7, 1 << 20}

var fundEach = new(big.Int).Exp(big.NewInt(10), big.NewInt(33), nil)

// ---- plan generation ----

func amtSpec(r *simcore.RNG, regime int64, kind int) []int64 {
	// returns mode, bp, mant, exp
	var mode, bp int64
	switch kind {
	case 0: // swap-in / single join: relative to a reserve
		mode = int64(r.Weighted([]int{3, 87, 10}))
		switch r.Weighted([]int{15, 47, 30, 5, 3}) {
		case 0:
			bp = r.Range(1, 100)
		case 1:
			bp = r.Range(100, 3000)
		case 2:
			bp = r.Range(3000, 9900)
		case 3:
			bp = r.Range(9900, 40000)
		default:
			bp = r.Range(40000, 5000000)
		}
	case 1: // out amounts: must stay below the reserve (half of it for weighted pools)
		mode = int64(r.Weighted([]int{4, 88, 8}))
		switch r.Weighted([]int{35, 45, 15, 5}) {
		case 0:
			bp = r.Range(1, 100)
		case 1:
			bp = r.Range(100, 3000)
		case 2:
			bp = r.Range(3000, 4990)
		default:
			bp = r.Range(4990, 11000)
		}
	default: // shares
		mode = int64(r.Weighted([]int{3, 90, 7}))
		switch r.Weighted([]int{30, 45, 20, 5}) {
		case 0:
			bp = r.Range(1, 100)
		case 1:
			bp = r.Range(100, 5000)
		case 2:
			bp = r.Range(5000, 10000)
		default:
			bp = r.Range(10000, 30000)
		}
	}
	lo, hi := expRange(regime)
	return []int64{mode, bp, r.Range(1, 9999), r.Range(int64(lo), int64(hi))}
}

func expRange(regime int64) (int, int) {
	switch regime {
	case 0:
		return 0, 6
	case 1:
		return 6, 18
	}
	return 18, 30
}

func (Engine) Generate(r *simcore.RNG, tier string, idx int) *simcore.Plan {
	p := &simcore.Plan{Config: map[string]int64{}}
	p.Config["accts"] = r.Range(2, 5)
	p.Config["denoms"] = r.Range(4, 8)
	regime := int64(r.Weighted([]int{30, 35, 35}))
	p.Config["regime"] = regime
	p.Config["takerfee"] = int64(r.Intn(len(takerFees)))
	if r.Chance(0.3) {
		p.Config["wl"] = 1 // account 0 may create pools without the creation fee
	}
	faults := idx%2 == 1
	if idx%4 == 3 {
		p.Config["spec"] = 60 + int64(idx/4%5)*60 // permille of blocks first executed speculatively on a discarded branch (simchain.Node.Spec)
	}
	if faults {
		p.Config["faults"] = 1
	}
	reserve := func() (int64, int64) {
		lo, hi := expRange(regime)
		if r.Chance(0.15) { // strongly unbalanced: any magnitude
			return r.Range(1, 9999), r.Range(0, 30)
		}
		return r.Range(1, 9999), r.Range(int64(lo), int64(hi))
	}
	weight := func() int64 {
		switch r.Weighted([]int{30, 37, 15, 8, 10}) {
		case 0:
			return 1
		case 1:
			return r.Range(1, 10)
		case 2:
			return r.Range(1, 1000)
		case 3:
			return (1 << 20) - 1
		}
		return r.Range(1, (1<<20)-1)
	}
	createBal := func() simcore.Step {
		n := int64(2)
		switch r.Weighted([]int{50, 20, 12, 18}) {
		case 1:
			n = 3
		case 2:
			n = r.Range(4, 7)
		case 3:
			n = 8
		}
		st := simcore.Step{Op: "cbal", A: []int64{r.Range(0, 4), int64(r.Intn(len(spreadFactors))), 0, n}}
		if r.Chance(0.03) {
			st.A[2] = 1
		} else if r.Chance(0.14) {
			// liquidity-bootstrapping pool: weights move smoothly to other target weights
			// (another total) over 2-60 s starting 0-9 s from now
			st.A[2] = 2 + r.Range(0, 9)*100 + r.Range(2, 60)*10000
		}
		for i := int64(0); i < n; i++ {
			m, e := reserve()
			st.A = append(st.A, r.Range(0, 63), weight(), m, e)
		}
		return st
	}
	createStable := func() simcore.Step {
		n := r.Range(2, 5)
		st := simcore.Step{Op: "cstab", A: []int64{r.Range(0, 4), int64(r.Intn(len(spreadFactors))), 0, n}}
		if r.Chance(0.03) {
			st.A[2] = 1
		}
		bm, be := reserve()
		unbalanced := r.Chance(0.2)
		for i := int64(0); i < n; i++ {
			m, e := bm+r.Range(-bm/4, bm/4), be
			if unbalanced {
				m, e = reserve()
			}
			sf := int64(r.Intn(len(scalingFactorSet)))
			if r.Chance(0.6) {
				sf = 0
			}
			st.A = append(st.A, r.Range(0, 63), sf, m, e)
		}
		return st
	}
	route := func() []int64 {
		// via, hops, pool, in, out, pool2, out2, pool3, out3
		return []int64{int64(r.Weighted([]int{70, 30})), int64(1 + r.Weighted([]int{55, 30, 15})), r.Range(0, 63), r.Range(0, 63), r.Range(0, 63), r.Range(0, 63), r.Range(0, 63), r.Range(0, 63), r.Range(0, 63)}
	}
	nInit := int(r.Range(1, 3))
	for i := 0; i < nInit; i++ {
		if r.Chance(0.65) {
			p.Steps = append(p.Steps, createBal())
		} else {
			p.Steps = append(p.Steps, createStable())
		}
	}
	n := int(r.Range(20, 60))
	if tier == "thorough" {
		n = int(r.Range(30, 110))
	}
	for i := 0; i < n; i++ {
		st := simcore.Step{}
		switch r.Weighted([]int{5, 3, 8, 8, 5, 7, 6, 5, 16, 10, 4, 3, 3, 4, 7, 1, 2, 9, 2, 3}) {
		case 0:
			st = createBal()
		case 1:
			st = createStable()
		case 2:
			st.Op = "joinall"
			st.A = append([]int64{r.Range(0, 4), r.Range(0, 63)}, amtSpec(r, regime, 2)...)
			st.A = append(st.A, int64(r.Weighted([]int{40, 50, 10})))
		case 3:
			st.Op = "joinin"
			st.A = append([]int64{r.Range(0, 4), r.Range(0, 63), r.Range(0, 63)}, amtSpec(r, regime, 0)...)
			st.A = append(st.A, int64(r.Weighted([]int{90, 10})))
		case 4:
			st.Op = "joinout"
			st.A = append([]int64{r.Range(0, 4), r.Range(0, 63), r.Range(0, 63)}, amtSpec(r, regime, 2)...)
			st.A = append(st.A, int64(r.Weighted([]int{90, 10})))
		case 5:
			st.Op = "exitall"
			st.A = append([]int64{r.Range(0, 4), r.Range(0, 63)}, amtSpec(r, regime, 2)...)
			st.A = append(st.A, int64(r.Weighted([]int{85, 10, 5})))
		case 6:
			st.Op = "exitin"
			st.A = append([]int64{r.Range(0, 4), r.Range(0, 63), r.Range(0, 63)}, amtSpec(r, regime, 2)...)
			st.A = append(st.A, int64(r.Weighted([]int{92, 8})))
		case 7:
			st.Op = "exitout"
			st.A = append([]int64{r.Range(0, 4), r.Range(0, 63), r.Range(0, 63)}, amtSpec(r, regime, 1)...)
			st.A = append(st.A, int64(r.Weighted([]int{90, 10})))
		case 8:
			st.Op = "swapin"
			st.A = append([]int64{r.Range(0, 4)}, route()...)
			st.A = append(st.A, amtSpec(r, regime, 0)...)
			st.A = append(st.A, int64(r.Weighted([]int{92, 8})))
		case 9:
			st.Op = "swapout"
			st.A = append([]int64{r.Range(0, 4)}, route()...)
			st.A = append(st.A, amtSpec(r, regime, 1)...)
			st.A = append(st.A, int64(r.Weighted([]int{92, 8})))
		case 10:
			st.Op = "splitin"
			st.A = append([]int64{r.Range(0, 4), r.Range(0, 63), r.Range(0, 63), r.Range(0, 63), r.Range(0, 63)}, amtSpec(r, regime, 0)...)
			st.A = append(st.A, amtSpec(r, regime, 0)...)
		case 11:
			st.Op = "splitout"
			st.A = append([]int64{r.Range(0, 4), r.Range(0, 63), r.Range(0, 63), r.Range(0, 63), r.Range(0, 63)}, amtSpec(r, regime, 1)...)
			st.A = append(st.A, amtSpec(r, regime, 1)...)
		case 12:
			st.Op = "donate"
			st.A = append([]int64{r.Range(0, 4), r.Range(0, 63), r.Range(0, 63)}, amtSpec(r, regime, 0)...)
		case 13:
			st.Op = "setfee"
			st.A = []int64{int64(r.Weighted([]int{30, 35, 20, 15})), r.Range(0, 63), r.Range(0, 63), r.Range(0, 63), r.Range(0, 9)}
		case 14:
			st.Op = "advance"
			st.A = []int64{r.Range(1, 20000)}
		case 15:
			st.Op = "epoch"
			st.A = []int64{r.Range(0, 5000)}
		case 16:
			st.Op = "restart"
			st.A = []int64{r.Range(0, 5)}
		case 17:
			st.Op = "probe"
			st.A = append([]int64{int64(r.Weighted([]int{35, 40, 25})), r.Range(0, 4), r.Range(0, 63), r.Range(0, 63), r.Range(0, 63)}, amtSpec(r, regime, 0)...)
		case 18:
			// a pool from before exit fees were forced to zero: the stored record carries one
			st.Op = "legacyfee"
			st.A = []int64{r.Range(0, 63), int64(r.Intn(len(exitFees)))}
		case 19:
			// the scaling-factor controller (the creator) re-scales a stableswap pool; one in ten comes
			// from somebody else and must be refused
			st.Op = "adjsf"
			st.A = []int64{r.Range(0, 9), r.Range(0, 63)}
			for k := 0; k < 5; k++ {
				sf := int64(r.Intn(len(scalingFactorSet)))
				if r.Chance(0.3) {
					sf = 0
				}
				st.A = append(st.A, sf)
			}
		}
		if faults && r.Chance(0.18) {
			switch st.Op {
			case "advance", "epoch", "restart", "probe", "legacyfee":
			default:
				if st.Op == "setfee" && st.Arg(0) != 1 {
					break
				}
				if r.Chance(0.35) {
					st.F = "abort"
				} else {
					st.F = fmt.Sprintf("oog:%d", r.Range(1, 999))
				}
			}
		}
		p.Steps = append(p.Steps, st)
	}
	return p
}

// ---- world ----

type poolInfo struct {
	id     uint64
	addr   sdk.AccAddress
	stable bool
	denoms []string            // sorted
	don    map[string]*big.Int // tokens sent directly to the pool address
	// controller is the account that may re-scale a stableswap pool (its creator)
	controller int
}

type world struct {
	run      *simcore.Run
	n        *simchain.Node
	accts    int
	denoms   []string
	pools    []*poolInfo
	supply0  map[string]osmomath.Int
	white    map[int]bool
	mismatch string          // set by the C04 replay when the events do not explain a pool's state change
	drained  map[string]bool // "pool:denom" whose whole reported reserve a swap of the current message paid out

	takerAddr sdk.AccAddress
	distrAddr sdk.AccAddress
}

func bi(x osmomath.Int) *big.Int { return x.BigInt() }

func toInt(x *big.Int) osmomath.Int { return osmomath.NewIntFromBigInt(x) }

func pow10(e int64) *big.Int { return new(big.Int).Exp(big.NewInt(10), big.NewInt(e), nil) }

// magnitude is mant*10^exp/1000, at least 1.
func magnitude(mant, exp int64) *big.Int {
	if mant < 1 {
		mant = 1
	}
	if exp < 0 {
		exp = 0
	}
	if exp > 40 {
		exp = 40
	}
	v := new(big.Int).Mul(big.NewInt(mant), pow10(exp))
	v.Quo(v, big.NewInt(1000))
	if v.Sign() <= 0 {
		v.SetInt64(1)
	}
	return v
}

// amount resolves (mode,bp,mant,exp) at st.A[off:] against ref.
func amount(st simcore.Step, off int, ref *big.Int) *big.Int {
	switch st.Arg(off) {
	case 0:
		return big.NewInt(1)
	case 1:
		bp := st.Arg(off + 1)
		if bp < 1 {
			bp = 1
		}
		v := new(big.Int).Mul(ref, big.NewInt(bp))
		v.Quo(v, big.NewInt(10000))
		if v.Sign() <= 0 {
			v.SetInt64(1)
		}
		return v
	}
	return magnitude(st.Arg(off+2), st.Arg(off+3))
}

func isShare(denom string) bool { return strings.HasPrefix(denom, "gamm/pool/") }

func (w *world) pool(sel int64) *poolInfo {
	if len(w.pools) == 0 {
		return nil
	}
	if sel < 0 {
		sel = -sel
	}
	return w.pools[int(sel)%len(w.pools)]
}

// poolOfKind prefers pools of one kind (nine times out of ten).
func (w *world) poolOfKind(sel int64, stable bool) *poolInfo {
	if sel < 0 {
		sel = -sel
	}
	var kind []*poolInfo
	for _, p := range w.pools {
		if p.stable == stable {
			kind = append(kind, p)
		}
	}
	if len(kind) == 0 || sel%10 == 9 {
		return w.pool(sel)
	}
	return kind[int(sel)%len(kind)]
}

// below keeps amt under ref for operations whose solver needs that
// (stableswap inputs), using the plan's bp argument to stay deterministic.
func below(amt, ref *big.Int, bp int64) *big.Int {
	if amt.Cmp(ref) < 0 || ref.Cmp(big.NewInt(2)) < 0 {
		return amt
	}
	if bp < 0 {
		bp = -bp
	}
	v := new(big.Int).Mul(ref, big.NewInt(bp%9000+1))
	v.Quo(v, big.NewInt(10000))
	if v.Sign() <= 0 {
		v.SetInt64(1)
	}
	return v
}

func (w *world) poolByID(id uint64) *poolInfo {
	for _, p := range w.pools {
		if p.id == id {
			return p
		}
	}
	return nil
}

func (w *world) actor(sel int64) int {
	if sel < 0 {
		sel = -sel
	}
	return int(sel) % w.accts
}

func pick(list []string, sel int64) string {
	if sel < 0 {
		sel = -sel
	}
	return list[int(sel)%len(list)]
}

// pickOther picks a member of list different from not.
func pickOther(list []string, not string, sel int64) string {
	var rest []string
	for _, d := range list {
		if d != not {
			rest = append(rest, d)
		}
	}
	if len(rest) == 0 {
		return not
	}
	return pick(rest, sel)
}

func has(list []string, d string) bool {
	for _, x := range list {
		if x == d {
			return true
		}
	}
	return false
}

// poolsWith lists pools holding all the given denoms.
func (w *world) poolsWith(denoms ...string) []*poolInfo {
	var out []*poolInfo
	for _, p := range w.pools {
		ok := true
		for _, d := range denoms {
			if !has(p.denoms, d) {
				ok = false
			}
		}
		if ok {
			out = append(out, p)
		}
	}
	return out
}

func (w *world) reserve(p *poolInfo, denom string) *big.Int {
	cp, err := w.n.App.GAMMKeeper.GetPoolAndPoke(w.n.Ctx, p.id)
	if err != nil {
		panic(fmt.Sprintf("harness: known pool %d unreadable: %v", p.id, err))
	}
	return bi(cp.GetTotalPoolLiquidity(w.n.Ctx).AmountOf(denom))
}

func (w *world) totalShares(p *poolInfo) *big.Int {
	cp, err := w.n.App.GAMMKeeper.GetPoolAndPoke(w.n.Ctx, p.id)
	if err != nil {
		panic(fmt.Sprintf("harness: known pool %d unreadable: %v", p.id, err))
	}
	return bi(cp.GetTotalShares())
}

// holder returns an account holding shares of p, preferring want.
func (w *world) holder(p *poolInfo, want int) int {
	sd := gammtypes.GetPoolShareDenom(p.id)
	for k := 0; k < w.accts; k++ {
		a := (want + k) % w.accts
		if w.n.Balance(w.n.Ctx, w.n.Accts[a], sd).IsPositive() {
			return a
		}
	}
	return want
}

func coin(denom string, amt *big.Int) sdk.Coin { return sdk.NewCoin(denom, toInt(amt)) }

// ---- execution ----

func (Engine) Execute(run *simcore.Run) {
	p := run.Plan
	accts := int(p.Cfg("accts", 3))
	if accts < 2 {
		accts = 2
	}
	if accts > 5 {
		accts = 5
	}
	nd := int(p.Cfg("denoms", 5))
	if nd < 2 {
		nd = 2
	}
	if nd > len(allDenoms) {
		nd = len(allDenoms)
	}
	denoms := append([]string(nil), allDenoms[:nd]...)
	fund := sdk.NewCoins()
	for _, d := range denoms {
		fund = fund.Add(sdk.NewCoin(d, toInt(fundEach)))
	}
	tf0 := takerFees[int(p.Cfg("takerfee", 0))%len(takerFees)]
	admin := sdk.AccAddress(simchain.AcctKey(0).PubKey().Address()).String()
	n := simchain.NewNode(simchain.Config{Accounts: accts, Validators: 1, Fund: fund, Mutate: func(cdc codec.JSONCodec, gs app.GenesisState) {
		var mg minttypes.GenesisState
		cdc.MustUnmarshalJSON(gs[minttypes.ModuleName], &mg)
		mg.Params.MintingRewardsDistributionStartEpoch = 1 << 40
		gs[minttypes.ModuleName] = cdc.MustMarshalJSON(&mg)
		if p.Cfg("wl", 0) == 1 {
			// account 0 is on the unrestricted pool-creator white list (a concentrated-liquidity parameter that
			// poolmanager consults for every pool type): it creates pools without paying the creation fee
			var cg clgenesis.GenesisState
			cdc.MustUnmarshalJSON(gs["concentratedliquidity"], &cg)
			cg.Params.UnrestrictedPoolCreatorWhitelist = []string{sdk.AccAddress(simchain.AcctKey(0).PubKey().Address()).String()}
			gs["concentratedliquidity"] = cdc.MustMarshalJSON(&cg)
		}
		var pg pmtypes.GenesisState
		cdc.MustUnmarshalJSON(gs[pmtypes.ModuleName], &pg)
		pg.Params.TakerFeeParams.DefaultTakerFee = osmomath.MustNewDecFromStr(tf0)
		pg.Params.TakerFeeParams.AdminAddresses = []string{admin}
		gs[pmtypes.ModuleName] = cdc.MustMarshalJSON(&pg)
	}})
	n.Spec = run.Plan.Cfg("spec", 0)
	defer func() {
		for i := 0; i < n.Specs; i++ {
			run.Fault("speculative-block-discarded")
		}
	}()
	w := &world{run: run, n: n, accts: accts, denoms: denoms, supply0: map[string]osmomath.Int{}, white: map[int]bool{},
		takerAddr: authtypes.NewModuleAddress(txfeestypes.TakerFeeCollectorName),
		distrAddr: authtypes.NewModuleAddress(distrtypes.ModuleName)}
	qc := n.QueryCtx()
	for _, d := range denoms {
		w.supply0[d] = n.Supply(qc, d)
	}
	begin := func(dt time.Duration) bool {
		if pv := n.BeginBlock(dt); pv != nil {
			panic(fmt.Sprintf("harness: BeginBlocker panicked at height %d: %v", n.Height, pv))
		}
		run.Blocks++
		run.SimNanos += int64(dt)
		return true
	}
	end := func() bool {
		if pv := n.EndBlock(); pv != nil {
			panic(fmt.Sprintf("harness: EndBlocker panicked at height %d: %v", n.Height+1, pv))
		}
		return true
	}
	begin(time.Second)
	for i, st := range p.Steps {
		run.StepIdx = i
		if debugSlow {
			t0 := time.Now()
			lastSlow(i, st, t0, p.Seed)
		}
		switch st.Op {
		case "advance", "epoch", "restart":
			before := w.poolDigest()
			end()
			dt := time.Duration(1+st.Arg(0)) * time.Millisecond
			switch st.Op {
			case "restart":
				n.Restart()
				run.Fault("restart")
			case "epoch":
				dt += 24 * time.Hour
				run.Fault("epoch-crossing")
			}
			begin(dt)
			if w.poolDigest() != before {
				run.Probe("pool-traded-by-block-hooks")
			}
			run.Event(st.Op, "ok")
			run.Logf("%d %s -> h=%d t=%s hash=%x", i, st.Op, n.Height, n.Time.Sub(simchain.GenesisTime), n.LastAppHash[:6])
			if !w.invariants("block") && run.Stop() {
				return
			}
			continue
		case "probe":
			if !w.probe(i, st) && run.Stop() {
				return
			}
			continue
		case "setfee":
			if st.Arg(0) != 1 {
				w.setFeeParam(i, st)
				continue
			}
		case "legacyfee":
			w.setExitFee(i, st)
			continue
		}
		m := w.build(st)
		if m == nil {
			run.Event(st.Op, "skip")
			run.Logf("%d %s skip", i, st.Op)
			continue
		}
		// a failure of the property that is not being checked does not end the run
		if !w.deliver(i, st, m) && run.Stop() {
			return
		}
	}
	end()
	w.invariants("final")
}

// poolDigest is a cheap fingerprint of all pool reserves (to notice trades made by block hooks).
func (w *world) poolDigest() string {
	var sb strings.Builder
	for _, p := range w.pools {
		cp, err := w.n.App.GAMMKeeper.GetPoolAndPoke(w.n.Ctx, p.id)
		if err != nil {
			continue
		}
		sb.WriteString(cp.GetTotalPoolLiquidity(w.n.Ctx).String())
		sb.WriteString(cp.GetTotalShares().String())
		sb.WriteByte('|')
	}
	return sb.String()
}

// exitFees are the exit fees a legacy pool record may carry (new pools are forced to zero).
var exitFees = []string{"0.01", "0.000001", "0.1", "0.5", "0", "0.003"}

// setExitFee rewrites a pool's stored record with an exit fee, the way pools created before the fee was
// forced to zero are stored; the keeper offers the same write to the v15 upgrade handler.
func (w *world) setExitFee(i int, st simcore.Step) {
	p := w.pool(st.Arg(0))
	if p == nil {
		w.run.Event("legacyfee", "skip")
		return
	}
	fee := osmomath.MustNewDecFromStr(exitFees[int(st.Arg(1))%len(exitFees)])
	cp, err := w.n.App.GAMMKeeper.GetPoolAndPoke(w.n.Ctx, p.id)
	if err != nil {
		panic(fmt.Sprintf("harness: known pool %d unreadable: %v", p.id, err))
	}
	switch q := cp.(type) {
	case *balancer.Pool:
		q.PoolParams.ExitFee = fee
	case *stableswap.Pool:
		q.PoolParams.ExitFee = fee
	}
	if err := w.n.App.GAMMKeeper.OverwritePoolV15MigrationUnsafe(w.n.Ctx, cp); err != nil {
		panic(fmt.Sprintf("harness: cannot store pool %d: %v", p.id, err))
	}
	if !fee.IsZero() {
		w.run.Probe("pool-with-exit-fee")
	}
	w.run.Event("legacyfee", "ok")
	w.run.Logf("%d legacyfee pool=%d exit=%s", i, p.id, fee)
}

// setFeeParam writes a governance-only taker-fee parameter straight into the block state.
func (w *world) setFeeParam(i int, st simcore.Step) {
	k := w.n.App.PoolManagerKeeper
	switch st.Arg(0) {
	case 0:
		fee := takerFees[int(st.Arg(1))%len(takerFees)]
		k.SetParam(w.n.Ctx, pmtypes.KeyDefaultTakerFee, osmomath.MustNewDecFromStr(fee))
		w.run.Logf("%d setfee default=%s", i, fee)
	case 3:
		// taker-fee share agreement: a share of every taker fee charged on routes that touch the
		// denomination is set aside for the skim address (paid out at the next fee-distribution epoch)
		d := pick(w.denoms, st.Arg(1))
		pct := []string{"0.05", "0.25", "0.5", "1"}[int(st.Arg(2))%4]
		to := w.n.Accts[w.actor(st.Arg(3))].String()
		if err := k.SetTakerFeeShareAgreementForDenom(w.n.Ctx, pmtypes.TakerFeeShareAgreement{Denom: d, SkimPercent: osmomath.MustNewDecFromStr(pct), SkimAddress: to}); err != nil {
			panic(fmt.Sprintf("harness: taker-fee share agreement: %v", err))
		}
		w.run.Probe("taker-fee-share-agreement-set")
		w.run.Logf("%d setfee agreement %s %s -> %s", i, d, pct, to)
	default:
		a := w.actor(st.Arg(1))
		w.white[a] = !w.white[a]
		var list []string
		for x := 0; x < w.accts; x++ {
			if w.white[x] {
				list = append(list, w.n.Accts[x].String())
			}
		}
		if list == nil {
			list = []string{}
		}
		k.SetParam(w.n.Ctx, pmtypes.KeyReducedTakerFeeByWhitelist, list)
		w.run.Logf("%d setfee whitelist=%v", i, list)
	}
	w.run.Event("setfee-param", "ok")
}

// built is a message plus what the ledger needs to know about it.
type built struct {
	msg    sdk.Msg
	kind   string // formula class for the C04 replay
	sender int
	pools  []uint64 // pools named in the message
	swap   bool     // taker fee may be charged
	create bool
	donate *poolInfo
	dcoin  sdk.Coin
	note   string
	// stableswap scaling factors
	stabCreator int
	adjsf       []uint64
	refuse      bool
	lbp         bool
}

func (w *world) build(st simcore.Step) *built {
	n := w.n
	switch st.Op {
	case "cbal":
		a := w.actor(st.Arg(0))
		cnt := int(st.Arg(3))
		if cnt < 2 {
			cnt = 2
		}
		avail := append([]string(nil), w.denoms...)
		var assets []balancer.PoolAsset
		for j := 0; j < cnt && len(avail) > 0; j++ {
			sel := st.Arg(4 + 4*j)
			if sel < 0 {
				sel = -sel
			}
			k := int(sel) % len(avail)
			d := avail[k]
			avail = append(avail[:k], avail[k+1:]...)
			wt := st.Arg(5 + 4*j)
			if wt < 1 {
				wt = 1
			}
			assets = append(assets, balancer.PoolAsset{Token: coin(d, magnitude(st.Arg(6+4*j), st.Arg(7+4*j))), Weight: osmomath.NewInt(wt)})
		}
		if len(assets) < 2 {
			return nil
		}
		exit := osmomath.ZeroDec()
		if st.Arg(2) == 1 {
			exit = osmomath.MustNewDecFromStr("0.01")
		}
		var smooth *balancer.SmoothWeightChangeParams
		lbp := ""
		if k := st.Arg(2); k%100 == 2 {
			smooth = &balancer.SmoothWeightChangeParams{StartTime: n.Time.Add(time.Duration(k/100%100) * time.Second), Duration: time.Duration(k/10000%100+1) * time.Second}
			for j, pa := range assets {
				tw := 1 + (pa.Weight.Int64()*7+int64(j)*13)%1000
				smooth.TargetPoolWeights = append(smooth.TargetPoolWeights, balancer.PoolAsset{Token: sdk.NewCoin(pa.Token.Denom, osmomath.ZeroInt()), Weight: osmomath.NewInt(tw)})
			}
			lbp = fmt.Sprintf(" lbp start=+%ds dur=%s", k/100%100, smooth.Duration)
		}
		params := balancer.NewPoolParams(osmomath.MustNewDecFromStr(spreadFactors[int(st.Arg(1))%len(spreadFactors)]), exit, smooth)
		m := balancer.NewMsgCreateBalancerPool(n.Accts[a], params, assets, "")
		return &built{msg: &m, kind: "create", sender: a, create: true, lbp: smooth != nil, note: fmt.Sprintf("n=%d%s", len(assets), lbp)}
	case "cstab":
		a := w.actor(st.Arg(0))
		cnt := int(st.Arg(3))
		if cnt < 2 {
			cnt = 2
		}
		avail := append([]string(nil), w.denoms...)
		type as struct {
			c  sdk.Coin
			sf uint64
		}
		var list []as
		for j := 0; j < cnt && len(avail) > 0; j++ {
			sel := st.Arg(4 + 4*j)
			if sel < 0 {
				sel = -sel
			}
			k := int(sel) % len(avail)
			d := avail[k]
			avail = append(avail[:k], avail[k+1:]...)
			sfi := st.Arg(5 + 4*j)
			if sfi < 0 {
				sfi = -sfi
			}
			sf := scalingFactorSet[int(sfi)%len(scalingFactorSet)]
			amt := magnitude(st.Arg(6+4*j), st.Arg(7+4*j))
			// keep the scaled reserve at least 1
			if min := new(big.Int).SetUint64(sf); amt.Cmp(min) < 0 {
				amt = min
			}
			list = append(list, as{coin(d, amt), sf})
		}
		if len(list) < 2 {
			return nil
		}
		sort.Slice(list, func(x, y int) bool { return list[x].c.Denom < list[y].c.Denom })
		var liq sdk.Coins
		var sfs []uint64
		for _, x := range list {
			liq = append(liq, x.c)
			sfs = append(sfs, x.sf)
		}
		exit := osmomath.ZeroDec()
		if st.Arg(2) == 1 {
			exit = osmomath.MustNewDecFromStr("0.01")
		}
		params := stableswap.PoolParams{SwapFee: osmomath.MustNewDecFromStr(spreadFactors[int(st.Arg(1))%len(spreadFactors)]), ExitFee: exit}
		m := stableswap.NewMsgCreateStableswapPool(n.Accts[a], params, liq, sfs, "")
		m.ScalingFactorController = n.Accts[a].String()
		return &built{msg: &m, kind: "create", sender: a, create: true, stabCreator: a, note: fmt.Sprintf("n=%d", len(list))}
	case "adjsf":
		p := w.poolOfKind(st.Arg(1), true)
		if p == nil {
			return nil
		}
		a := p.controller
		if st.Arg(0) == 9 {
			a = (p.controller + 1) % w.accts // not the controller: must be refused
		}
		var sfs []uint64
		for j := range p.denoms {
			sfi := st.Arg(2 + j%5)
			if sfi < 0 {
				sfi = -sfi
			}
			sfs = append(sfs, scalingFactorSet[int(sfi)%len(scalingFactorSet)])
		}
		m := &stableswap.MsgStableSwapAdjustScalingFactors{Sender: n.Accts[a].String(), PoolID: p.id, ScalingFactors: sfs}
		return &built{msg: m, kind: "adjsf", sender: a, pools: []uint64{p.id}, adjsf: sfs, refuse: a != p.controller, note: fmt.Sprintf("pool=%d sf=%v by=%d controller=%d", p.id, sfs, a, p.controller)}
	case "joinall":
		p := w.pool(st.Arg(1))
		if p == nil {
			return nil
		}
		a := w.actor(st.Arg(0))
		S := w.totalShares(p)
		shares := amount(st, 2, S)
		var maxs sdk.Coins
		switch st.Arg(6) {
		case 1: // generous: twice the proportional amount plus one
			for _, d := range p.denoms {
				need := new(big.Int).Mul(w.reserve(p, d), shares)
				need.Quo(need, S)
				need.Mul(need, big.NewInt(2)).Add(need, big.NewInt(2))
				maxs = append(maxs, coin(d, need))
			}
		case 2: // too tight
			for _, d := range p.denoms {
				maxs = append(maxs, coin(d, big.NewInt(1)))
			}
		}
		m := &gammtypes.MsgJoinPool{Sender: n.Accts[a].String(), PoolId: p.id, ShareOutAmount: toInt(shares), TokenInMaxs: maxs}
		return &built{msg: m, kind: "joinall", sender: a, pools: []uint64{p.id}, note: fmt.Sprintf("pool=%d shares=%s", p.id, shares)}
	case "joinin":
		// single-asset joins into stableswap pools cost the chain ~300 nested binary searches: one in four
		p := w.poolOfKind(st.Arg(1), st.Arg(2)%4 == 0)
		if p == nil {
			return nil
		}
		a := w.actor(st.Arg(0))
		d := pick(p.denoms, st.Arg(2))
		amt := amount(st, 3, w.reserve(p, d))
		if p.stable {
			amt = below(amt, w.reserve(p, d), st.Arg(4))
		}
		min := big.NewInt(1)
		if st.Arg(7) == 1 {
			min = new(big.Int).Mul(w.totalShares(p), big.NewInt(1000))
		}
		m := &gammtypes.MsgJoinSwapExternAmountIn{Sender: n.Accts[a].String(), PoolId: p.id, TokenIn: coin(d, amt), ShareOutMinAmount: toInt(min)}
		return &built{msg: m, kind: "joinin", sender: a, pools: []uint64{p.id}, note: fmt.Sprintf("pool=%d in=%s%s", p.id, amt, d)}
	case "joinout":
		p := w.poolOfKind(st.Arg(1), false)
		if p == nil {
			return nil
		}
		a := w.actor(st.Arg(0))
		d := pick(p.denoms, st.Arg(2))
		shares := amount(st, 3, w.totalShares(p))
		max := bi(n.Balance(n.Ctx, n.Accts[a], d))
		if st.Arg(7) == 1 || max.Sign() <= 0 {
			max = big.NewInt(1)
		}
		m := &gammtypes.MsgJoinSwapShareAmountOut{Sender: n.Accts[a].String(), PoolId: p.id, TokenInDenom: d, ShareOutAmount: toInt(shares), TokenInMaxAmount: toInt(max)}
		return &built{msg: m, kind: "joinout", sender: a, pools: []uint64{p.id}, note: fmt.Sprintf("pool=%d shares=%s denom=%s", p.id, shares, d)}
	case "exitall":
		p := w.pool(st.Arg(1))
		if p == nil {
			return nil
		}
		a := w.actor(st.Arg(0))
		if st.Arg(6) != 2 {
			a = w.holder(p, a)
		}
		held := bi(n.Balance(n.Ctx, n.Accts[a], gammtypes.GetPoolShareDenom(p.id)))
		if held.Sign() == 0 {
			held = big.NewInt(1)
		}
		shares := amount(st, 2, held)
		var mins sdk.Coins
		if st.Arg(6) == 1 {
			for _, d := range p.denoms {
				mins = append(mins, coin(d, w.reserve(p, d)))
			}
		}
		m := &gammtypes.MsgExitPool{Sender: n.Accts[a].String(), PoolId: p.id, ShareInAmount: toInt(shares), TokenOutMins: mins}
		return &built{msg: m, kind: "exitall", sender: a, pools: []uint64{p.id}, note: fmt.Sprintf("pool=%d shares=%s", p.id, shares)}
	case "exitin":
		p := w.pool(st.Arg(1))
		if p == nil {
			return nil
		}
		a := w.holder(p, w.actor(st.Arg(0)))
		d := pick(p.denoms, st.Arg(2))
		held := bi(n.Balance(n.Ctx, n.Accts[a], gammtypes.GetPoolShareDenom(p.id)))
		if held.Sign() == 0 {
			held = big.NewInt(1)
		}
		shares := amount(st, 3, held)
		min := big.NewInt(1)
		if st.Arg(7) == 1 {
			min = new(big.Int).Add(w.reserve(p, d), big.NewInt(1))
		}
		m := &gammtypes.MsgExitSwapShareAmountIn{Sender: n.Accts[a].String(), PoolId: p.id, TokenOutDenom: d, ShareInAmount: toInt(shares), TokenOutMinAmount: toInt(min)}
		return &built{msg: m, kind: "exitin", sender: a, pools: []uint64{p.id}, note: fmt.Sprintf("pool=%d shares=%s denom=%s", p.id, shares, d)}
	case "exitout":
		p := w.poolOfKind(st.Arg(1), false)
		if p == nil {
			return nil
		}
		a := w.holder(p, w.actor(st.Arg(0)))
		d := pick(p.denoms, st.Arg(2))
		amt := amount(st, 3, w.reserve(p, d))
		max := bi(n.Balance(n.Ctx, n.Accts[a], gammtypes.GetPoolShareDenom(p.id)))
		if st.Arg(7) == 1 || max.Sign() <= 0 {
			max = big.NewInt(1)
		}
		m := &gammtypes.MsgExitSwapExternAmountOut{Sender: n.Accts[a].String(), PoolId: p.id, TokenOut: coin(d, amt), ShareInMaxAmount: toInt(max)}
		return &built{msg: m, kind: "exitout", sender: a, pools: []uint64{p.id}, note: fmt.Sprintf("pool=%d out=%s%s", p.id, amt, d)}
	case "swapin", "swapout":
		p1 := w.pool(st.Arg(3))
		if p1 == nil {
			return nil
		}
		a := w.actor(st.Arg(0))
		hops := int(st.Arg(2))
		if hops < 1 {
			hops = 1
		}
		if hops > 3 {
			hops = 3
		}
		in := pick(p1.denoms, st.Arg(4))
		type hop struct {
			p       *poolInfo
			in, out string
		}
		route := []hop{{p1, in, pickOther(p1.denoms, in, st.Arg(5))}}
		for h := 1; h < hops; h++ {
			cur := route[len(route)-1].out
			cands := w.poolsWith(cur)
			if len(cands) == 0 {
				break
			}
			sel := st.Arg(4 + 2*h)
			if sel < 0 {
				sel = -sel
			}
			np := cands[int(sel)%len(cands)]
			route = append(route, hop{np, cur, pickOther(np.denoms, cur, st.Arg(5+2*h))})
		}
		var ids []uint64
		for _, h := range route {
			ids = append(ids, h.p.id)
		}
		via := st.Arg(1)
		if st.Op == "swapin" {
			amt := amount(st, 10, w.reserve(p1, in))
			if p1.stable && st.Arg(14) != 1 {
				amt = below(amt, w.reserve(p1, in), st.Arg(11))
			}
			min := big.NewInt(1)
			if st.Arg(14) == 1 {
				last := route[len(route)-1]
				min = new(big.Int).Add(w.reserve(last.p, last.out), big.NewInt(1))
			}
			var rs []pmtypes.SwapAmountInRoute
			for _, h := range route {
				rs = append(rs, pmtypes.SwapAmountInRoute{PoolId: h.p.id, TokenOutDenom: h.out})
			}
			var m sdk.Msg
			if via == 1 {
				m = &gammtypes.MsgSwapExactAmountIn{Sender: n.Accts[a].String(), Routes: rs, TokenIn: coin(in, amt), TokenOutMinAmount: toInt(min)}
			} else {
				m = &pmtypes.MsgSwapExactAmountIn{Sender: n.Accts[a].String(), Routes: rs, TokenIn: coin(in, amt), TokenOutMinAmount: toInt(min)}
			}
			return &built{msg: m, kind: "swapin", sender: a, pools: ids, swap: true, note: fmt.Sprintf("route=%v in=%s%s", ids, amt, in)}
		}
		last := route[len(route)-1]
		amt := amount(st, 10, w.reserve(last.p, last.out))
		max := bi(n.Balance(n.Ctx, n.Accts[a], in))
		if st.Arg(14) == 1 || max.Sign() <= 0 {
			max = big.NewInt(1)
		}
		var rs []pmtypes.SwapAmountOutRoute
		for _, h := range route {
			rs = append(rs, pmtypes.SwapAmountOutRoute{PoolId: h.p.id, TokenInDenom: h.in})
		}
		var m sdk.Msg
		if via == 1 {
			m = &gammtypes.MsgSwapExactAmountOut{Sender: n.Accts[a].String(), Routes: rs, TokenOut: coin(last.out, amt), TokenInMaxAmount: toInt(max)}
		} else {
			m = &pmtypes.MsgSwapExactAmountOut{Sender: n.Accts[a].String(), Routes: rs, TokenOut: coin(last.out, amt), TokenInMaxAmount: toInt(max)}
		}
		return &built{msg: m, kind: "swapout", sender: a, pools: ids, swap: true, note: fmt.Sprintf("route=%v out=%s%s", ids, amt, last.out)}
	case "splitin", "splitout":
		p1 := w.pool(st.Arg(1))
		if p1 == nil {
			return nil
		}
		a := w.actor(st.Arg(0))
		in := pick(p1.denoms, st.Arg(2))
		out := pickOther(p1.denoms, in, st.Arg(3))
		// second path: another pool with both denoms, else two hops over an intermediate denom
		type path struct {
			pools []*poolInfo
			mids  []string // denoms between the hops
		}
		paths := []path{{pools: []*poolInfo{p1}}}
		var alt []*poolInfo
		for _, q := range w.poolsWith(in, out) {
			if q.id != p1.id {
				alt = append(alt, q)
			}
		}
		sel := st.Arg(4)
		if sel < 0 {
			sel = -sel
		}
		if len(alt) > 0 {
			paths = append(paths, path{pools: []*poolInfo{alt[int(sel)%len(alt)]}})
		} else {
		search:
			for _, q := range w.poolsWith(in) {
				for _, mid := range q.denoms {
					if mid == in || mid == out {
						continue
					}
					for _, q2 := range w.poolsWith(mid, out) {
						paths = append(paths, path{pools: []*poolInfo{q, q2}, mids: []string{mid}})
						break search
					}
				}
			}
		}
		var ids []uint64
		for _, pa := range paths {
			for _, q := range pa.pools {
				ids = append(ids, q.id)
			}
		}
		if st.Op == "splitin" {
			var rs []pmtypes.SwapAmountInSplitRoute
			for k, pa := range paths {
				var hops []pmtypes.SwapAmountInRoute
				for h, q := range pa.pools {
					o := out
					if h < len(pa.mids) {
						o = pa.mids[h]
					}
					hops = append(hops, pmtypes.SwapAmountInRoute{PoolId: q.id, TokenOutDenom: o})
				}
				amt := amount(st, 5+4*k, w.reserve(pa.pools[0], in))
				rs = append(rs, pmtypes.SwapAmountInSplitRoute{Pools: hops, TokenInAmount: toInt(amt)})
			}
			m := &pmtypes.MsgSplitRouteSwapExactAmountIn{Sender: n.Accts[a].String(), Routes: rs, TokenInDenom: in, TokenOutMinAmount: osmomath.OneInt()}
			return &built{msg: m, kind: "swapin", sender: a, pools: ids, swap: true, note: fmt.Sprintf("split=%v %s->%s", ids, in, out)}
		}
		var rs []pmtypes.SwapAmountOutSplitRoute
		for k, pa := range paths {
			var hops []pmtypes.SwapAmountOutRoute
			for h, q := range pa.pools {
				i := in
				if h > 0 {
					i = pa.mids[h-1]
				}
				hops = append(hops, pmtypes.SwapAmountOutRoute{PoolId: q.id, TokenInDenom: i})
			}
			lastp := pa.pools[len(pa.pools)-1]
			amt := amount(st, 5+4*k, w.reserve(lastp, out))
			rs = append(rs, pmtypes.SwapAmountOutSplitRoute{Pools: hops, TokenOutAmount: toInt(amt)})
		}
		max := bi(n.Balance(n.Ctx, n.Accts[a], in))
		if max.Sign() <= 0 {
			max = big.NewInt(1)
		}
		m := &pmtypes.MsgSplitRouteSwapExactAmountOut{Sender: n.Accts[a].String(), Routes: rs, TokenOutDenom: out, TokenInMaxAmount: toInt(max)}
		return &built{msg: m, kind: "swapout", sender: a, pools: ids, swap: true, note: fmt.Sprintf("split=%v %s->%s", ids, in, out)}
	case "donate":
		p := w.pool(st.Arg(1))
		if p == nil {
			return nil
		}
		a := w.actor(st.Arg(0))
		d := pick(w.denoms, st.Arg(2))
		ref := w.reserve(p, d)
		if ref.Sign() == 0 {
			ref = big.NewInt(1000)
		}
		amt := amount(st, 3, ref)
		c := coin(d, amt)
		m := &banktypes.MsgSend{FromAddress: n.Accts[a].String(), ToAddress: p.addr.String(), Amount: sdk.NewCoins(c)}
		return &built{msg: m, kind: "donate", sender: a, pools: []uint64{p.id}, donate: p, dcoin: c, note: fmt.Sprintf("pool=%d %s", p.id, c)}
	case "setfee": // kind 1: per-pair override through the admin message
		a := 0
		if st.Arg(4) == 9 {
			a = 1 % w.accts // not an admin: must be refused
		}
		d0 := pick(w.denoms, st.Arg(1))
		d1 := pickOther(w.denoms, d0, st.Arg(2))
		fee := osmomath.MustNewDecFromStr(takerFees[int(st.Arg(3))%len(takerFees)])
		m := &pmtypes.MsgSetDenomPairTakerFee{Sender: n.Accts[a].String(), DenomPairTakerFee: []pmtypes.DenomPairTakerFee{{TokenInDenom: d0, TokenOutDenom: d1, TakerFee: fee}}}
		return &built{msg: m, kind: "setfee", sender: a, note: fmt.Sprintf("%s->%s fee=%s", d0, d1, fee)}
	}
	return nil
}

// deliver runs one message with its fault and evaluates every oracle.
func (w *world) deliver(i int, st simcore.Step, b *built) bool {
	run, n := w.run, w.n
	fk, fa := simcore.ParseFault(st.F)
	pre := w.snapshot(n.Ctx)
	prePools := w.readPools(n.Ctx)
	w.drained = map[string]bool{}
	w.mismatch = ""
	dg := n.Digest(n.Ctx, "bank", "gamm", "poolmanager")
	res := n.DeliverFault(b.msg, fk, fa)
	run.Event(st.Op, res.Outcome)
	run.Logf("%d %s %s f=%s -> %s gas=%d err=%v", i, st.Op, b.note, st.F, res.Outcome, res.GasUsed, res.Err)
	switch res.Outcome {
	case "ok":
		if b.create {
			id := createdPoolID(res)
			cp, err := n.App.GAMMKeeper.GetPoolAndPoke(n.Ctx, id)
			if err != nil {
				panic(fmt.Sprintf("harness: created pool %d unreadable: %v", id, err))
			}
			pi := &poolInfo{id: id, addr: pmtypes.NewPoolAddress(id), don: map[string]*big.Int{}}
			_, pi.stable = cp.(*stableswap.Pool)
			pi.denoms = cp.GetTotalPoolLiquidity(n.Ctx).Denoms()
			sort.Strings(pi.denoms)
			pi.controller = b.stabCreator
			w.pools = append(w.pools, pi)
			b.pools = append(b.pools, id)
			if len(pi.denoms) == 8 {
				run.Probe("eight-asset-pool")
			}
			if pi.stable {
				run.Probe("stableswap-pool-created")
			}
			if b.lbp {
				run.Probe("smooth-weight-change-pool-created")
			}
		}
		if b.adjsf != nil {
			run.Probe("stableswap-rescaled")
		}
		if b.donate != nil {
			cur := b.donate.don[b.dcoin.Denom]
			if cur == nil {
				cur = new(big.Int)
			}
			b.donate.don[b.dcoin.Denom] = new(big.Int).Add(cur, bi(b.dcoin.Amount))
			run.Probe("donation-to-pool")
		}
		for _, id := range b.pools {
			if q := w.poolByID(id); q != nil {
				cp, err := n.App.GAMMKeeper.GetPoolAndPoke(n.Ctx, id)
				if err == nil {
					run.Logf("   pool %d: reserves=%s shares=%s bank=%s", id, cp.GetTotalPoolLiquidity(n.Ctx), cp.GetTotalShares(), n.AllBalances(n.Ctx, q.addr))
				}
			}
		}
		post := w.snapshot(n.Ctx)
		if !w.ledger(st.Op, b, pre, post) && run.Stop() {
			return false
		}
		{
			postPools := w.readPools(n.Ctx)
			if _, ok := w.replay(st.Op, b.kind, prePools, postPools, parseOps(append(append([]abci.Event(nil), res.Events...), res.Resp.Events...)), n.Ctx); !ok && run.Stop() {
				return false
			}
		}
	case "err", "invalid", "oog", "abort", "panic":
		if res.Err != nil && debugErrClasses {
			run.Count("errclass/" + st.Op + "/" + errClass(res.Err.Error()))
		}
		if res.Outcome == "oog" || res.Outcome == "abort" {
			run.Fault(res.Outcome)
		}
		if res.Outcome == "panic" {
			run.Probe("handler-panic")
			run.Logf("   panic: %v", res.Panic)
		}
		if got := n.Digest(n.Ctx, "bank", "gamm", "poolmanager"); got != dg {
			run.Fail("C02", "failed-message-changed-state", st.Op, "%s ended as %s (%v) but the bank/gamm/poolmanager stores changed: digest %s -> %s", st.Op, res.Outcome, res.Err, dg, got)
			if run.Stop() {
				return false
			}
		}
	}
	if !w.invariants(st.Op) && run.Stop() {
		return false
	}
	if w.mismatch != "" {
		// the bank and the pools agree (C02 holds) yet the swap/join/exit events do
		// not add up to the pool's state change: the reference cannot follow
		panic(w.mismatch)
	}
	return true
}

func createdPoolID(res simchain.Result) uint64 {
	if res.Resp == nil || len(res.Resp.MsgResponses) == 0 {
		panic("harness: create pool without response")
	}
	switch r := res.Resp.MsgResponses[0].GetCachedValue().(type) {
	case *balancer.MsgCreateBalancerPoolResponse:
		return r.PoolID
	case *stableswap.MsgCreateStableswapPoolResponse:
		return r.PoolID
	}
	panic(fmt.Sprintf("harness: unexpected create response %T", res.Resp.MsgResponses[0].GetCachedValue()))
}

// debugErrClasses adds per-operation error-class counters (generator tuning).
var debugErrClasses = os.Getenv("CLASSIC_ERRCLASS") != ""

func errClass(s string) string {
	var b []byte
	for i := 0; i < len(s) && len(b) < 70; i++ {
		c := s[i]
		if c >= '0' && c <= '9' {
			continue
		}
		b = append(b, c)
	}
	return string(b)
}

// debugSlow prints steps that take long on the wall clock (diagnostics only;
// nothing measured here reaches the trace or any oracle).
var debugSlow = os.Getenv("CLASSIC_SLOW") != ""
var slowPrev struct {
	i    int
	st   simcore.Step
	t0   time.Time
	seed uint64
	set  bool
}

func lastSlow(i int, st simcore.Step, t0 time.Time, seed uint64) {
	if slowPrev.set && slowPrev.seed == seed {
		if d := t0.Sub(slowPrev.t0); d > 300*time.Millisecond {
			fmt.Fprintf(os.Stderr, "SLOW seed=%d step=%d %s f=%s took %s\n", seed, slowPrev.i, slowPrev.st.Op, slowPrev.st.F, d)
		}
	}
	slowPrev.i, slowPrev.st, slowPrev.t0, slowPrev.seed, slowPrev.set = i, st, t0, seed, true
}
