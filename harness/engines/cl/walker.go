package cl

import (
	"math/big"
	"sort"
)

// The reference curve walker: the exact piecewise constant-liquidity curve of
// concentrated liquidity, in rational arithmetic.
//
//	virtual reserves inside one bucket with liquidity L:  x = L/s, y = L*s  (s = sqrt price)
//	token0 in  (price falls):  dx = L*(1/s' - 1/s),  dy_out = L*(s - s')
//	token1 in  (price rises):  dy = L*(s' - s),      dx_out = L*(1/s - 1/s')
//	spread factor f is charged on the input: of an input R only R*(1-f) moves the price.
//
// It walks through the initialised ticks of the reference tick map (built from
// position operations, not read from the implementation); the only values
// taken from the implementation are the pre-swap sqrt price / tick and the
// public tick -> sqrt price map for the bucket boundaries.

type rat = big.Rat

func rnew() *rat               { return new(big.Rat) }
func radd(a, b *rat) *rat      { return rnew().Add(a, b) }
func rsub(a, b *rat) *rat      { return rnew().Sub(a, b) }
func rmul(a, b *rat) *rat      { return rnew().Mul(a, b) }
func rquo(a, b *rat) *rat      { return rnew().Quo(a, b) }
func rint(i int64) *rat        { return rnew().SetInt64(i) }
func rfromInt(b *big.Int) *rat { return rnew().SetInt(b) }
func rmin(a, b *rat) *rat {
	if a.Cmp(b) <= 0 {
		return a
	}
	return b
}

type walkStep struct {
	liq     *rat // liquidity active during the step
	in      *rat // input that moved the price
	fee     *rat // spread charge of the step (in input token)
	out     *rat
	tick    int64 // current tick while the price moved inside this bucket (before any crossing)
	tickLo  int64 // tick range [tickLo, tickHi] the price visited in this step
	tickHi  int64
	crossed bool
}

type walkResult struct {
	feasible bool // false: ran out of initialised ticks before the amount was filled
	in       *rat // total charged incl. spread
	out      *rat
	fee      *rat
	endSqrt  *rat
	steps    []walkStep
	crossed  int
	maxLiq   *rat
	short    *rat // infeasible: what was left unfilled when the initialised ticks ran out
}

// walk computes the ideal swap. zeroForOne: token0 in, price falls.
// exactIn: amount is the input incl. spread; else amount is the desired output.
// ticks: initialised tick -> net liquidity; liq: active liquidity at the start;
// sqrtAt: tick -> sqrt price; limit: sqrt price limit (min or max sqrt price).
func walk(zeroForOne, exactIn bool, amount *rat, f *rat, s0 *rat, tick0 int64, liq0 *rat, ticks map[int64]*rat, sqrtAt func(int64) *rat, limit *rat) walkResult {
	res := walkResult{in: rnew(), out: rnew(), fee: rnew(), maxLiq: rnew().Set(liq0)}
	var order []int64
	for t := range ticks {
		if zeroForOne && t <= tick0 || !zeroForOne && t > tick0 {
			order = append(order, t)
		}
	}
	sort.Slice(order, func(i, j int) bool {
		if zeroForOne {
			return order[i] > order[j]
		}
		return order[i] < order[j]
	})
	one := rint(1)
	oneMinusF := rsub(one, f)
	s := rnew().Set(s0)
	L := rnew().Set(liq0)
	R := rnew().Set(amount)
	curTick := tick0
	idx := 0
	for R.Sign() > 0 && s.Cmp(limit) != 0 {
		if idx >= len(order) {
			// ran out of initialised ticks. A remainder below the rounding scale is not a
			// feasibility verdict: the implementation rounds each bucket in the pool's favour
			// and may legitimately stop exactly on the last tick.
			// (every bucket's input is rounded up to a whole unit: up to one unit per bucket walked)
			slack := radd(rint(2+int64(len(res.steps))), rquo(amount, rnew().SetFrac64(100000000000000000, 1)))
			if R.Cmp(slack) <= 0 {
				break
			}
			res.short = rnew().Set(R)
			return res // infeasible
		}
		nt := order[idx]
		tickSqrt := sqrtAt(nt)
		target := tickSqrt
		clamped := false
		if zeroForOne && target.Cmp(limit) < 0 || !zeroForOne && target.Cmp(limit) > 0 {
			target = limit
			clamped = true
		}
		st := walkStep{liq: rnew().Set(L), in: rnew(), fee: rnew(), out: rnew()}
		next := target
		reached := true
		if L.Sign() > 0 && s.Cmp(target) != 0 {
			if exactIn {
				avail := rmul(R, oneMinusF)
				var need *rat
				if zeroForOne {
					need = rmul(L, rsub(rquo(one, target), rquo(one, s)))
				} else {
					need = rmul(L, rsub(target, s))
				}
				if avail.Cmp(need) >= 0 {
					st.in = need
					st.fee = rquo(rmul(need, f), oneMinusF)
				} else {
					reached = false
					st.in = avail
					st.fee = rsub(R, avail)
					if zeroForOne {
						next = rquo(rmul(L, s), radd(L, rmul(avail, s)))
					} else {
						next = radd(s, rquo(avail, L))
					}
				}
				if zeroForOne {
					st.out = rmul(L, rsub(s, next))
				} else {
					st.out = rmul(L, rsub(rquo(one, s), rquo(one, next)))
				}
				R = rsub(R, radd(st.in, st.fee))
			} else {
				var maxOut *rat
				if zeroForOne {
					maxOut = rmul(L, rsub(s, target))
				} else {
					maxOut = rmul(L, rsub(rquo(one, s), rquo(one, target)))
				}
				if R.Cmp(maxOut) >= 0 {
					st.out = maxOut
				} else {
					reached = false
					st.out = rnew().Set(R)
					if zeroForOne {
						next = rsub(s, rquo(R, L))
					} else {
						next = rquo(rmul(L, s), rsub(L, rmul(R, s)))
					}
				}
				if zeroForOne {
					st.in = rmul(L, rsub(rquo(one, next), rquo(one, s)))
				} else {
					st.in = rmul(L, rsub(next, s))
				}
				st.fee = rquo(rmul(st.in, f), oneMinusF)
				R = rsub(R, st.out)
			}
		}
		res.in = radd(res.in, radd(st.in, st.fee))
		res.out = radd(res.out, st.out)
		res.fee = radd(res.fee, st.fee)
		st.tick, st.tickLo, st.tickHi = curTick, curTick, curTick
		s = next
		if reached && !clamped {
			// cross the tick
			net := ticks[nt]
			if zeroForOne {
				L = rsub(L, net)
				curTick = nt - 1
				st.tickLo = nt - 1
			} else {
				L = radd(L, net)
				curTick = nt
				st.tickHi = nt
			}
			if L.Cmp(res.maxLiq) > 0 {
				res.maxLiq = rnew().Set(L)
			}
			st.crossed = true
			res.crossed++
			idx++
		} else if reached {
			// reached the price limit
			res.steps = append(res.steps, st)
			break
		} else {
			if zeroForOne {
				st.tickLo = nt // somewhere inside the bucket above nt
			} else {
				st.tickHi = nt - 1
			}
		}
		res.steps = append(res.steps, st)
	}
	res.feasible = true
	res.endSqrt = s
	return res
}
