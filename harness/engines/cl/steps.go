package cl

import (
	"fmt"
	"math/big"
	"os"
	"time"

	sdk "github.com/cosmos/cosmos-sdk/types"

	"github.com/osmosis-labs/osmosis/osmomath"
	clmath "github.com/osmosis-labs/osmosis/v31/x/concentrated-liquidity/math"
	clmodel "github.com/osmosis-labs/osmosis/v31/x/concentrated-liquidity/model"
	cltypes "github.com/osmosis-labs/osmosis/v31/x/concentrated-liquidity/types"
	incentivestypes "github.com/osmosis-labs/osmosis/v31/x/incentives/types"
	lockuptypes "github.com/osmosis-labs/osmosis/v31/x/lockup/types"
	poolmanagertypes "github.com/osmosis-labs/osmosis/v31/x/poolmanager/types"

	"verif/harness/simchain"
	"verif/harness/simcore"
)

func resp(res simchain.Result) interface{} {
	if res.Resp == nil || len(res.Resp.MsgResponses) == 0 {
		return nil
	}
	return res.Resp.MsgResponses[0].GetCachedValue()
}

func floorDiv(a, b int64) int64 {
	q := a / b
	if a%b != 0 && (a < 0) != (b < 0) {
		q--
	}
	return q
}

func clampTick(t int64) int64 {
	if t < cltypes.MinInitializedTick {
		return cltypes.MinInitializedTick
	}
	if t > cltypes.MaxTick {
		return cltypes.MaxTick
	}
	return t
}

// poolState reads the pool as the implementation reports it.
// claimDust: the sub-unit remainder of a spread-reward claim is re-added to the pool's accumulator, i.e. handed
// to the other positions of the pool: each of them may later claim up to one unit more per such claim.
func (w *world) claimDust(claimer *refPos) {
	for _, q := range w.poolPositions(claimer.pool) {
		if q != claimer {
			q.tolUp = radd(q.tolUp, rint(1))
		}
	}
}

// roundTicks are ticks whose square-root price is a short decimal (see Generate): prices 0.25 0.81 0.9801 1
// 1.0201 1.0404 1.21 2.25 4, i.e. square roots 0.5 0.9 0.99 1 1.01 1.02 1.1 1.5 2.
var roundTicks = []int64{-7500000, -1900000, -199000, 0, 20100, 40400, 210000, 1250000, 3000000}

func (w *world) poolState(ctx sdk.Context, p *refPool) (tick int64, sqrt osmomath.BigDec, liq osmomath.Dec) {
	pool, err := w.n.App.ConcentratedLiquidityKeeper.GetConcentratedPoolById(ctx, p.id)
	if err != nil {
		panic(err)
	}
	return pool.GetCurrentTick(), pool.GetCurrentSqrtPrice(), pool.GetLiquidity()
}

// step executes one user operation and updates the reference.
func (w *world) step(i int, st simcore.Step) bool {
	run, n := w.run, w.n
	fk, fa := simcore.ParseFault(st.F)
	deliver := func(msg sdk.Msg) simchain.Result {
		res := n.DeliverFault(msg, fk, fa)
		run.Event(st.Op, res.Outcome)
		switch res.Outcome {
		case "oog", "abort":
			run.Fault(res.Outcome)
		case "panic":
			run.Probe("message-panic-recovered") // runTx recovers it: the transaction fails, state is rolled back
		}
		run.Logf("%d %s %v f=%s -> %s gas=%d err=%v", i, st.Op, st.A, st.F, res.Outcome, res.GasUsed, res.Err)
		return res
	}
	switch st.Op {
	case "pool":
		if len(w.pools) >= 3 {
			run.Event("pool", "skip")
			return true
		}
		d0 := denom0s[int(st.Arg(1))%len(denom0s)]
		q := quotes[int(st.Arg(1)/2)%len(quotes)]
		for _, ex := range w.pools { // one pool per pair keeps routing unambiguous
			if ex.d0 == d0 && ex.d1 == q {
				if d0 == denom0s[0] {
					d0 = denom0s[1]
				} else {
					q = quotes[1]
				}
			}
		}
		sp := spacings[int(st.Arg(2))%len(spacings)]
		sf := osmomath.MustNewDecFromStr(spreads[int(st.Arg(3))%len(spreads)])
		if w.round {
			sp = 100
			if st.Arg(3)%4 != 3 {
				sf = osmomath.ZeroDec()
			}
		}
		sender := n.Accts[int(st.Arg(0))%w.users]
		res := deliver(&clmodel.MsgCreateConcentratedPool{Sender: sender.String(), Denom0: d0, Denom1: q, TickSpacing: sp, SpreadFactor: sf})
		if !res.OK() {
			return !run.Stop()
		}
		r, ok := resp(res).(*clmodel.MsgCreateConcentratedPoolResponse)
		if !ok {
			run.Fail("C07", "response", "pool", "no pool creation response")
			if run.Enabled("C07") {
				return false
			}
		}
		pool, err := n.App.ConcentratedLiquidityKeeper.GetConcentratedPoolById(n.Ctx, r.PoolID)
		if err != nil {
			run.Fail("C07", "pool-missing", "pool", "created pool %d not found: %v", r.PoolID, err)
			if run.Enabled("C07") {
				return false
			}
		}
		w.pools = append(w.pools, &refPool{id: r.PoolID, d0: d0, d1: q, spacing: int64(sp), spread: sf, addr: pool.GetAddress(), spreadAdr: pool.GetSpreadRewardsAddress(), incAdr: pool.GetIncentivesAddress(), scaled: r.PoolID > w.threshold, iscaled: r.PoolID > w.ithreshold, dustPrec: rnew()})
		return true

	case "pos":
		p := w.pickPool(st.Arg(1))
		if p == nil || len(w.pos) >= 24 {
			run.Event("pos", "skip")
			return true
		}
		owner := int(st.Arg(0)) % w.users
		ct, _, _ := w.poolState(n.Ctx, p)
		base := floorDiv(ct, p.spacing) * p.spacing
		a, b := st.Arg(3), st.Arg(4)
		if b < 1 {
			b = 1
		}
		var lo, hi int64
		switch st.Arg(2) {
		case 0:
			lo, hi = cltypes.MinInitializedTick, cltypes.MaxTick
		case 1:
			lo, hi = base-a*b*p.spacing*10, base+a*b*p.spacing*10+p.spacing
		case 2:
			lo, hi = base, base+p.spacing
		case 3:
			lo, hi = base-(a+b)*p.spacing, base-a*p.spacing
		case 4:
			lo, hi = base+(a+1)*p.spacing, base+(a+1+b)*p.spacing
		case 5:
			lo, hi = base-a*p.spacing, base+(b+1)*p.spacing
		case 6, 7:
			if ex := w.pickPos(a); ex != nil && ex.pool == p {
				if st.Arg(2) == 7 {
					lo, hi = ex.lower, ex.upper
				} else if b%2 == 0 {
					lo, hi = ex.upper, ex.upper+b*p.spacing
				} else {
					lo, hi = ex.lower-b*p.spacing, ex.lower
				}
			} else {
				lo, hi = base-b*p.spacing, base+b*p.spacing
			}
		}
		lo, hi = clampTick(lo), clampTick(hi)
		if lo >= hi {
			lo, hi = clampTick(base-p.spacing), clampTick(base+p.spacing)
		}
		amt0, amt1 := amountOf(st.Arg(5), st.Arg(6)), amountOf(st.Arg(7), st.Arg(8))
		if w.round && st.Arg(2) != 0 && st.Arg(2) != 7 {
			// boundaries on ticks with short-decimal square-root prices, whole-number liquidity
			first := len(w.poolPositions(p)) == 0
			i, j := int(a)%len(roundTicks), int(a+b)%len(roundTicks)
			if first {
				i, j = int(a)%4, 4+int(b)%(len(roundTicks)-4) // straddles price 1
			}
			if i == j {
				j = (i + 1) % len(roundTicks)
			}
			if i > j {
				i, j = j, i
			}
			lo, hi = roundTicks[i], roundTicks[j]
			amt1 = pow10(4 + st.Arg(7)%6).MulRaw([]int64{1, 2, 5}[st.Arg(5)%3])
			amt0 = amt1.MulRaw(1000) // ample: the quote side decides the liquidity
			if first {
				amt0 = amt1 // sets the price to exactly 1
			}
			run.Probe("round-world-position")
		}
		if len(w.poolPositions(p)) == 0 {
			// first position sets the price amt1/amt0: steer it into the run's price regime
			switch w.run.Plan.Cfg("price", 0) {
			case 1:
				amt0 = amt1.Mul(pow10(9))
			case 2:
				amt1 = amt0.Mul(pow10(9))
			}
		}
		coins := sdk.NewCoins(sdk.NewCoin(p.d0, amt0), sdk.NewCoin(p.d1, amt1))
		mk := func(o int) (simchain.Result, *cltypes.MsgCreatePositionResponse) {
			res := deliver(&cltypes.MsgCreatePosition{PoolId: p.id, Sender: n.Accts[o].String(), LowerTick: lo, UpperTick: hi, TokensProvided: coins, TokenMinAmount0: osmomath.ZeroInt(), TokenMinAmount1: osmomath.ZeroInt()})
			if !res.OK() {
				return res, nil
			}
			r, _ := resp(res).(*cltypes.MsgCreatePositionResponse)
			return res, r
		}
		_, r := mk(owner)
		if run.Stop() {
			return false
		}
		if r == nil {
			return true
		}
		w.addPosition(p, owner, r, false)
		// sibling: the same range and tokens by somebody else, right away (twin when liquidity matches)
		if st.Arg(9) == 0 && len(w.pos) < 24 && fk == "" {
			o2 := (owner + 1) % w.users
			if st.Arg(5)%2 == 0 {
				coins = sdk.NewCoins(sdk.NewCoin(p.d0, amt0.MulRaw(3)), sdk.NewCoin(p.d1, amt1.MulRaw(3)))
			}
			if _, r2 := mk(o2); r2 != nil {
				w.addPosition(p, o2, r2, true)
				run.Probe("sibling-positions")
			}
		}
		return !run.Stop()

	case "add":
		ps := w.pickPos(st.Arg(0))
		if ps == nil {
			run.Event("add", "skip")
			return true
		}
		res := deliver(&cltypes.MsgAddToPosition{PositionId: ps.id, Sender: n.Accts[ps.owner].String(), Amount0: amountOf(st.Arg(1), st.Arg(2)), Amount1: amountOf(st.Arg(3), st.Arg(4)), TokenMinAmount0: osmomath.ZeroInt(), TokenMinAmount1: osmomath.ZeroInt()})
		if !res.OK() {
			return !run.Stop()
		}
		r, _ := resp(res).(*cltypes.MsgAddToPositionResponse)
		if r == nil {
			run.Fail("C07", "response", "add", "no add-to-position response")
			if run.Enabled("C07") {
				return false
			}
		}
		// documented behaviour: the old position is withdrawn in full (rewards paid out) and a new one created
		np, err := n.App.ConcentratedLiquidityKeeper.GetPosition(n.Ctx, r.PositionId)
		if err != nil {
			run.Fail("C07", "position-missing", "add", "position %d returned by add-to-position does not exist: %v", r.PositionId, err)
			if run.Enabled("C07") {
				return false
			}
		}
		pool := ps.pool
		owner := ps.owner
		w.claimDust(ps) // the full withdrawal inside claims the spread rewards: the sub-unit remainder goes to the pool mates
		delete(w.pos, ps.id)
		pool.ops += 3
		{
			_, sq, _ := w.poolState(n.Ctx, pool)
			w.notePrecision(pool, rmul(decToRat(np.Liquidity), rint(3)), sqrtAtTick(np.LowerTick), bigDecToRat(sq))
		}
		w.pos[np.PositionId] = &refPos{id: np.PositionId, owner: owner, pool: pool, lower: np.LowerTick, upper: np.UpperTick, liq: np.Liquidity, join: np.JoinTime, never: !w.inRange(pool, np.LowerTick, np.UpperTick), ent: map[string]*rat{}, tol: rnew(), tolUp: rnew()}
		if np.LowerTick != ps.lower || np.UpperTick != ps.upper {
			run.Fail("C07", "range-changed", "add", "add-to-position moved the range from [%d,%d) to [%d,%d)", ps.lower, ps.upper, np.LowerTick, np.UpperTick)
			if run.Enabled("C07") {
				return false
			}
		}
		run.Probe("add-to-position")
		return true

	case "wd":
		ps := w.pickPos(st.Arg(0))
		if ps == nil {
			run.Event("wd", "skip")
			return true
		}
		liq := ps.liq
		if bp := st.Arg(1); bp < 10000 {
			liq = ps.liq.MulInt64(bp).QuoInt64(10000)
			if !liq.IsPositive() {
				liq = osmomath.SmallestDec()
			}
		}
		sender := ps.owner
		if st.Arg(2) == 0 {
			sender = (ps.owner + 1) % w.users
		}
		incBefore := n.Balance(n.Ctx, n.Accts[ps.owner], "uosmo")
		_ = incBefore
		res := deliver(&cltypes.MsgWithdrawPosition{PositionId: ps.id, Sender: n.Accts[sender].String(), LiquidityAmount: liq})
		if res.OK() && sender != ps.owner {
			run.Fail("C07", "foreign-withdraw", "wd", "account %d withdrew position %d owned by %d", sender, ps.id, ps.owner)
			if run.Enabled("C07") {
				return false
			}
		}
		if !res.OK() {
			return !run.Stop()
		}
		ps.pool.ops++
		ps.clean = false
		ps.group = 0
		{
			_, sq, _ := w.poolState(n.Ctx, ps.pool)
			w.notePrecision(ps.pool, decToRat(liq), sqrtAtTick(ps.lower), bigDecToRat(sq))
		}
		if liq.Equal(ps.liq) {
			w.claimDust(ps) // a full withdrawal claims the spread rewards: the sub-unit remainder goes to the pool mates
			delete(w.pos, ps.id)
			run.Probe("full-withdraw")
			if len(w.poolPositions(ps.pool)) == 0 {
				run.Probe("pool-emptied")
			}
		} else {
			ps.liq = ps.liq.Sub(liq)
			run.Probe("partial-withdraw")
		}
		return true

	case "equalize":
		// find positions X, Y of one pool with X.upper == Y.lower and different liquidity; the larger one
		// withdraws exactly the difference, so the shared tick keeps gross > 0 with net == 0
		var pairs [][2]*refPos
		all := w.sortedPos()
		for _, x := range all {
			for _, y := range all {
				if x.pool == y.pool && x.upper == y.lower && !x.liq.Equal(y.liq) {
					pairs = append(pairs, [2]*refPos{x, y})
				}
			}
		}
		if len(pairs) == 0 {
			run.Event("equalize", "skip")
			return true
		}
		pr := pairs[int(st.Arg(0))%len(pairs)]
		big, small := pr[0], pr[1]
		if big.liq.LT(small.liq) {
			big, small = small, big
		}
		diff := big.liq.Sub(small.liq)
		res := deliver(&cltypes.MsgWithdrawPosition{PositionId: big.id, Sender: n.Accts[big.owner].String(), LiquidityAmount: diff})
		if !res.OK() {
			return !run.Stop()
		}
		big.pool.ops++
		big.clean, big.group = false, 0
		{
			_, sq, _ := w.poolState(n.Ctx, big.pool)
			w.notePrecision(big.pool, decToRat(diff), sqrtAtTick(big.lower), bigDecToRat(sq))
		}
		big.liq = big.liq.Sub(diff)
		run.Probe("shared-tick-net-zero-gross-positive")
		return true

	case "cspread", "cinc":
		ps := w.pickPos(st.Arg(0))
		if ps == nil {
			run.Event(st.Op, "skip")
			return true
		}
		ctx := n.Ctx
		_, _, liqHere := w.poolState(ctx, ps.pool)
		if (st.Arg(0)/7)%2 == 1 || liqHere.LT(osmomath.OneDec()) {
			// one message collecting for several positions of the owner: the picked one, then its pool mates, then
			// positions in other pools (always when the pool has no active liquidity: forfeits then go to the sender)
			group := []*refPos{ps}
			for _, same := range []bool{true, false} {
				for _, q := range w.sortedPos() {
					if q != ps && q.owner == ps.owner && (q.pool == ps.pool) == same && len(group) < 3 {
						group = append(group, q)
					}
				}
			}
			if len(group) >= 2 {
				var ids []uint64
				for _, q := range group {
					ids = append(ids, q.id)
				}
				owner := n.Accts[ps.owner]
				before := n.AllBalances(ctx, owner)
				if st.Op == "cspread" {
					want := sdk.NewCoins()
					okq := true
					for _, q := range group {
						c, err := n.App.ConcentratedLiquidityKeeper.GetClaimableSpreadRewards(ctx, q.id)
						if err != nil {
							okq = false
						}
						want = want.Add(c...)
					}
					res := deliver(&cltypes.MsgCollectSpreadRewards{PositionIds: ids, Sender: owner.String()})
					if !res.OK() {
						return !run.Stop()
					}
					run.Probe("multi-position-collect-spread")
					// the sub-unit remainder of each claim is re-added to the pool's accumulator, so a later position of
					// the same message may be paid up to one unit more per earlier claim than it could claim before
					got := n.AllBalances(n.Ctx, owner).Sub(before...)
					bad := !okq
					for _, d := range append(want.Denoms(), got.Denoms()...) {
						diff := got.AmountOf(d).Sub(want.AmountOf(d))
						if diff.IsNegative() || diff.GT(osmomath.NewInt(int64(len(ids)-1))) {
							bad = true
						}
					}
					if bad {
						run.Fail("C08", "claim-equals-claimable", "spread-multi", "positions %v: claimable spread rewards sum to %s but one collect message paid %s", ids, want, got)
						if run.Enabled("C08") {
							return false
						}
					}
					for _, q := range group {
						q.ent, q.tol, q.tolUp = map[string]*rat{}, rnew(), rnew()
						q.claims++
						q.clean, q.group = false, 0
						w.claimDust(q)
					}
					return true
				}
				// incentives: what one position forfeits may be re-deposited to the next one in the same message, so
				// only the pool-level conservation oracle (evaluated around every step) judges the amounts
				res := deliver(&cltypes.MsgCollectIncentives{PositionIds: ids, Sender: owner.String()})
				if !res.OK() {
					return !run.Stop()
				}
				run.Probe("multi-position-collect-incentives")
				for _, q := range group {
					q.clean, q.group = false, 0
				}
				return true
			}
		}
		if st.Op == "cspread" {
			want, qerr := n.App.ConcentratedLiquidityKeeper.GetClaimableSpreadRewards(ctx, ps.id)
			if qerr == nil && fk == "" && !w.ledgerCheck(ps, want, "claim") {
				return false
			}
			before := n.AllBalances(ctx, n.Accts[ps.owner])
			res := deliver(&cltypes.MsgCollectSpreadRewards{PositionIds: []uint64{ps.id}, Sender: n.Accts[ps.owner].String()})
			if !res.OK() {
				return !run.Stop()
			}
			got := n.AllBalances(n.Ctx, n.Accts[ps.owner]).Sub(before...)
			if qerr != nil || !got.Equal(want) {
				run.Fail("C08", "claim-equals-claimable", "spread", "position %d: claimable spread rewards %s (err %v) but the claim paid %s", ps.id, want, qerr, got)
				if run.Enabled("C08") {
					return false
				}
			}
			again, _ := n.App.ConcentratedLiquidityKeeper.GetClaimableSpreadRewards(n.Ctx, ps.id)
			if !again.IsZero() {
				run.Fail("C08", "claim-resets", "spread", "position %d still has %s claimable right after claiming", ps.id, again)
				if run.Enabled("C08") {
					return false
				}
			}
			ps.ent, ps.tol, ps.tolUp = map[string]*rat{}, rnew(), rnew()
			ps.claims++
			w.claimDust(ps)
		} else {
			wantC, wantF, qerr := n.App.ConcentratedLiquidityKeeper.GetClaimableIncentives(ctx, ps.id)
			_, _, liqNow := w.poolState(ctx, ps.pool)
			before := n.AllBalances(ctx, n.Accts[ps.owner])
			res := deliver(&cltypes.MsgCollectIncentives{PositionIds: []uint64{ps.id}, Sender: n.Accts[ps.owner].String()})
			if !res.OK() {
				return !run.Stop()
			}
			got := n.AllBalances(n.Ctx, n.Accts[ps.owner]).Sub(before...)
			// what the position forfeits goes to the liquidity that is active at that moment; when there is none
			// (active liquidity below one) it is handed to the sender, which the property allows ("never paid to it
			// WHILE OTHER LIQUIDITY IS ACTIVE")
			noneActive := liqNow.LT(osmomath.OneDec())
			if noneActive && !wantF.IsZero() && got.Equal(wantC.Add(wantF...)) {
				run.Probe("forfeit-returned-to-sender-no-active-liquidity")
			} else if qerr != nil || !got.Equal(wantC) {
				run.Fail("C08", "claim-equals-claimable", "incentives", "position %d: claimable incentives %s (forfeit %s, err %v) but the claim paid %s", ps.id, wantC, wantF, qerr, got)
				if run.Enabled("C08") {
					return false
				}
			}
			// uptime not reached => nothing paid while other liquidity is active
			if ps.pool.hasGauge && n.Time.Sub(ps.join) < ps.pool.minUptime && !got.IsZero() && !liqNow.LT(osmomath.OneDec()) {
				run.Fail("C08", "uptime-not-reached-paid", "incentives", "position %d is %s old, every incentive of the pool needs uptime >= %s, yet the claim paid %s", ps.id, n.Time.Sub(ps.join), ps.pool.minUptime, got)
				if run.Enabled("C08") {
					return false
				}
			}
			if !wantF.IsZero() {
				run.Probe("incentives-forfeited")
			}
			if !got.IsZero() {
				run.Probe("incentives-claimed")
			}
		}
		ps.clean = false
		ps.group = 0
		return true

	case "transfer":
		ps := w.pickPos(st.Arg(0))
		if ps == nil {
			run.Event("transfer", "skip")
			return true
		}
		to := int(st.Arg(1)) % w.users
		if to == ps.owner {
			to = (to + 1) % w.users
		}
		spreadBefore, _ := n.App.ConcentratedLiquidityKeeper.GetClaimableSpreadRewards(n.Ctx, ps.id)
		incBefore, forfBefore, incErrBefore := n.App.ConcentratedLiquidityKeeper.GetClaimableIncentives(n.Ctx, ps.id)
		res := deliver(&cltypes.MsgTransferPositions{PositionIds: []uint64{ps.id}, Sender: n.Accts[ps.owner].String(), NewOwner: n.Accts[to].String()})
		if !res.OK() {
			return !run.Stop()
		}
		spreadAfter, _ := n.App.ConcentratedLiquidityKeeper.GetClaimableSpreadRewards(n.Ctx, ps.id)
		if !spreadAfter.Equal(spreadBefore) {
			run.Fail("C08", "transfer-keeps-rewards", "spread", "position %d had %s claimable before the transfer and %s after", ps.id, spreadBefore, spreadAfter)
			if run.Enabled("C08") {
				return false
			}
		}
		// the same for incentives, matured and not yet matured alike: a transfer moves the position, not its age
		if incAfter, forfAfter, err := n.App.ConcentratedLiquidityKeeper.GetClaimableIncentives(n.Ctx, ps.id); incErrBefore == nil && (err != nil || !incAfter.Equal(incBefore) || !forfAfter.Equal(forfBefore)) {
			run.Fail("C08", "transfer-keeps-rewards", "incentives", "position %d could claim %s in incentives (and would forfeit %s) before the transfer, %s (forfeit %s, err %v) right after it in the same block", ps.id, incBefore, forfBefore, incAfter, forfAfter, err)
			if run.Enabled("C08") {
				return false
			}
		}
		if !forfBefore.IsZero() {
			run.Probe("position-with-immature-incentives-transferred")
		}
		ps.owner = to
		ps.clean = false
		ps.group = 0
		run.Probe("position-transferred")
		return true

	case "gauge":
		p := w.pickPool(st.Arg(1))
		if p == nil {
			run.Event("gauge", "skip")
			return true
		}
		up := w.uptimes[int(st.Arg(2))%len(w.uptimes)]
		owner := int(st.Arg(0)) % w.users
		perpetual := st.Arg(5) == 1
		epochs := uint64(st.Arg(6))
		if perpetual {
			epochs = 1
		}
		coins := sdk.NewCoins(sdk.NewCoin("uosmo", amountOf(st.Arg(3), st.Arg(4))))
		// two reward denominations (the module walks them in alphabetical order, one incentive record each); a
		// "small" one is less than one unit per remaining epoch, which the pool refuses to turn into a record
		small := osmomath.NewInt(1 + st.Arg(3)%3)
		switch st.Arg(7) {
		case 1: // ample first coin, small later coin
			coins = sdk.NewCoins(sdk.NewCoin(p.d0, amountOf(st.Arg(3), st.Arg(4))), sdk.NewCoin("uosmo", small))
		case 2: // small first coin, ample later coin
			coins = sdk.NewCoins(sdk.NewCoin(p.d0, small), sdk.NewCoin("uosmo", amountOf(st.Arg(3), st.Arg(4))))
		case 3: // two ample coins
			coins = sdk.NewCoins(sdk.NewCoin(p.d0, amountOf(st.Arg(3), st.Arg(4)).QuoRaw(3).AddRaw(1)), sdk.NewCoin("uosmo", amountOf(st.Arg(3), st.Arg(4))))
		}
		res := deliver(&incentivestypes.MsgCreateGauge{IsPerpetual: perpetual, Owner: n.Accts[owner].String(),
			DistributeTo: lockuptypes.QueryCondition{LockQueryType: lockuptypes.NoLock, Duration: up},
			Coins:        coins, StartTime: n.Time, NumEpochsPaidOver: epochs, PoolId: p.id})
		if res.OK() && len(coins) > 1 {
			run.Probe(fmt.Sprintf("no-lock-gauge-two-denoms/%d", st.Arg(7)))
		}
		if res.OK() {
			if !p.hasGauge || up < p.minUptime {
				p.minUptime = up
			}
			p.hasGauge = true
			run.Probe("no-lock-gauge-created")
		}
		return !run.Stop()

	case "tspace":
		// DecreaseConcentratedPoolTickSpacing, as the governance handler runs it: on a branch that is written only on
		// success; a value that is not strictly smaller (or not authorised) must be refused and change nothing
		p := w.pickPool(st.Arg(0))
		if p == nil {
			run.Event("tspace", "skip")
			return true
		}
		var smaller []uint64
		for _, s := range spacings {
			if int64(s) < p.spacing {
				smaller = append(smaller, s)
			}
		}
		nsp := uint64(p.spacing)
		if len(smaller) > 0 && st.Arg(1) != 3 {
			nsp = smaller[int(st.Arg(1))%len(smaller)]
		}
		cctx, write := n.Ctx.CacheContext()
		err := n.App.ConcentratedLiquidityKeeper.DecreaseConcentratedPoolTickSpacing(cctx, []cltypes.PoolIdToTickSpacingRecord{{PoolId: p.id, NewTickSpacing: nsp}})
		switch {
		case err == nil && int64(nsp) < p.spacing:
			write()
			p.spacing = int64(nsp)
			run.Event("tspace", "ok")
			run.Probe("tick-spacing-decreased")
		case err == nil:
			run.Fail("C07", "tick-spacing", "not-smaller-accepted", "pool %d: tick spacing %d -> %d accepted", p.id, p.spacing, nsp)
		default:
			run.Event("tspace", "refused")
		}
		return !run.Stop()

	case "swap":
		return w.swap(i, st, fk, fa)
	}
	return true
}

// notePrecision adds the sqrt-price-precision dust term of one operation moving liquidity liq.
func (w *world) notePrecision(p *refPool, liq *rat, sqrts ...*rat) {
	f := rint(1)
	for _, s := range sqrts {
		if s != nil && s.Sign() > 0 {
			if inv := rquo(rint(1), rmul(s, s)); inv.Cmp(f) > 0 {
				f = inv
			}
		}
	}
	t := rquo(rmul(rmul(liq, f), rint(4)), rfromInt(pow10(36).BigInt()))
	p.dustPrec = radd(p.dustPrec, rfromInt(ceilRat(t)))
}

func (w *world) inRange(p *refPool, lower, upper int64) bool {
	ct, _, _ := w.poolState(w.n.Ctx, p)
	return lower <= ct && ct < upper
}

func (w *world) addPosition(p *refPool, owner int, r *cltypes.MsgCreatePositionResponse, sibling bool) {
	n := w.n
	w.seq++
	ps := &refPos{id: r.PositionId, owner: owner, pool: p, lower: r.LowerTick, upper: r.UpperTick, liq: r.LiquidityCreated, join: n.Time, clean: true, ent: map[string]*rat{}, tol: rnew(), tolUp: rnew()}
	ps.never = !w.inRange(p, ps.lower, ps.upper)
	lc := &w.lastCreated
	if sibling && lc.block == n.Height && lc.pool == p.id && lc.lower == ps.lower && lc.upper == ps.upper && lc.seq == w.seq-1 {
		ps.group = lc.group
	} else {
		w.group++
		ps.group = w.group
	}
	lc.block, lc.pool, lc.lower, lc.upper, lc.group, lc.seq = n.Height, p.id, ps.lower, ps.upper, ps.group, w.seq
	w.pos[ps.id] = ps
	p.ops++
	_, sq, _ := w.poolState(n.Ctx, p)
	w.notePrecision(p, decToRat(ps.liq), sqrtAtTick(ps.lower), bigDecToRat(sq))
}

func bigDecToRat(d osmomath.BigDec) *rat {
	return rnew().SetFrac(d.BigInt(), new(big.Int).Exp(big.NewInt(10), big.NewInt(36), nil))
}

func decToRat(d osmomath.Dec) *rat {
	return rnew().SetFrac(d.BigInt(), new(big.Int).Exp(big.NewInt(10), big.NewInt(18), nil))
}

func ceilRat(r *rat) *big.Int {
	q := new(big.Int).Quo(r.Num(), r.Denom())
	if new(big.Int).Mul(q, r.Denom()).Cmp(r.Num()) < 0 {
		q.Add(q, big.NewInt(1))
	}
	return q
}

// tickMap derives the initialised ticks of a pool from the reference positions.
func (w *world) tickMap(p *refPool) (gross, net map[int64]osmomath.Dec) {
	gross, net = map[int64]osmomath.Dec{}, map[int64]osmomath.Dec{}
	add := func(m map[int64]osmomath.Dec, t int64, v osmomath.Dec) {
		if cur, ok := m[t]; ok {
			m[t] = cur.Add(v)
		} else {
			m[t] = v
		}
	}
	for _, q := range w.poolPositions(p) {
		add(gross, q.lower, q.liq)
		add(gross, q.upper, q.liq)
		add(net, q.lower, q.liq)
		add(net, q.upper, q.liq.Neg())
	}
	return
}

func sqrtAtTick(t int64) *rat {
	s, err := clmath.TickToSqrtPrice(t)
	if err != nil {
		panic(err)
	}
	return bigDecToRat(s)
}

// idealSwap runs the reference walker on the pool's current state.
func (w *world) idealSwap(ctx sdk.Context, p *refPool, zeroForOne, exactIn bool, amount osmomath.Int) walkResult {
	ct, sq, _ := w.poolState(ctx, p)
	_, net := w.tickMap(p)
	ticks := map[int64]*rat{}
	for t, v := range net {
		ticks[t] = decToRat(v)
	}
	liq := osmomath.ZeroDec()
	for _, q := range w.poolPositions(p) {
		if q.lower <= ct && ct < q.upper {
			liq = liq.Add(q.liq)
		}
	}
	limit := bigDecToRat(cltypes.MaxSqrtPriceBigDec)
	if zeroForOne {
		limit = bigDecToRat(cltypes.MinSqrtPriceBigDec)
	}
	return walk(zeroForOne, exactIn, rfromInt(amount.BigInt()), decToRat(p.spread), bigDecToRat(sq), ct, decToRat(liq), ticks, sqrtAtTick, limit)
}

func (w *world) swap(i int, st simcore.Step, fk string, fa int64) bool {
	run, n := w.run, w.n
	p := w.pickPool(st.Arg(1))
	if p == nil || len(w.poolPositions(p)) == 0 {
		run.Event("swap", "skip")
		return true
	}
	trader := n.Accts[int(st.Arg(0))%w.users]
	zeroForOne := st.Arg(2) == 0
	exactIn := st.Arg(3) == 0
	inDenom, outDenom := p.d0, p.d1
	if !zeroForOne {
		inDenom, outDenom = p.d1, p.d0
	}
	poolOut := n.Balance(n.Ctx, p.addr, outDenom)
	var amt osmomath.Int
	switch st.Arg(4) {
	case 0:
		amt = osmomath.NewInt(st.Arg(5)%100 + 1)
	case 1:
		amt = amountOf(st.Arg(5), 3+st.Arg(5)%7)
	case 2:
		if exactIn {
			amt = n.Balance(n.Ctx, p.addr, inDenom).MulRaw(st.Arg(5)).QuoRaw(10000)
		} else {
			amt = poolOut.MulRaw(st.Arg(5)).QuoRaw(10000)
		}
	case 3: // land exactly on (or one unit around) the k-th next initialised tick, amount taken from the reference curve
		huge := rfromInt(pow10(40).BigInt())
		wr := w.idealSwap(n.Ctx, p, zeroForOne, true, osmomath.NewIntFromBigInt(huge.Num()))
		k := int(st.Arg(7))
		acc, seen := rnew(), 0
		for _, s := range wr.steps {
			if exactIn && p.spread.IsZero() {
				// without a spread factor every bucket consumes a whole number of input units
				// (its need rounded up): the sum of those lands exactly on the tick, nothing left over
				acc = radd(acc, rfromInt(ceilRat(s.in)))
			} else if exactIn {
				acc = radd(acc, radd(s.in, s.fee))
			} else {
				acc = radd(acc, s.out)
			}
			if s.crossed {
				seen++
				if seen == k {
					break
				}
			}
		}
		if seen == 0 || acc.Sign() == 0 {
			amt = osmomath.NewInt(st.Arg(5))
		} else {
			amt = osmomath.NewIntFromBigInt(ceilRat(acc)).AddRaw(st.Arg(6))
			run.Probe("swap-aimed-at-tick")
		}
	default: // drain
		if exactIn {
			amt = amountOf(st.Arg(5), 18)
		} else {
			amt = poolOut.MulRaw(9990 + st.Arg(5)%11).QuoRaw(10000)
		}
	}
	if !amt.IsPositive() {
		amt = osmomath.OneInt()
	}
	var msg sdk.Msg
	if exactIn {
		msg = &poolmanagertypes.MsgSwapExactAmountIn{Sender: trader.String(), Routes: []poolmanagertypes.SwapAmountInRoute{{PoolId: p.id, TokenOutDenom: outDenom}}, TokenIn: sdk.NewCoin(inDenom, amt), TokenOutMinAmount: osmomath.OneInt()}
	} else {
		msg = &poolmanagertypes.MsgSwapExactAmountOut{Sender: trader.String(), Routes: []poolmanagertypes.SwapAmountOutRoute{{PoolId: p.id, TokenInDenom: inDenom}}, TokenOut: sdk.NewCoin(outDenom, amt), TokenInMaxAmount: n.Balance(n.Ctx, trader, inDenom)}
	}

	// ---- before: ideal result, estimate (must equal execution and leave state untouched) ----
	ideal := w.idealSwap(n.Ctx, p, zeroForOne, exactIn, amt)
	tickBefore, _, _ := w.poolState(n.Ctx, p)
	ectx, _ := n.Ctx.CacheContext()
	d0 := n.Digest(ectx, "concentratedliquidity", "bank", "poolmanager")
	var est osmomath.Int
	var estErr error
	func() {
		defer func() {
			if x := recover(); x != nil {
				estErr = fmt.Errorf("estimate panicked: %v", x)
			}
		}()
		if exactIn {
			est, estErr = n.App.PoolManagerKeeper.MultihopEstimateOutGivenExactAmountIn(ectx, []poolmanagertypes.SwapAmountInRoute{{PoolId: p.id, TokenOutDenom: outDenom}}, sdk.NewCoin(inDenom, amt))
		} else {
			est, estErr = n.App.PoolManagerKeeper.MultihopEstimateInGivenExactAmountOut(ectx, []poolmanagertypes.SwapAmountOutRoute{{PoolId: p.id, TokenInDenom: inDenom}}, sdk.NewCoin(outDenom, amt))
		}
	}()
	if d1 := n.Digest(ectx, "concentratedliquidity", "bank", "poolmanager"); d1 != d0 {
		run.Fail("C03", "estimate-changes-state", "swap", "the swap estimate changed state (digest %s -> %s)", d0, d1)
		if run.Enabled("C03") {
			return false
		}
	}

	// incentives accrue with time to the liquidity that was active while the time passed; a swap happens at one
	// instant, so it must leave every position's claimable incentives exactly where they were (queries bring the
	// accumulators up to the block time themselves)
	type incSnap struct{ c, f sdk.Coins }
	incBefore := map[uint64]incSnap{}
	for _, q := range w.poolPositions(p) {
		if c, f, err := n.App.ConcentratedLiquidityKeeper.GetClaimableIncentives(n.Ctx, q.id); err == nil {
			incBefore[q.id] = incSnap{c, f}
		}
	}
	inBefore, outBefore := n.Balance(n.Ctx, trader, inDenom), n.Balance(n.Ctx, trader, outDenom)
	spreadAcctBefore := n.Balance(n.Ctx, p.spreadAdr, inDenom)
	res := n.DeliverFault(msg, fk, fa)
	run.Event("swap", res.Outcome)
	run.Logf("%d swap pool=%d z4o=%v exactIn=%v amt=%s f=%s -> %s gas=%d err=%v", i, p.id, zeroForOne, exactIn, amt, st.F, res.Outcome, res.GasUsed, res.Err)
	switch res.Outcome {
	case "oog", "abort":
		run.Fault(res.Outcome)
		return true
	case "panic":
		run.Probe("message-panic-recovered") // runTx recovers it: the transaction fails, state is rolled back
		return true
	}
	if !res.OK() {
		if estErr == nil && fk == "" && res.Err != nil {
			// the estimate succeeded but execution failed: only balance-related failures are legitimate
			run.Count("estimate-ok-execution-failed")
		}
		return true
	}
	paidIn := inBefore.Sub(n.Balance(n.Ctx, trader, inDenom))
	gotOut := n.Balance(n.Ctx, trader, outDenom).Sub(outBefore)
	{
		// reach: did the swap stop with the price exactly on a position boundary?
		_, sqAfter, _ := w.poolState(n.Ctx, p)
		for _, q := range w.poolPositions(p) {
			for _, b := range []int64{q.lower, q.upper} {
				if s, err := clmath.TickToSqrtPrice(b); err == nil && s.Equal(sqAfter) {
					run.Probe(fmt.Sprintf("swap-ended-exactly-on-boundary/zeroForOne=%v/exactIn=%v", zeroForOne, exactIn))
					if st.Arg(4) == 3 && p.spread.IsZero() && exactIn && st.Arg(6) == 0 {
						run.Probe(fmt.Sprintf("swap-consumed-exactly-at-boundary/zeroForOne=%v", zeroForOne))
					}
				}
			}
		}
	}
	p.ops++
	if ideal.feasible {
		_, sq0, _ := w.poolState(ectx, p)
		w.notePrecision(p, rmul(ideal.maxLiq, rint(int64(len(ideal.steps))+1)), bigDecToRat(sq0), ideal.endSqrt)
	}
	w.okOps++

	for _, q := range w.poolPositions(p) {
		b, ok := incBefore[q.id]
		if !ok {
			continue
		}
		c, f, err := n.App.ConcentratedLiquidityKeeper.GetClaimableIncentives(n.Ctx, q.id)
		if err != nil || !c.Equal(b.c) || !f.Equal(b.f) {
			run.Fail("C08", "swap-changes-claimable-incentives", "swap", "position %d [%d,%d) could claim incentives %s (+%s forfeitable) before the swap and %s (+%s) right after it, in the same block (err %v); tick before %d", q.id, q.lower, q.upper, b.c, b.f, c, f, err, tickBefore)
			if run.Enabled("C08") {
				return false
			}
		}
	}
	if len(incBefore) > 0 {
		run.Probe("swap-incentive-invariance-checked")
	}

	// estimate == execution
	calc := gotOut
	if !exactIn {
		calc = paidIn
	}
	if estErr != nil || !est.Equal(calc) {
		run.Fail("C03", "estimate-equals-execution", "swap", "estimate %v (err %v) but execution gave %s (exactIn=%v zeroForOne=%v amount %s)", est, estErr, calc, exactIn, zeroForOne, amt)
		if run.Enabled("C03") {
			return false
		}
	}

	// curve bound
	if !ideal.feasible {
		short := "?"
		if ideal.short != nil {
			short = ideal.short.FloatString(6)
		}
		run.Fail("C03", "executed-beyond-curve", "swap", "the swap executed although the reference curve runs out of initialised ticks before filling %s (unfilled %s after %d buckets; paid %s got %s)", amt, short, len(ideal.steps), paidIn, gotOut)
		if run.Enabled("C03") {
			return false
		}
	}
	buckets := int64(len(ideal.steps))
	p.crossed += int64(ideal.crossed)
	if ideal.crossed > 0 {
		run.Probe("swap-crossed-tick")
	}
	if ideal.crossed > 3 {
		run.Probe("swap-crossed-4+-ticks")
	}
	// The implementation rounds the input of every bucket up to a whole unit (CalcAmount0/1Delta
	// with roundUp end in a ceiling to the next integer, by documented design), so up to one input
	// unit per bucket buys nothing; valued in output units that is at most the best marginal rate
	// along the path, which is the rate at the starting price.
	rate := rint(1)
	if exactIn {
		_, sq0, _ := w.poolState(ectx, p)
		s0 := bigDecToRat(sq0)
		if s0.Sign() > 0 {
			rate = rmul(s0, s0)
			if !zeroForOne {
				rate = rquo(rint(1), rate)
			}
		}
	}
	B := radd(rint(2+2*buckets), rmul(rint(buckets+1), rfromInt(ceilRat(rate))))
	if !exactIn && ideal.endSqrt != nil && ideal.endSqrt.Sign() > 0 {
		// exact-out: the output still to be filled is an 18-digit decimal; near a drained reserve the marginal
		// input per output unit (the end price) is enormous, and 1e-18 of output is worth that many input units
		end := rmul(ideal.endSqrt, ideal.endSqrt)
		if zeroForOne {
			end = rquo(rint(1), end)
		}
		B = radd(B, rfromInt(ceilRat(rquo(rmul(end, rint(4*(buckets+1))), rfromInt(pow10(18).BigInt())))))
	}
	liqTerm := rmul(ideal.maxLiq, rnew().SetFrac64(4*buckets, 1))
	liqTerm = rquo(liqTerm, rfromInt(pow10(36).BigInt()))
	// token0 amounts are L*(1/sa - 1/sb): a 1e-36 rounding of a sqrt price s moves them by L*1e-36/s^2
	{
		_, sq0, _ := w.poolState(ectx, p)
		smin := bigDecToRat(sq0)
		if ideal.endSqrt != nil && ideal.endSqrt.Cmp(smin) < 0 {
			smin = ideal.endSqrt
		}
		if smin.Sign() > 0 {
			if inv := rquo(rint(1), rmul(smin, smin)); inv.Cmp(rint(1)) > 0 {
				liqTerm = rmul(liqTerm, inv)
			}
		}
	}
	B = radd(B, rfromInt(ceilRat(liqTerm)))
	// every bucket multiplies amounts by 18-digit decimals (spread factor, its quotient f/(1-f))
	relTerm := rquo(rmul(radd(ideal.in, ideal.out), rnew().SetFrac64(4*(buckets+1), 1)), rfromInt(pow10(18).BigInt()))
	B = radd(B, rfromInt(ceilRat(relTerm)))
	// On the side that must never be exceeded only an absolute 1e-9 is allowed (the reference is exact; the
	// implementation rounds every 18-digit product and quotient in the pool's favour, including the spread
	// quotient f/(1-f)). An earlier relative allowance of 2e-18 per bucket turned out to be unnecessary (10 000
	// runs over two seeds without it) and hid a seeded change that rounds that quotient to nearest.
	epsOf := func(x *rat) *rat { return rnew().SetFrac64(1, 1_000_000_000) }
	gotOutR, paidInR := rfromInt(gotOut.BigInt()), rfromInt(paidIn.BigInt())
	if gotOutR.Cmp(radd(ideal.out, epsOf(ideal.out))) > 0 {
		run.Fail("C03", "paid-out-more-than-curve", "swap", "pool paid out %s, the exact curve prescribes %s (zeroForOne=%v exactIn=%v amount %s)", gotOut, ideal.out.FloatString(6), zeroForOne, exactIn, amt)
		if run.Enabled("C03") {
			return false
		}
	}
	if radd(paidInR, epsOf(ideal.in)).Cmp(ideal.in) < 0 {
		run.Fail("C03", "charged-less-than-curve", "swap", "pool charged %s, the exact curve prescribes %s (zeroForOne=%v exactIn=%v amount %s)", paidIn, ideal.in.FloatString(6), zeroForOne, exactIn, amt)
		if run.Enabled("C03") {
			return false
		}
	}
	slack := rsub(ideal.out, gotOutR)
	if d := rsub(paidInR, ideal.in); d.Cmp(slack) > 0 {
		slack = d
	}
	if slack.Cmp(B) > 0 {
		dbg := ""
		for _, s := range ideal.steps {
			dbg += fmt.Sprintf(" {tick %d [%d,%d] L=%s in=%s fee=%s out=%s crossed=%v}", s.tick, s.tickLo, s.tickHi, s.liq.FloatString(3), s.in.FloatString(3), s.fee.FloatString(3), s.out.FloatString(3), s.crossed)
		}
		ta, sa, la := w.poolState(n.Ctx, p)
		dbg += fmt.Sprintf(" | impl after: tick %d sqrt %s liq %s; ticks:", ta, sa, la)
		tks, _ := n.App.ConcentratedLiquidityKeeper.GetAllInitializedTicksForPool(n.Ctx, p.id)
		for _, t := range tks {
			dbg += fmt.Sprintf(" %d(net %s)", t.TickIndex, t.Info.LiquidityNet)
		}
		tb, sb, lb := tickBefore, ideal.endSqrt, ideal.maxLiq
		run.Fail("C03", "rounding-exceeds-bound", "swap", "execution differs from the exact curve by %s units (in %s vs %s, out %s vs %s), bound %s for %d buckets; tick before %d ideal end sqrt %s maxL %s steps:%s", slack.FloatString(3), paidIn, ideal.in.FloatString(3), gotOut, ideal.out.FloatString(3), B.FloatString(1), buckets, tb, sb.FloatString(12), lb.FloatString(3), dbg)
		if run.Enabled("C03") {
			return false
		}
	}
	ratio, _ := rquo(slack, B).Float64()
	run.Max("max/c03-rounding-used-permille", int64(ratio*1000))

	// the spread charge reached the spread-reward account
	feePaid := n.Balance(n.Ctx, p.spreadAdr, inDenom).Sub(spreadAcctBefore)
	// the spread charge is amountIn * f/(1-f) with the quotient held as an 18-digit decimal: absolute error amountIn*1e-18 per bucket
	feeRel := rquo(rmul(ideal.in, rint(2*(buckets+1))), rfromInt(pow10(18).BigInt()))
	feeRel = radd(feeRel, B) // the charge follows the input, which itself is only within B of the curve
	if d := rsub(rfromInt(feePaid.BigInt()), ideal.fee); d.Cmp(rsub(rint(-1-buckets), feeRel)) < 0 || d.Cmp(radd(rint(2+buckets), feeRel)) > 0 {
		run.Fail("C08", "spread-charge-not-deposited", "swap", "the curve charges %s spread, the spread-reward account received %s", ideal.fee.FloatString(3), feePaid)
		if run.Enabled("C08") {
			return false
		}
	}

	// ---- reference bookkeeping: which positions the price visited, spread ledger ----
	scale := rint(1)
	if p.scaled {
		scale = rfromInt(pow10(27).BigInt())
	}
	ulp := rnew().SetFrac(big.NewInt(1), pow10(18).BigInt())
	// rounding in the earlier buckets shifts how much input is left for the last one by up to B; its spread charge moves by f/(1-f) of that
	spill := rmul(B, rquo(decToRat(p.spread), rsub(rint(1), decToRat(p.spread))))
	// buckets close enough to the end of the fill that accumulated rounding (<= B) decides whether / how far they are entered
	nearEnd := make([]bool, len(ideal.steps))
	{
		total := rfromInt(amt.BigInt())
		cum := rnew()
		for si, s := range ideal.steps {
			if exactIn {
				cum = radd(cum, radd(s.in, s.fee))
			} else {
				cum = radd(cum, s.out)
			}
			nearEnd[si] = si == len(ideal.steps)-1 || rsub(total, cum).Cmp(B) <= 0
		}
	}
	for _, q := range w.poolPositions(p) {
		for si, s := range ideal.steps {
			if nearEnd[si] && s.liq.Sign() > 0 && q.lower <= s.tick && s.tick < q.upper {
				sh := rquo(decToRat(q.liq), s.liq)
				q.tol = radd(q.tol, rmul(sh, spill))
				q.tolUp = radd(q.tolUp, rmul(sh, B))
			}
			if s.tickHi >= q.lower && s.tickLo < q.upper {
				q.never = false
			}
			if s.liq.Sign() > 0 && s.in.Sign() > 0 && q.lower <= s.tick && s.tick < q.upper {
				// the position was active for this bucket (buckets never straddle a position boundary)
				share := rquo(decToRat(q.liq), s.liq)
				q.ent[inDenom] = radd(ratOr0(q.ent[inDenom]), rmul(s.fee, share))
				q.dbg += fmt.Sprintf(" [%s fee=%s L=%s liq=%s]", inDenom, s.fee.FloatString(3), s.liq.FloatString(3), q.liq)
				// f/(1-f) is an 18-digit decimal: the charge of a bucket is off by up to in*2e-18 either way, and rounded up by <= 1 unit
				quotErr := rquo(rmul(s.in, rint(2)), rfromInt(pow10(18).BigInt()))
				// the input that moves the price is rounded up to a whole unit per bucket; in the last (partial) bucket that unit comes out of the spread charge
				q.tol = radd(q.tol, radd(radd(rquo(rmul(decToRat(q.liq), ulp), scale), rnew().SetFrac64(1, 1000)), rmul(share, radd(rint(1), quotErr))))
				q.tolUp = radd(q.tolUp, rmul(share, radd(rint(1), quotErr)))
			}
		}
	}
	if os.Getenv("VERIF_CL_DEBUG") == "1" {
		for _, s := range ideal.steps {
			fmt.Printf("  ideal step tick %d [%d,%d] L=%s in=%s fee=%s out=%s crossed=%v\n", s.tick, s.tickLo, s.tickHi, s.liq.FloatString(3), s.in.FloatString(3), s.fee.FloatString(3), s.out.FloatString(3), s.crossed)
		}
		fmt.Printf("  ideal total in=%s out=%s fee=%s; impl paidIn=%s gotOut=%s feePaid=%s B=%s\n", ideal.in.FloatString(3), ideal.out.FloatString(3), ideal.fee.FloatString(3), paidIn, gotOut, feePaid, B.FloatString(1))
		for _, q := range w.poolPositions(p) {
			c, _ := n.App.ConcentratedLiquidityKeeper.GetClaimableSpreadRewards(n.Ctx, q.id)
			fmt.Printf("  pos %d [%d,%d) liq %s claimable %s ent %v\n", q.id, q.lower, q.upper, q.liq, c, ratOr0(q.ent[inDenom]).FloatString(3))
		}
	}
	tickAfter, _, _ := w.poolState(n.Ctx, p)
	if tickAfter != tickBefore {
		run.Probe("swap-moved-tick")
	}

	// ---- round trip on a discarded branch: there and straight back never returns more than was put in ----
	if fk == "" && st.Arg(5)%3 == 0 {
		bctx, _ := n.Ctx.CacheContext()
		back := &poolmanagertypes.MsgSwapExactAmountIn{Sender: trader.String(), Routes: []poolmanagertypes.SwapAmountInRoute{{PoolId: p.id, TokenOutDenom: inDenom}}, TokenIn: sdk.NewCoin(outDenom, gotOut), TokenOutMinAmount: osmomath.OneInt()}
		b0 := n.Balance(bctx, trader, inDenom)
		if r2 := n.DeliverOn(bctx, back, 0, false); r2.OK() {
			returned := n.Balance(bctx, trader, inDenom).Sub(b0)
			run.Probe("round-trip-probe")
			if returned.GT(paidIn) {
				run.Fail("C03", "round-trip-profit", "swap", "swapped %s%s for %s%s and straight back for %s%s", paidIn, inDenom, gotOut, outDenom, returned, inDenom)
				if run.Enabled("C03") {
					return false
				}
			}
		}
	}
	return true
}

func ratOr0(r *rat) *rat {
	if r == nil {
		return rnew()
	}
	return r
}

var _ = time.Second
