package cl

import (
	"fmt"
	"math/big"
	"runtime/debug"
	"sort"
	"strings"
	"time"

	sdk "github.com/cosmos/cosmos-sdk/types"

	"github.com/osmosis-labs/osmosis/osmomath"
	cltypes "github.com/osmosis-labs/osmosis/v31/x/concentrated-liquidity/types"
	poolmanagertypes "github.com/osmosis-labs/osmosis/v31/x/poolmanager/types"

	"verif/harness/simcore"
)

// appPanic turns a panic raised inside the application's query code (not in the harness) into a
// violation: a query the property relies on must not blow up. Harness panics are re-raised.
func (w *world) appPanic(prop, op string, ok *bool) {
	if x := recover(); x != nil {
		st := string(debug.Stack())
		if !strings.Contains(st, "/x/concentrated-liquidity") && !strings.Contains(st, "/osmoutils/") {
			panic(x)
		}
		w.run.Fail(prop, "query-panics", op, "a query of the module panicked: %v", x)
		*ok = false
	}
}

// bookkeeping is the C07 oracle: the pool's books agree with its positions.
func (w *world) bookkeeping(op string) (ok bool) {
	defer w.appPanic("C07", op, &ok)
	run, n := w.run, w.n
	ctx := n.QueryCtx()
	k := n.App.ConcentratedLiquidityKeeper
	fail := func(oracle, format string, a ...interface{}) bool {
		run.Fail("C07", oracle, op, format, a...)
		return false
	}
	for _, p := range w.pools {
		pool, err := k.GetConcentratedPoolById(ctx, p.id)
		if err != nil {
			return fail("pool-missing", "pool %d: %v", p.id, err)
		}
		ps := w.poolPositions(p)
		ct, sq, liq := pool.GetCurrentTick(), pool.GetCurrentSqrtPrice(), pool.GetLiquidity()
		if int64(pool.GetTickSpacing()) != p.spacing {
			return fail("tick-spacing", "pool %d: tick spacing %d, last accepted change set %d", p.id, pool.GetTickSpacing(), p.spacing)
		}
		if len(ps) == 0 {
			if !sq.IsZero() || ct != 0 || !liq.IsZero() {
				return fail("empty-pool-has-price", "pool %d has no positions but sqrt price %s tick %d liquidity %s", p.id, sq, ct, liq)
			}
		}
		// active liquidity
		want := osmomath.ZeroDec()
		for _, q := range ps {
			if q.lower <= ct && ct < q.upper {
				want = want.Add(q.liq)
			}
		}
		if !liq.Equal(want) {
			return fail("active-liquidity", "pool %d at tick %d reports active liquidity %s, positions in range sum to %s", p.id, ct, liq, want)
		}
		// initialised ticks
		gross, net := w.tickMap(p)
		ticks, err := k.GetAllInitializedTicksForPool(ctx, p.id)
		if err != nil {
			return fail("ticks-query", "pool %d: %v", p.id, err)
		}
		seen := map[int64]bool{}
		for _, t := range ticks {
			seen[t.TickIndex] = true
			g, ok := gross[t.TickIndex]
			if !ok {
				return fail("stray-tick", "pool %d stores tick %d (gross %s net %s) which no position uses as a boundary", p.id, t.TickIndex, t.Info.LiquidityGross, t.Info.LiquidityNet)
			}
			if !t.Info.LiquidityGross.Equal(g) || !t.Info.LiquidityNet.Equal(net[t.TickIndex]) {
				return fail("tick-liquidity", "pool %d tick %d: gross %s net %s, positions give gross %s net %s", p.id, t.TickIndex, t.Info.LiquidityGross, t.Info.LiquidityNet, g, net[t.TickIndex])
			}
		}
		for t := range gross {
			if !seen[t] {
				return fail("missing-tick", "pool %d: tick %d is a position boundary but is not stored", p.id, t)
			}
		}
		// price agrees with tick about every position boundary
		if len(ps) > 0 {
			sr := bigDecToRat(sq)
			bounds := make([]int64, 0, len(gross))
			for t := range gross {
				bounds = append(bounds, t)
			}
			sort.Slice(bounds, func(i, j int) bool { return bounds[i] < bounds[j] })
			for _, b := range bounds {
				sb := sqrtAtTick(b)
				if ct < b && sr.Cmp(sb) > 0 {
					return fail("price-tick-disagree", "pool %d: current tick %d is below boundary %d but sqrt price %s exceeds the boundary's %s", p.id, ct, b, sq, sb.FloatString(36))
				}
				if ct >= b && sr.Cmp(sb) < 0 {
					return fail("price-tick-disagree", "pool %d: current tick %d is at/above boundary %d but sqrt price %s is below the boundary's %s", p.id, ct, b, sq, sb.FloatString(36))
				}
			}
		}
		// positions: stored == reference
		ids, err := k.GetPositionIDsByPoolID(ctx, p.id)
		if err != nil {
			return fail("positions-query", "pool %d: %v", p.id, err)
		}
		if len(ids) != len(ps) {
			return fail("position-set", "pool %d stores %d positions, reference has %d", p.id, len(ids), len(ps))
		}
		for _, q := range ps {
			sp, err := k.GetPosition(ctx, q.id)
			if err != nil {
				return fail("position-missing", "position %d: %v", q.id, err)
			}
			if sp.Address != n.Accts[q.owner].String() || sp.PoolId != p.id || sp.LowerTick != q.lower || sp.UpperTick != q.upper || !sp.Liquidity.Equal(q.liq) || !sp.JoinTime.Equal(q.join) {
				return fail("position-record", "position %d is {owner %s pool %d [%d,%d) liq %s join %s}, reference {owner %d pool %d [%d,%d) liq %s join %s}", q.id, sp.Address, sp.PoolId, sp.LowerTick, sp.UpperTick, sp.Liquidity, sp.JoinTime, q.owner, p.id, q.lower, q.upper, q.liq, q.join)
			}
		}
	}
	// per-owner listing
	for o := 0; o < w.users; o++ {
		ups, err := k.GetUserPositions(ctx, n.Accts[o], 0)
		if err != nil {
			return fail("user-positions-query", "owner %d: %v", o, err)
		}
		cnt := 0
		for _, q := range w.pos {
			if q.owner == o {
				cnt++
			}
		}
		if len(ups) != cnt {
			return fail("user-positions", "owner %d lists %d positions, reference has %d", o, len(ups), cnt)
		}
	}
	return true
}

// ledgerCheck compares a claimable spread-reward amount with the exact entitlement ledger.
func (w *world) ledgerCheck(q *refPos, claimable sdk.Coins, op string) bool {
	denoms := map[string]bool{q.pool.d0: true, q.pool.d1: true}
	for d := range denoms {
		ent := ratOr0(q.ent[d])
		got := rfromInt(claimable.AmountOf(d).BigInt())
		upper := radd(ent, radd(rint(1), q.tolUp))
		if got.Cmp(upper) > 0 {
			w.run.Fail("C08", "claimable-exceeds-entitlement", op, "position %d can claim %s%s in spread rewards, its exact pro-rata entitlement is %s", q.id, claimable.AmountOf(d), d, ent.FloatString(6))
			return false
		}
		lower := rsub(ent, radd(q.tol, rint(int64(q.claims+2))))
		if got.Cmp(lower) < 0 {
			w.run.Fail("C08", "claimable-below-entitlement", op, "position %d can claim %s%s in spread rewards, its exact pro-rata entitlement is %s and the truncation allowance only %s;%s", q.id, claimable.AmountOf(d), d, ent.FloatString(6), radd(q.tol, rint(int64(q.claims+2))).FloatString(6), q.dbg)
			return false
		}
	}
	return true
}

// rewardsTier1 holds the tolerance-free C08 oracles and the reward-account coverage part of C01.
func (w *world) rewardsTier1(op string) (ok bool) {
	defer w.appPanic("C08", op, &ok)
	run, n := w.run, w.n
	ctx := n.QueryCtx()
	k := n.App.ConcentratedLiquidityKeeper
	type claim struct {
		spread sdk.Coins
		inc    sdk.Coins
		forf   sdk.Coins
	}
	claims := map[uint64]claim{}
	for _, p := range w.pools {
		sumSpread, sumInc := sdk.NewCoins(), sdk.NewCoins()
		for _, q := range w.poolPositions(p) {
			sp, err := k.GetClaimableSpreadRewards(ctx, q.id)
			if err != nil {
				run.Fail("C08", "claimable-query", op, "spread rewards of position %d: %v", q.id, err)
				return false
			}
			ic, fc, err := k.GetClaimableIncentives(ctx, q.id)
			if err != nil {
				run.Fail("C08", "claimable-query", op, "incentives of position %d: %v", q.id, err)
				return false
			}
			claims[q.id] = claim{sp, ic, fc}
			sumSpread = sumSpread.Add(sp...)
			sumInc = sumInc.Add(ic...).Add(fc...)
			if q.never && (!sp.IsZero() || !ic.IsZero() || !fc.IsZero()) {
				run.Fail("C08", "never-in-range-earns", op, "position %d [%d,%d) was never in range since creation but can claim spread %s incentives %s (+%s forfeitable)", q.id, q.lower, q.upper, sp, ic, fc)
				return false
			}
			if q.never {
				run.Probe("never-in-range-position-checked")
			}
			if !w.ledgerCheck(q, sp, op) {
				return false
			}
		}
		// reward accounts cover everything claimable (C01) == total claimable never exceeds what was paid in and not yet claimed
		if bal := n.AllBalances(ctx, p.spreadAdr); !bal.IsAllGTE(sumSpread) {
			run.Fail("C01", "spread-account-short", op, "pool %d: claimable spread rewards sum to %s but the spread-reward account holds %s", p.id, sumSpread, bal)
			return false
		}
		if bal := n.AllBalances(ctx, p.incAdr); !bal.IsAllGTE(sumInc) {
			run.Fail("C01", "incentive-account-short", op, "pool %d: claimable incentives sum to %s but the incentive account holds %s", p.id, sumInc, bal)
			return false
		}
	}
	// siblings: same range, same lifetime, untouched => rewards proportional to liquidity (equal for twins)
	groups := map[int][]*refPos{}
	for _, q := range w.sortedPos() {
		if q.group != 0 && q.clean {
			groups[q.group] = append(groups[q.group], q)
		}
	}
	gids := make([]int, 0, len(groups))
	for g := range groups {
		gids = append(gids, g)
	}
	sort.Ints(gids)
	for _, g := range gids {
		qs := groups[g]
		for a := 0; a < len(qs); a++ {
			for b := a + 1; b < len(qs); b++ {
				x, y := qs[a], qs[b]
				cx, cy := claims[x.id], claims[y.id]
				if x.liq.Equal(y.liq) {
					run.Probe("twin-positions-compared")
					if !cx.spread.Equal(cy.spread) || !cx.inc.Equal(cy.inc) || !cx.forf.Equal(cy.forf) {
						run.Fail("C08", "twins-differ", op, "positions %d and %d have identical range, liquidity and lifetime but claim {%s | %s | %s} vs {%s | %s | %s}", x.id, y.id, cx.spread, cx.inc, cx.forf, cy.spread, cy.inc, cy.forf)
						return false
					}
					continue
				}
				run.Probe("sibling-positions-compared")
				// c = floor(L * g) for a common g  =>  |c_x L_y - c_y L_x| <= L_x + L_y (per claimed denom and reward kind)
				lx, ly := decToRat(x.liq), decToRat(y.liq)
				chk := func(kind string, ax, ay sdk.Coins) bool {
					ds := map[string]bool{}
					for _, c := range ax {
						ds[c.Denom] = true
					}
					for _, c := range ay {
						ds[c.Denom] = true
					}
					for d := range ds {
						l := rmul(rfromInt(ax.AmountOf(d).BigInt()), ly)
						r := rmul(rfromInt(ay.AmountOf(d).BigInt()), lx)
						diff := rsub(l, r)
						diff.Abs(diff)
						// incentives are summed over up to 6 uptime accumulators, each truncated separately
						if diff.Cmp(rmul(radd(lx, ly), rint(7))) > 0 {
							run.Fail("C08", "not-proportional", op, "positions %d (liquidity %s) and %d (liquidity %s) share range and lifetime but claim %s%s vs %s%s of %s", x.id, x.liq, y.id, y.liq, ax.AmountOf(d), d, ay.AmountOf(d), d, kind)
							return false
						}
					}
					return true
				}
				if !chk("spread rewards", cx.spread, cy.spread) || !chk("incentives", cx.inc.Add(cx.forf...), cy.inc.Add(cy.forf...)) {
					return false
				}
			}
		}
	}
	return true
}

// exitEverybody is the C01 oracle: on a discarded branch everybody claims and
// withdraws in a seeded order; every message must succeed and what is left in
// the pool account is rounding dust.
func (w *world) exitEverybody(st simcore.Step, stepIdx int) bool {
	run, n := w.run, w.n
	bctx, _ := n.Ctx.CacheContext()
	ps := w.sortedPos()
	if len(ps) == 0 {
		return true
	}
	// seeded order from the step itself (no PRNG here): rotate and optionally reverse
	rot := int(st.Arg(0)+int64(stepIdx)) % len(ps)
	order := append(append([]*refPos{}, ps[rot:]...), ps[:rot]...)
	if stepIdx%2 == 1 {
		for i, j := 0, len(order)-1; i < j; i, j = i+1, j-1 {
			order[i], order[j] = order[j], order[i]
		}
	}
	for _, q := range order {
		owner := n.Accts[q.owner].String()
		for _, m := range []sdk.Msg{
			&cltypes.MsgCollectSpreadRewards{PositionIds: []uint64{q.id}, Sender: owner},
			&cltypes.MsgCollectIncentives{PositionIds: []uint64{q.id}, Sender: owner},
			&cltypes.MsgWithdrawPosition{PositionId: q.id, Sender: owner, LiquidityAmount: q.liq},
		} {
			r := n.DeliverOn(bctx, m, 0, false)
			if !r.OK() {
				run.Fail("C01", "cannot-exit", simcore.Step{Op: "exit"}.Op, "with %d positions open, position %d (pool %d, [%d,%d), liquidity %s) cannot exit: %T -> %s %v %v", len(ps), q.id, q.pool.id, q.lower, q.upper, q.liq, m, r.Outcome, r.Err, r.Panic)
				return false
			}
		}
	}
	run.Probe("exit-everybody-probe")
	for _, p := range w.pools {
		bound := osmomath.NewInt(2*p.ops + p.crossed + 2).Add(osmomath.NewIntFromBigInt(ceilRat(p.dustPrec)))
		for _, d := range []string{p.d0, p.d1} {
			left := n.Balance(bctx, p.addr, d)
			if left.GT(bound) {
				run.Fail("C01", "leftover-not-dust", "exit", "after everybody exited pool %d its account still holds %s%s; rounding dust bound is %s (%d ops, %d ticks crossed)", p.id, left, d, bound, p.ops, p.crossed)
				return false
			}
			if bound.IsPositive() {
				run.Max("max/c01-dust-used-permille", left.MulRaw(1000).Quo(bound).Int64())
			}
		}
	}
	return w.reopenDrained(bctx, order[0].owner, stepIdx)
}

// reopenDrained continues on the branch where everybody has left: one account reopens each drained pool with a
// full-range position (which sets a fresh price), trades against it one way, and leaves again. The pool must
// let it leave and must again be left with dust only: nothing of the emptied pool's former books may survive
// into the reopened one.
func (w *world) reopenDrained(bctx sdk.Context, owner int, stepIdx int) bool {
	run, n := w.run, w.n
	who := n.Accts[owner]
	for _, p := range w.pools {
		if len(w.poolPositions(p)) == 0 {
			continue
		}
		left0 := map[string]osmomath.Int{p.d0: n.Balance(bctx, p.addr, p.d0), p.d1: n.Balance(bctx, p.addr, p.d1)}
		amt := pow10(12)
		coins := sdk.NewCoins(sdk.NewCoin(p.d0, amt), sdk.NewCoin(p.d1, amt))
		res := n.DeliverOn(bctx, &cltypes.MsgCreatePosition{PoolId: p.id, Sender: who.String(), LowerTick: cltypes.MinInitializedTick, UpperTick: cltypes.MaxTick, TokensProvided: coins, TokenMinAmount0: osmomath.ZeroInt(), TokenMinAmount1: osmomath.ZeroInt()}, 0, false)
		r, _ := resp(res).(*cltypes.MsgCreatePositionResponse)
		if !res.OK() || r == nil {
			run.Probe("reopen-drained-pool-refused")
			continue
		}
		in, out := p.d0, p.d1
		if stepIdx%2 == 1 {
			in, out = p.d1, p.d0
		}
		sw := n.DeliverOn(bctx, &poolmanagertypes.MsgSwapExactAmountIn{Sender: who.String(), Routes: []poolmanagertypes.SwapAmountInRoute{{PoolId: p.id, TokenOutDenom: out}}, TokenIn: sdk.NewCoin(in, pow10(11)), TokenOutMinAmount: osmomath.OneInt()}, 0, false)
		if sw.OK() {
			run.Probe("reopen-drained-pool-traded")
		}
		for _, m := range []sdk.Msg{
			&cltypes.MsgCollectSpreadRewards{PositionIds: []uint64{r.PositionId}, Sender: who.String()},
			&cltypes.MsgCollectIncentives{PositionIds: []uint64{r.PositionId}, Sender: who.String()},
			&cltypes.MsgWithdrawPosition{PositionId: r.PositionId, Sender: who.String(), LiquidityAmount: r.LiquidityCreated},
		} {
			if x := n.DeliverOn(bctx, m, 0, false); !x.OK() {
				run.Fail("C01", "cannot-exit", "reopen", "pool %d was emptied and reopened by one full-range position (liquidity %s, traded against once: %v); that position cannot leave: %T -> %s %v %v", p.id, r.LiquidityCreated, sw.OK(), m, x.Outcome, x.Err, x.Panic)
				return false
			}
		}
		for _, d := range []string{p.d0, p.d1} {
			left := n.Balance(bctx, p.addr, d)
			if left.GT(left0[d].AddRaw(8)) {
				run.Fail("C01", "leftover-not-dust", "reopen", "pool %d was emptied (its account held %s%s), reopened by one position, traded against once and emptied again: its account now holds %s%s", p.id, left0[d], d, left, d)
				return false
			}
		}
	}
	return true
}

// ---- incentives accrue with time, to in-range liquidity only, pro rata, and never more than the records emit ----

type idlePool struct {
	p       *refPool
	tick    int64
	liq     osmomath.Dec
	llu     time.Time
	t0      time.Time
	records []cltypes.IncentiveRecord
	claims  map[uint64]sdk.Coins // collected + forfeitable, per position
}

// idleSnapshot records, at the end of a block, what every position could claim and which incentive records exist.
func (w *world) idleSnapshot() []idlePool {
	n := w.n
	k := n.App.ConcentratedLiquidityKeeper
	var out []idlePool
	defer func() {
		if x := recover(); x != nil {
			out = nil // a panicking query is reported by the per-step oracles
		}
	}()
	for _, p := range w.pools {
		if !p.hasGauge || len(w.poolPositions(p)) == 0 {
			continue
		}
		pool, err := k.GetConcentratedPoolById(n.Ctx, p.id)
		if err != nil {
			continue
		}
		recs, err := k.GetAllIncentiveRecordsForPool(n.Ctx, p.id)
		if err != nil {
			continue
		}
		ip := idlePool{p: p, tick: pool.GetCurrentTick(), liq: pool.GetLiquidity(), llu: pool.GetLastLiquidityUpdate(), t0: n.Time, records: recs, claims: map[uint64]sdk.Coins{}}
		okAll := true
		for _, q := range w.poolPositions(p) {
			c, f, err := k.GetClaimableIncentives(n.Ctx, q.id)
			if err != nil {
				okAll = false
				break
			}
			ip.claims[q.id] = c.Add(f...)
		}
		if okAll {
			out = append(out, ip)
		}
	}
	return out
}

// idleAccrual compares what every position can claim after a pure time advance with what the records emit.
func (w *world) idleAccrual(snap []idlePool, op string) (ok bool) {
	defer w.appPanic("C08", op, &ok)
	run, n := w.run, w.n
	k := n.App.ConcentratedLiquidityKeeper
	for _, ip := range snap {
		p := ip.p
		t1 := n.Time
		// what the records emit over (t0, t1]: E_r(t) = min(rate * (t - lastUpdate), remaining), counted only once started
		E := map[string]*rat{}
		nrec := 0
		emit := func(r cltypes.IncentiveRecord, t time.Time) *rat {
			if !r.IncentiveRecordBody.StartTime.Before(t) || !t.After(ip.llu) {
				return rnew()
			}
			secs := rnew().SetFrac64(int64(t.Sub(ip.llu)), 1_000_000_000)
			e := rmul(decToRat(r.IncentiveRecordBody.EmissionRate), secs)
			return rmin(e, decToRat(r.IncentiveRecordBody.RemainingCoin.Amount))
		}
		for _, r := range ip.records {
			d := rsub(emit(r, t1), emit(r, ip.t0))
			if d.Sign() > 0 {
				den := r.IncentiveRecordBody.RemainingCoin.Denom
				E[den] = radd(ratOr0(E[den]), d)
				nrec++
			}
		}
		active := !ip.liq.LT(osmomath.OneDec())
		sum := map[string]*rat{}
		type delta struct {
			q *refPos
			d sdk.Coins
		}
		var inRange []delta
		for _, q := range w.poolPositions(p) {
			before, tracked := ip.claims[q.id]
			if !tracked {
				continue
			}
			c, f, err := k.GetClaimableIncentives(n.Ctx, q.id)
			if err != nil {
				run.Fail("C08", "claimable-query", op, "incentives of position %d: %v", q.id, err)
				return false
			}
			after := c.Add(f...)
			if !after.IsAllGTE(before) {
				run.Fail("C08", "claimable-incentives-shrank", op, "position %d could claim %s before the time advance and only %s after it", q.id, before, after)
				return false
			}
			d := after.Sub(before...)
			in := q.lower <= ip.tick && ip.tick < q.upper
			if (!in || !active) && !d.IsZero() {
				run.Fail("C08", "idle-accrual-out-of-range", op, "pool %d stood at tick %d with active liquidity %s for %s; position %d [%d,%d) was not earning, yet its claimable incentives grew by %s", p.id, ip.tick, ip.liq, t1.Sub(ip.t0), q.id, q.lower, q.upper, d)
				return false
			}
			if in {
				inRange = append(inRange, delta{q, d})
				for _, coin := range d {
					sum[coin.Denom] = radd(ratOr0(sum[coin.Denom]), rfromInt(coin.Amount.BigInt()))
				}
			}
		}
		if len(inRange) == 0 || !active {
			continue
		}
		run.Probe("idle-accrual-checked")
		scale := rint(1)
		if p.iscaled {
			scale = rfromInt(pow10(27).BigInt())
		}
		// growth per unit of liquidity is truncated at 18 digits per record (times the active liquidity, over the scaling
		// factor); every position's claim truncates once per uptime accumulator, in the query before and in the one after
		slackDown := radd(rmul(rint(int64(nrec)), radd(rquo(rquo(decToRat(ip.liq), rfromInt(pow10(18).BigInt())), scale), rint(1))), rint(int64(12*len(inRange))))
		// the same truncation hits the "before" figure (it is computed by its own sync over a shorter interval), so the
		// growth between the two queries can also exceed the emission by that much
		slackUp := radd(rmul(rint(int64(nrec)), radd(rquo(rquo(decToRat(ip.liq), rfromInt(pow10(18).BigInt())), scale), rint(1))), rint(int64(6*len(inRange))))
		dens := map[string]bool{}
		for d := range E {
			dens[d] = true
		}
		for d := range sum {
			dens[d] = true
		}
		for d := range dens {
			e, s := ratOr0(E[d]), ratOr0(sum[d])
			if s.Cmp(radd(e, slackUp)) > 0 {
				run.Fail("C08", "idle-accrual-exceeds-emission", op, "pool %d: over %s the incentive records emit %s%s, the in-range positions' claimable incentives grew by %s", p.id, t1.Sub(ip.t0), e.FloatString(3), d, s.FloatString(0))
				return false
			}
			if s.Cmp(rsub(e, slackDown)) < 0 {
				run.Fail("C08", "idle-accrual-below-emission", op, "pool %d: over %s the incentive records emit %s%s, the in-range positions' claimable incentives grew by only %s (truncation allowance %s)", p.id, t1.Sub(ip.t0), e.FloatString(3), d, s.FloatString(0), slackDown.FloatString(3))
				return false
			}
		}
		// pro rata: for in-range positions i, j: |d_i * L_j - d_j * L_i| <= 13 * (L_i + L_j)
		for a := 0; a < len(inRange); a++ {
			for b := a + 1; b < len(inRange); b++ {
				x, y := inRange[a], inRange[b]
				lx, ly := decToRat(x.q.liq), decToRat(y.q.liq)
				for d := range dens {
					l := rmul(rfromInt(x.d.AmountOf(d).BigInt()), ly)
					r := rmul(rfromInt(y.d.AmountOf(d).BigInt()), lx)
					diff := rsub(l, r)
					diff.Abs(diff)
					if diff.Cmp(rmul(radd(lx, ly), rint(13))) > 0 {
						run.Fail("C08", "idle-accrual-not-pro-rata", op, "pool %d: positions %d (liquidity %s) and %d (liquidity %s) were both in range for %s but their claimable incentives grew by %s%s and %s%s", p.id, x.q.id, x.q.liq, y.q.id, y.q.liq, t1.Sub(ip.t0), x.d.AmountOf(d), d, y.d.AmountOf(d), d)
						return false
					}
				}
			}
		}
	}
	return true
}

// ---- no operation loses or duplicates matured incentives ----

// incExcess is, for one pool, what the incentive account holds beyond what all positions together could
// claim or forfeit right now (claim truncation dust), per denomination.
type incExcess struct {
	ok     bool
	excess map[string]*big.Int
	liq    osmomath.Dec
	n      int
	detail []string
	bal    sdk.Coins
}

// incentiveExcess snapshots every pool. Within one block nothing is emitted, so an operation (claim, add-to,
// withdraw, transfer, swap, new position) may move incentives between "claimable by somebody" and "paid out
// of the account" but may neither strand them in the account nor promise more than the account holds:
// balance minus the sum of claimable-or-forfeitable stays where it was, up to rounding.
func (w *world) incentiveExcess() map[uint64]*incExcess {
	n, k := w.n, w.n.App.ConcentratedLiquidityKeeper
	out := map[uint64]*incExcess{}
	for _, p := range w.pools {
		e := &incExcess{ok: true, excess: map[string]*big.Int{}, liq: osmomath.ZeroDec()}
		e.bal = n.AllBalances(n.Ctx, p.incAdr)
		for _, c := range e.bal {
			e.excess[c.Denom] = new(big.Int).Set(c.Amount.BigInt())
		}
		for _, q := range w.poolPositions(p) {
			c, f, err := k.GetClaimableIncentives(n.Ctx, q.id)
			if err != nil {
				e.ok = false
				break
			}
			for _, x := range c.Add(f...) {
				if e.excess[x.Denom] == nil {
					e.excess[x.Denom] = new(big.Int)
				}
				e.excess[x.Denom].Sub(e.excess[x.Denom], x.Amount.BigInt())
			}
			e.liq = e.liq.Add(q.liq)
			e.n++
			e.detail = append(e.detail, fmt.Sprintf("#%d[%d,%d)L=%s c=%s f=%s", q.id, q.lower, q.upper, q.liq.TruncateInt(), c, f))
		}
		out[p.id] = e
	}
	return out
}

func (w *world) incentiveConservation(op string, before map[uint64]*incExcess) bool {
	after := w.incentiveExcess()
	for _, p := range w.pools {
		b, a := before[p.id], after[p.id]
		if b == nil || a == nil || !b.ok || !a.ok {
			continue
		}
		denoms := map[string]bool{}
		for d := range b.excess {
			denoms[d] = true
		}
		for d := range a.excess {
			denoms[d] = true
		}
		ds := make([]string, 0, len(denoms))
		for d := range denoms {
			ds = append(ds, d)
		}
		sort.Strings(ds)
		// rounding: one unit per position and claim, plus the 18-digit truncation of growth per unit of
		// liquidity (scaled by 1e27 on pools past the migration threshold) on each of up to 6 uptimes
		liq := b.liq
		if a.liq.GT(liq) {
			liq = a.liq
		}
		per := new(big.Int).Quo(liq.BigInt(), new(big.Int).Exp(big.NewInt(10), big.NewInt(18), nil)) // liq (18-digit decimal) as integer
		per.Quo(per, new(big.Int).Exp(big.NewInt(10), big.NewInt(18), nil))
		if p.iscaled {
			per.Quo(per, new(big.Int).Exp(big.NewInt(10), big.NewInt(27), nil))
		}
		slack := new(big.Int).Mul(per, big.NewInt(6))
		slack.Add(slack, big.NewInt(int64(2*(b.n+a.n)+4)))
		for _, d := range ds {
			x, y := b.excess[d], a.excess[d]
			if x == nil {
				x = new(big.Int)
			}
			if y == nil {
				y = new(big.Int)
			}
			delta := new(big.Int).Sub(y, x)
			w.run.Count("c08/incentive-conservation-checked")
			if delta.Cmp(slack) > 0 {
				w.run.Fail("C08", "incentives-stranded", op, "pool %d, %s: before %s the incentive account held %s more %s than all positions could claim or forfeit, afterwards %s more: %s %s became unclaimable in one operation (rounding allowance %s); before: %v balance %s; after: %v balance %s", p.id, op, op, x, d, y, delta, d, slack, b.detail, b.bal, a.detail, a.bal)
				return false
			}
			if new(big.Int).Neg(delta).Cmp(slack) > 0 {
				w.run.Fail("C08", "incentives-duplicated", op, "pool %d, %s: the incentive account's excess of %s over everything claimable or forfeitable went from %s to %s in one operation: %s more is now promised than before (rounding allowance %s)", p.id, op, d, x, y, new(big.Int).Neg(delta), slack)
				return false
			}
		}
	}
	return true
}
