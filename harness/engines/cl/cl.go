// Package cl is the concentrated-liquidity engine (C01, C03, C07, C08): the real
// x/concentrated-liquidity module inside the full application, driven through
// user messages (positions, swaps through the pool manager, claims, transfers,
// no-lock gauges that become incentive records at epoch ends), with seeded
// out-of-gas / roll-back faults, clock shapes and node restarts, checked after
// every step against a position table, an exact-rational curve walker and
// relational probes on discarded branches.
package cl

import (
	"fmt"
	"math/big"
	"runtime/debug"
	"sort"
	"strings"
	"time"

	"github.com/cosmos/cosmos-sdk/codec"
	sdk "github.com/cosmos/cosmos-sdk/types"

	"github.com/osmosis-labs/osmosis/osmomath"
	"github.com/osmosis-labs/osmosis/v31/app"
	cltypes "github.com/osmosis-labs/osmosis/v31/x/concentrated-liquidity/types"
	clgenesis "github.com/osmosis-labs/osmosis/v31/x/concentrated-liquidity/types/genesis"
	incentivestypes "github.com/osmosis-labs/osmosis/v31/x/incentives/types"
	minttypes "github.com/osmosis-labs/osmosis/v31/x/mint/types"
	poolmanagertypes "github.com/osmosis-labs/osmosis/v31/x/poolmanager/types"
	txfeestypes "github.com/osmosis-labs/osmosis/v31/x/txfees/types"
	epochstypes "github.com/osmosis-labs/osmosis/x/epochs/types"

	"verif/harness/simchain"
	"verif/harness/simcore"
)

type Engine struct{}

func init() { simcore.Register(Engine{}) }

func (Engine) Name() string    { return "cl" }
func (Engine) Props() []string { return []string{"C01", "C03", "C07", "C08", "C09"} }
func (Engine) Budget(tier, prop string) (int, int) {
	if prop == "C09" {
		// the no-lock side of C09 (gaugeledger.go); the lock side is the gauges engine's
		if tier == "thorough" {
			return 12000, 600
		}
		return 1200, 60
	}
	if tier == "thorough" {
		return 40000, 1700
	}
	return 4000, 170
}
func (Engine) Describe() simcore.Description {
	return simcore.Description{
		Real: []string{"full OsmosisApp: x/concentrated-liquidity (lp, swaps, swap strategies, ticks, positions, spread rewards, incentives, pool model, tick math), x/poolmanager router and message server (swaps enter through it), x/incentives no-lock gauges -> CL incentive records at epoch end, osmoutils/accum, bank, x/epochs, real BeginBlocker/EndBlocker of every module, IAVL commit per block, SDK gas metering"},
		Stub: []string{"CometBFT (the simulator supplies header time/height and message order)", "ante/post handlers (sender taken as authenticated, no fees, no protorev backrun)"},
		Rule: "one run = 2-5 accounts, 1-3 concentrated pools (tick spacing and spread factor drawn from the authorised sets, price regime ~1 / 1e-9 / 1e9, pools on either side of the accumulator-scaling migration threshold), <= 24 positions; steps are create / add-to / withdraw (partial, full) / transfer position, swaps in both directions exact-in and exact-out (1 unit .. draining, amounts computed from the reference curve to end exactly on / one unit around an initialised tick), spread-reward and incentive claims, no-lock gauge creation, clock advances across epoch ends, restarts, with seeded out-of-gas and forced roll-back; 12% of the runs are a \"round world\" (price exactly 1, spacing 100, mostly no spread factor, boundaries on ticks with short-decimal square-root prices 0.5..2, round token amounts => whole-number liquidity) in which swaps use up their input to the last unit exactly on a tick and liquidities coincide exactly; oracles run after every step.",
		Assumptions: []string{
			"C03 bound: out_impl <= ideal + eps and ideal - out_impl <= B (exact-in), in_impl >= ideal - eps and in_impl - ideal <= B (exact-out), with B = 2 + 2*(buckets visited) + (buckets+1)*ceil(best marginal rate, output per input unit: every bucket rounds its input up to a whole unit) + ceil(maxLiquidity * 4e-36 * buckets * max(1, 1/sqrtPrice^2)) + ceil((in+out) * 4e-18 * (buckets+1)) + for exact-out ceil(endPrice * 4e-18 * (buckets+1)) units (the unfilled output is an 18-digit decimal worth the marginal end price) (one unit per integer rounding of the result, 18-digit rounding of each bucket's amounts, and the 36-digit sqrt-price rounding times liquidity), eps = 1e-9 + 2e-18*(buckets+1)*ideal (the spread factor quotient f/(1-f) is an 18-digit decimal); the observed worst ratio is reported",
			"C01 dust bound after everybody exits: pool-account leftover per denom <= 2*(successful position creations + withdrawals + 2*adds + swaps) + ticks crossed + 2 units + sum over those operations of ceil(liquidity * 4e-36 * max(1, 1/sqrtPrice^2)) (36-digit sqrt-price representation)",
			"C08 spread-reward ledger tolerance: claimable <= entitlement + 1 + eps and entitlement - claimable <= sum over swap buckets of ceil(L_i * 1e-18 / scaling) + (claims+1) units, scaling = 1e27 for pools past the migration threshold, 1 otherwise (growth per unit of liquidity is truncated at 18 digits)",
			"twins/siblings: positions created back-to-back in one block with the same range and not modified since; 'never in range' uses the tick interval visited by every swap since creation (conservative)",
		},
	}
}

var (
	denom0s   = []string{"atom", "ion"}
	quotes    = []string{"uosmo", "usdc"}
	spacings  = []uint64{1, 10, 100, 1000}
	spreads   = []string{"0", "0.0001", "0.0005", "0.001", "0.002", "0.003", "0.005", "0.0005", "0.002", "0", "0"}
	uptimeSet = []time.Duration{time.Nanosecond, time.Minute, time.Hour}
)

const epochSeconds = 120

func pow10(e int64) osmomath.Int {
	return osmomath.NewIntFromBigInt(new(big.Int).Exp(big.NewInt(10), big.NewInt(e), nil))
}

func amountArg(r *simcore.RNG, regime int) []int64 {
	switch regime {
	case 0:
		return []int64{r.Range(1, 999), 0}
	case 1:
		return []int64{r.Range(1, 9999), r.Range(3, 9)}
	}
	return []int64{r.Range(1, 9999), r.Range(12, 20)}
}

func (Engine) Generate(r *simcore.RNG, tier string, idx int) *simcore.Plan {
	p := &simcore.Plan{Config: map[string]int64{}}
	p.Config["users"] = r.Range(2, 5)
	p.Config["threshold"] = []int64{0, 1, 1000}[r.Intn(3)] // spread-reward accumulators of pools with a larger id are scaled by 1e27
	p.Config["ithreshold"] = p.Config["threshold"]         // the same for the uptime (incentive) accumulators ...
	if r.Chance(0.5) {
		p.Config["ithreshold"] = []int64{0, 1, 1000}[r.Intn(3)] // ... or another threshold, as on the live chain
	}
	p.Config["uptimes"] = r.Range(1, 3) // how many of the uptime set are authorised
	p.Config["price"] = r.Range(0, 2)
	regime := r.Intn(3)
	if r.Chance(0.5) {
		regime = 1
	}
	// "round world": price exactly 1, spacing 100, no spread factor, position boundaries on ticks whose
	// square-root price is a short decimal (0.5 0.9 0.99 1.01 1.02 1.1 1.5 2) and round token amounts, so that
	// liquidities are whole numbers and swaps can consume their input to the last unit exactly on a tick -
	// the constellations (exact equality on a boundary) that random magnitudes never produce
	p.Config["jitter"] = int64(r.Intn(2)) // header times with a varying sub-millisecond part
	round := r.Chance(0.12)
	if round {
		p.Config["round"] = 1
		p.Config["price"] = 0
	}
	faults := idx%2 == 1
	// a quarter of the runs create no-lock gauges with two reward denominations (drawn from its own stream position
	// only when set, so the other plans are unchanged)
	twoDenom := idx%4 == 2
	if idx%4 == 3 {
		p.Config["spec"] = 60 + int64(idx/4%5)*60 // permille of blocks first executed speculatively on a discarded branch (simchain.Node.Spec)
	}
	npools := int(r.Range(1, 3))
	for i := 0; i < npools; i++ {
		p.Steps = append(p.Steps, simcore.Step{Op: "pool", A: []int64{r.Range(0, 4), int64(i), r.Range(0, 3), r.Range(0, 8)}})
		// an initial position so the pool has a price
		a0, a1 := amountArg(r, regime), amountArg(r, regime)
		p.Steps = append(p.Steps, simcore.Step{Op: "pos", A: []int64{r.Range(0, 4), int64(i), []int64{0, 1, 5}[r.Intn(3)], r.Range(1, 50), r.Range(1, 50), a0[0], a0[1], a1[0], a1[1], 0}})
	}
	// incentive-heavy profile: every pool gets gauges on the long uptimes right away and the first epoch end
	// follows, so that incentive records emit for most of the run and young positions forfeit
	incHeavy := r.Chance(0.18)
	if incHeavy {
		p.Config["uptimes"] = 3
		for i := 0; i < npools; i++ {
			for _, up := range []int64{2, 1} {
				g := amountArg(r, 1)
				p.Steps = append(p.Steps, simcore.Step{Op: "gauge", A: []int64{r.Range(0, 4), int64(i), up, g[0], g[1] + 3, 1, 1}})
			}
		}
		p.Steps = append(p.Steps, simcore.Step{Op: "advance", A: []int64{1, r.Range(1, 5000)}}, simcore.Step{Op: "advance", A: []int64{2, r.Range(5, 50)}})
	}
	n := int(r.Range(12, 48))
	for i := 0; i < n; i++ {
		st := simcore.Step{}
		a0, a1 := amountArg(r, regime), amountArg(r, regime)
		if r.Chance(0.15) {
			a0 = amountArg(r, r.Intn(3))
		}
		switch r.Weighted([]int{20, 5, 10, 30, 6, 6, 3, 4, 12, 2, 1, 4, 2}) {
		case 0:
			st.Op = "pos"
			st.A = []int64{r.Range(0, 4), r.Range(0, 2), r.Range(0, 7), r.Range(0, 40), r.Range(1, 40), a0[0], a0[1], a1[0], a1[1], int64(r.Intn(4))}
		case 1:
			st.Op = "add"
			st.A = []int64{r.Range(0, 63), a0[0], a0[1], a1[0], a1[1]}
		case 2:
			st.Op = "wd"
			st.A = []int64{r.Range(0, 63), []int64{10000, 10000, 5000, 1, 9999, 2500}[r.Intn(6)], r.Range(0, 19)}
		case 3:
			st.Op = "swap"
			// user, pool, dir, exactIn, kind, arg, offset
			st.A = []int64{r.Range(0, 4), r.Range(0, 2), r.Range(0, 1), r.Range(0, 1), int64(r.Weighted([]int{17, 17, 17, 32, 17})), r.Range(1, 9999), []int64{-1, 0, 0, 1}[r.Intn(4)], r.Range(1, 3)}
			if round && r.Chance(0.7) {
				st.A[4], st.A[6] = 3, []int64{0, 0, 0, 0, -1, 1}[r.Intn(6)]
			}
		case 4:
			st.Op = "cspread"
			st.A = []int64{r.Range(0, 63)}
		case 5:
			st.Op = "cinc"
			st.A = []int64{r.Range(0, 63)}
		case 6:
			st.Op = "transfer"
			st.A = []int64{r.Range(0, 63), r.Range(0, 4)}
		case 7:
			st.Op = "gauge"
			g := amountArg(r, 1)
			st.A = []int64{r.Range(0, 4), r.Range(0, 2), r.Range(0, 2), g[0], g[1], r.Range(0, 1), r.Range(1, 4)}
			if twoDenom && r.Chance(0.5) {
				// a second reward denomination; non-perpetual over 2-4 epochs so that a small coin is below one unit per epoch
				st.A = append(st.A, []int64{1, 1, 2, 3}[r.Intn(4)])
				st.A[5], st.A[6] = 0, r.Range(2, 4)
			}
		case 8:
			st.Op = "advance"
			st.A = []int64{r.Range(0, 3), r.Range(1, 5000)}
		case 9:
			st.Op = "restart"
		case 10:
			st.Op = "pool"
			st.A = []int64{r.Range(0, 4), r.Range(0, 2), r.Range(0, 3), r.Range(0, 8)}
		case 12:
			// governance narrows a pool's tick spacing (the authority-only door): later positions sit on finer ticks
			st.Op = "tspace"
			st.A = []int64{r.Range(0, 2), r.Range(0, 3)}
		case 11:
			// two positions sharing a boundary tick end up with exactly equal liquidity: the tick's net liquidity is 0 while its gross is not
			p.Steps = append(p.Steps, simcore.Step{Op: "pos", A: []int64{r.Range(0, 4), r.Range(0, 2), 6, r.Range(0, 40), r.Range(1, 40), a0[0], a0[1], a1[0], a1[1], 1}})
			st.Op = "equalize"
			st.A = []int64{r.Range(0, 63)}
		}
		if incHeavy && r.Chance(0.18) {
			// more incentive collects, and short time steps so that positions stay young
			if r.Chance(0.7) {
				st = simcore.Step{Op: "cinc", A: []int64{r.Range(0, 63)}}
			} else {
				st = simcore.Step{Op: "advance", A: []int64{2, r.Range(1, 40)}}
			}
		}
		if faults && r.Chance(0.15) && st.Op != "advance" && st.Op != "restart" {
			if r.Chance(0.35) {
				st.F = "abort"
			} else {
				st.F = fmt.Sprintf("oog:%d", r.Range(1, 999))
			}
		}
		p.Steps = append(p.Steps, st)
		if st.Op == "gauge" && st.F == "" {
			// let the gauge turn into an incentive record (epoch end), let it emit for a while, then claim
			p.Steps = append(p.Steps,
				simcore.Step{Op: "advance", A: []int64{1, r.Range(1, 5000)}},
				simcore.Step{Op: "advance", A: []int64{[]int64{2, 3}[r.Intn(2)], r.Range(1, 900)}},
				simcore.Step{Op: "cinc", A: []int64{r.Range(0, 63)}})
			if r.Chance(0.5) {
				p.Steps = append(p.Steps, simcore.Step{Op: "pos", A: []int64{r.Range(0, 4), st.A[1], r.Range(0, 2), r.Range(0, 40), r.Range(1, 40), a0[0], a0[1], a1[0], a1[1], 0}},
					simcore.Step{Op: "advance", A: []int64{0, r.Range(1, 5000)}},
					simcore.Step{Op: "cinc", A: []int64{r.Range(0, 63)}},
					simcore.Step{Op: "wd", A: []int64{r.Range(0, 63), 10000, 1}})
			}
		}
	}
	return p
}

// ---- reference state ----

type refPool struct {
	id        uint64
	d0, d1    string
	spacing   int64
	spread    osmomath.Dec
	addr      sdk.AccAddress
	spreadAdr sdk.AccAddress
	incAdr    sdk.AccAddress
	scaled    bool // spread-reward accumulator scaled by 1e27
	iscaled   bool // uptime (incentive) accumulators scaled by 1e27
	// counters for the dust bound
	ops, crossed int64
	// dustPrec accumulates, per operation, liquidity * 4e-36 * max(1, 1/sqrtPrice^2): sqrt prices are
	// 36-digit decimals, and a token0 amount L*(1/sa - 1/sb) moves by L*1e-36/s^2 per rounding of s
	dustPrec  *rat
	minUptime time.Duration // smallest uptime of any gauge created for the pool (0: none)
	hasGauge  bool
}

type refPos struct {
	id    uint64
	owner int
	pool  *refPool
	lower int64
	upper int64
	liq   osmomath.Dec
	join  time.Time
	group int  // sibling group (created back-to-back, same range); 0 none
	clean bool // not modified (no claim/add/withdraw/transfer) since creation
	never bool // price has never been inside the range since creation
	// spread ledger
	ent    map[string]*rat // exact entitlement accrued since last claim
	tol    *rat            // tolerance accrued (truncation of growth per unit liquidity)
	tolUp  *rat            // upward tolerance accrued (the charge of each bucket is rounded up)
	claims int
	dbg    string
}

type world struct {
	round       bool // round-number world (see Generate)
	run         *simcore.Run
	n           *simchain.Node
	users       int
	pools       []*refPool
	pos         map[uint64]*refPos
	group       int
	lastCreated struct {
		block int64
		pool  uint64
		lower int64
		upper int64
		group int
		seq   int
	}
	seq       int
	uptimes   []time.Duration
	threshold uint64
	// ithreshold is the pool-id threshold above which uptime accumulators are scaled
	ithreshold uint64
	okOps      int
	maxRatio   float64
}

func (w *world) sortedPos() []*refPos {
	ids := make([]uint64, 0, len(w.pos))
	for id := range w.pos {
		ids = append(ids, id)
	}
	sort.Slice(ids, func(i, j int) bool { return ids[i] < ids[j] })
	out := make([]*refPos, len(ids))
	for i, id := range ids {
		out[i] = w.pos[id]
	}
	return out
}

func (w *world) pickPos(sel int64) *refPos {
	ps := w.sortedPos()
	if len(ps) == 0 {
		return nil
	}
	return ps[int(sel)%len(ps)]
}

func (w *world) pickPool(sel int64) *refPool {
	if len(w.pools) == 0 {
		return nil
	}
	return w.pools[int(sel)%len(w.pools)]
}

func (w *world) poolPositions(p *refPool) []*refPos {
	var out []*refPos
	for _, q := range w.sortedPos() {
		if q.pool == p {
			out = append(out, q)
		}
	}
	return out
}

func amountOf(m, e int64) osmomath.Int {
	return osmomath.NewInt(m).Mul(pow10(e))
}

func (Engine) Execute(run *simcore.Run) {
	p := run.Plan
	users := int(p.Cfg("users", 3))
	nUp := int(p.Cfg("uptimes", 1))
	threshold := uint64(p.Cfg("threshold", 0))
	fund := sdk.NewCoins()
	big27 := pow10(27)
	for _, d := range []string{"atom", "ion", "uosmo", "usdc"} {
		fund = fund.Add(sdk.NewCoin(d, big27))
	}
	n := simchain.NewNode(simchain.Config{Accounts: users, Validators: 1, Fund: fund, Mutate: func(cdc codec.JSONCodec, gs app.GenesisState) {
		var cg clgenesis.GenesisState
		cdc.MustUnmarshalJSON(gs[cltypes.ModuleName], &cg)
		cg.Params.IsPermissionlessPoolCreationEnabled = true
		cg.Params.AuthorizedUptimes = uptimeSet[:nUp]
		cg.SpreadFactorPoolIdMigrationThreshold = threshold
		cg.IncentivesAccumulatorPoolIdMigrationThreshold = uint64(p.Cfg("ithreshold", p.Cfg("threshold", 0)))
		gs[cltypes.ModuleName] = cdc.MustMarshalJSON(&cg)

		var pg poolmanagertypes.GenesisState
		cdc.MustUnmarshalJSON(gs[poolmanagertypes.ModuleName], &pg)
		pg.Params.PoolCreationFee = sdk.NewCoins(sdk.NewInt64Coin("uosmo", 1000))
		pg.Params.AuthorizedQuoteDenoms = quotes
		gs[poolmanagertypes.ModuleName] = cdc.MustMarshalJSON(&pg)

		var eg epochstypes.GenesisState
		cdc.MustUnmarshalJSON(gs[epochstypes.ModuleName], &eg)
		eg.Epochs = append(eg.Epochs, epochstypes.NewGenesisEpochInfo("sim", epochSeconds*time.Second))
		gs[epochstypes.ModuleName] = cdc.MustMarshalJSON(&eg)

		var ig incentivestypes.GenesisState
		cdc.MustUnmarshalJSON(gs[incentivestypes.ModuleName], &ig)
		ig.Params.DistrEpochIdentifier = "sim"
		gs[incentivestypes.ModuleName] = cdc.MustMarshalJSON(&ig)

		var tg txfeestypes.GenesisState
		cdc.MustUnmarshalJSON(gs[txfeestypes.ModuleName], &tg)
		tg.Basedenom = "uosmo"
		gs[txfeestypes.ModuleName] = cdc.MustMarshalJSON(&tg)

		var mg minttypes.GenesisState
		cdc.MustUnmarshalJSON(gs[minttypes.ModuleName], &mg)
		mg.Minter.EpochProvisions = osmomath.ZeroDec()
		gs[minttypes.ModuleName] = cdc.MustMarshalJSON(&mg)
	}})
	n.Spec = run.Plan.Cfg("spec", 0)
	defer func() {
		for i := 0; i < n.Specs; i++ {
			run.Fault("speculative-block-discarded")
		}
	}()
	n.Jitter = p.Cfg("jitter", 0) == 1
	w := &world{run: run, n: n, users: users, pos: map[uint64]*refPos{}, uptimes: uptimeSet[:nUp], threshold: threshold, ithreshold: uint64(p.Cfg("ithreshold", p.Cfg("threshold", 0))), round: p.Cfg("round", 0) == 1}

	begin := func(dt time.Duration) bool {
		if pv := n.BeginBlock(dt); pv != nil {
			run.Fail("C01", "chain-halt", "begin-block", "BeginBlocker panicked: %v", pv)
			return false
		}
		run.Blocks++
		run.SimNanos += int64(dt)
		return true
	}
	end := func() bool {
		if pv := n.EndBlock(); pv != nil {
			run.Fail("C01", "chain-halt", "end-block", "EndBlocker panicked: %v", pv)
			return false
		}
		return true
	}
	if !begin(time.Second) {
		return
	}
	for i, st := range p.Steps {
		run.StepIdx = i
		switch st.Op {
		case "advance", "restart":
			idle := w.idleSnapshot()
			if !end() {
				return
			}
			if st.Op == "restart" {
				n.Restart()
				run.Fault("restart")
			}
			dt := time.Duration(st.Arg(1)) * time.Millisecond
			switch st.Arg(0) {
			case 1: // to just past the next distribution epoch end
				ei := n.App.EpochsKeeper.GetEpochInfo(n.QueryCtx(), "sim")
				endT := ei.CurrentEpochStartTime.Add(ei.Duration)
				if endT.After(n.Time) {
					dt = endT.Sub(n.Time) + time.Duration(st.Arg(1)%3)
				}
				run.Probe("advance-to-epoch-end")
			case 2:
				dt = time.Duration(st.Arg(1)) * time.Second
			case 3:
				dt = time.Duration(st.Arg(1)) * time.Minute / 10
			}
			if dt <= 0 {
				dt = 1
			}
			if !begin(dt) {
				return
			}
			if !w.idleAccrual(idle, st.Op) && run.Stop() {
				return
			}
			run.Event(st.Op, "ok")
			run.Logf("%d %s h=%d t=%s hash=%x", i, st.Op, n.Height, n.Time.Sub(simchain.GenesisTime), n.LastAppHash[:6])
		default:
			if !w.guardedStep(i, st) && run.Stop() {
				return
			}
		}
		// an oracle of a property other than the one being checked does not end the run: every
		// property's check must be able to reach its own oracles on a tree that also breaks another
		if run.Stop() {
			return
		}
		if !w.bookkeeping(st.Op) && run.Stop() {
			return
		}
		if !w.rewardsTier1(st.Op) && run.Stop() {
			return
		}
		if !w.gaugeLedger(st.Op) && run.Stop() {
			return
		}
		if (i%8 == 7 || i == len(p.Steps)-1) && !w.exitEverybody(st, i) && run.Stop() {
			return
		}
	}
	end()
}

// guardedStep runs one step; a panic raised by the module's own code while an oracle queries it
// (message handlers are already isolated by Deliver) is a violation, not a harness failure.
func (w *world) guardedStep(i int, st simcore.Step) (ok bool) {
	defer func() {
		if x := recover(); x != nil {
			stk := string(debug.Stack())
			if !strings.Contains(stk, "/x/concentrated-liquidity") && !strings.Contains(stk, "/osmoutils/") {
				panic(x)
			}
			prop := "C07"
			switch {
			case strings.Contains(stk, "incentives.go") || strings.Contains(stk, "/osmoutils/accum"):
				prop = "C08"
			case strings.Contains(stk, "spread_rewards.go"):
				prop = "C01"
			}
			w.run.Fail(prop, "query-panics", st.Op, "a query of the module panicked: %v", x)
			ok = false
		}
	}()
	before := w.incentiveExcess()
	ok = w.step(i, st)
	if ok || !w.run.Stop() {
		if !w.incentiveConservation(st.Op, before) {
			ok = false
		}
	}
	return ok
}
