package cl

// C09 seen from the concentrated-pool side: no-lock gauges are the only gauges whose payout is an incentive
// record of a concentrated pool, and only this engine has such pools. The oracle is the incentives module's own
// ledger, read after every step: no gauge has distributed more than was deposited or been paid for more epochs
// than it was created for, and the module account still holds everything the unfinished gauges have not
// distributed yet (a payout that is not booked on its gauge is taken from the other gauges' funds).

import (
	"math/big"
	"sort"

	incentivestypes "github.com/osmosis-labs/osmosis/v31/x/incentives/types"
)

func (w *world) gaugeLedger(op string) (ok bool) {
	run, n := w.run, w.n
	if !run.Enabled("C09") {
		return true
	}
	defer w.appPanic("C09", op, &ok)
	ctx := n.QueryCtx()
	fail := func(oracle, format string, a ...interface{}) bool {
		run.Fail("C09", oracle, "no-lock/"+op, format, a...)
		return false
	}
	reserve := map[string]*big.Int{}
	for _, g := range n.App.IncentivesKeeper.GetNotFinishedGauges(ctx) {
		if !g.IsPerpetual && g.FilledEpochs > g.NumEpochsPaidOver {
			return fail("paid-epochs", "gauge %d has been paid for %d epochs, created for %d", g.Id, g.FilledEpochs, g.NumEpochsPaidOver)
		}
		for _, c := range g.DistributedCoins {
			if c.Amount.GT(g.Coins.AmountOf(c.Denom)) {
				return fail("over-distribution", "gauge %d has distributed %s but only %s%s was ever deposited", g.Id, c, g.Coins.AmountOf(c.Denom), c.Denom)
			}
		}
		for _, c := range g.Coins {
			rem := c.Amount.Sub(g.DistributedCoins.AmountOf(c.Denom))
			if reserve[c.Denom] == nil {
				reserve[c.Denom] = new(big.Int)
			}
			reserve[c.Denom].Add(reserve[c.Denom], rem.BigInt())
		}
	}
	var denoms []string
	for d := range reserve {
		denoms = append(denoms, d)
	}
	sort.Strings(denoms)
	incAddr := n.App.AccountKeeper.GetModuleAddress(incentivestypes.ModuleName)
	for _, d := range denoms {
		have := n.Balance(ctx, incAddr, d).BigInt()
		if have.Cmp(reserve[d]) < 0 {
			return fail("module-reserve", "the incentives module account holds %s%s, unfinished gauges still owe %s%s", have, d, reserve[d], d)
		}
	}
	run.Probe("gauge-ledger-checked")
	return true
}
