// Package lockup is the C06 engine: the real x/lockup module inside the full
// application, driven through its messages, checked after every message and
// block against a lock-table reference model and through every gRPC query.
package lockup

import (
	"fmt"
	"runtime/debug"
	"sort"
	"strings"
	"time"

	"github.com/cosmos/cosmos-sdk/codec"
	sdk "github.com/cosmos/cosmos-sdk/types"

	"github.com/osmosis-labs/osmosis/osmomath"
	"github.com/osmosis-labs/osmosis/v31/app"
	lockupkeeper "github.com/osmosis-labs/osmosis/v31/x/lockup/keeper"
	lockuptypes "github.com/osmosis-labs/osmosis/v31/x/lockup/types"

	"verif/harness/simchain"
	"verif/harness/simcore"
)

type Engine struct{}

func init() { simcore.Register(Engine{}) }

func (Engine) Name() string    { return "lockup" }
func (Engine) Props() []string { return []string{"C06"} }
func (Engine) Budget(tier, prop string) (int, int) {
	if tier == "thorough" {
		return 8000, 1700
	}
	return 600, 170
}
func (Engine) Describe() simcore.Description {
	return simcore.Description{
		Real:        []string{"full OsmosisApp: x/lockup keeper, msg server and gRPC querier, its hooks into x/incentives and x/superfluid, osmoutils/sumtree accumulation store, bank, real BeginBlocker/EndBlocker of every module, IAVL commit per block, SDK gas metering"},
		Stub:        []string{"CometBFT (the simulator supplies header time/height and message order)", "ante/post handlers (sender taken as authenticated, no fees)"},
		Rule:        "one run = 2-5 owners, 3 denominations (one a byte-prefix of another), 6 durations incl. two 1ns apart; steps are lock / add-to-lock / begin-unlock (full, partial->split) / begin-unlock-all / extend / set-receiver / force-unlock (allow-listed or not) messages, clock advances and bursts of empty blocks across heights divisible by 120, with seeded out-of-gas (gas limit = fraction of the message's own gas use), forced roll-back and node restarts; after every message and block the module balance, accumulation totals, every lock query and balance conservation are compared with a lock-table reference.",
		Assumptions: []string{"time-based queries are evaluated on, and 1ns around, lock end times and the block time (the iterator comments fix equality: before-time inclusive, after-time exclusive); instants equal to now+duration of a not-unlocking lock are skipped (the two query families disagree there)", "owners are plain accounts; no superfluid staking in this engine (C11 covers it)"},
	}
}

var denoms = []string{"uion", "uionx", "stk"}
var durations = []time.Duration{time.Second, time.Hour, time.Hour + 1, 24 * time.Hour, 7 * 24 * time.Hour, 14 * 24 * time.Hour}

const fundEach = int64(1_000_000_000_000)

func (Engine) Generate(r *simcore.RNG, tier string, idx int) *simcore.Plan {
	p := &simcore.Plan{Config: map[string]int64{}}
	p.Config["owners"] = r.Range(2, 5)
	p.Config["allow0"] = int64(r.Intn(2)) // owner 0 on the force-unlock allow-list
	p.Config["jitter"] = int64(r.Intn(2)) // header times with a varying sub-millisecond part
	faults := idx%2 == 1
	if idx%4 == 3 {
		p.Config["spec"] = 60 + int64(idx/4%5)*60 // permille of blocks first executed speculatively on a discarded branch (simchain.Node.Spec)
	}
	n := int(r.Range(15, 60))
	for i := 0; i < n; i++ {
		st := simcore.Step{}
		switch r.Weighted([]int{30, 16, 3, 8, 5, 5, 14, 5, 2}) {
		case 0:
			st.Op = "lock"
			st.A = []int64{r.Range(0, 4), r.Range(0, 2), r.Range(0, 5), r.Range(0, 3), r.Range(1, 1000000)}
		case 1:
			st.Op = "begin"
			st.A = []int64{r.Range(0, 63), []int64{0, 10000, 1, 5000, 9999, 2500}[r.Intn(6)], r.Range(0, 19)}
		case 2:
			st.Op = "beginall"
			st.A = []int64{r.Range(0, 4)}
		case 3:
			st.Op = "extend"
			st.A = []int64{r.Range(0, 63), r.Range(0, 5), r.Range(0, 19)}
		case 4:
			st.Op = "setrecv"
			st.A = []int64{r.Range(0, 63), r.Range(0, 4), r.Range(0, 19)}
		case 5:
			st.Op = "force"
			st.A = []int64{r.Range(0, 63), []int64{0, 10000, 5000, 1}[r.Intn(4)], r.Range(0, 19)}
		case 6:
			st.Op = "advance"
			// kind 0: small dt; 1: jump by a duration (+-1ns); 2: to a lock's end time (+-1ns)
			st.A = []int64{r.Range(0, 2), r.Range(0, 63), []int64{-1, 0, 1}[r.Intn(3)], r.Range(1, 5000)}
		case 7:
			st.Op = "sweep" // empty blocks up to the next height divisible by 120
			st.A = []int64{r.Range(1, 1000)}
		case 8:
			st.Op = "restart"
			if r.Chance(0.4) {
				// the chain is restarted from an export instead: only what the modules' genesis carries survives
				st.A = []int64{r.Range(0, 5), 1}
			}
		}
		if faults && r.Chance(0.2) && st.Op != "advance" && st.Op != "sweep" && st.Op != "restart" {
			if r.Chance(0.35) {
				st.F = "abort"
			} else {
				st.F = fmt.Sprintf("oog:%d", r.Range(1, 999))
			}
		}
		p.Steps = append(p.Steps, st)
	}
	// make sure matured locks get a chance to return
	p.Steps = append(p.Steps, simcore.Step{Op: "advance", A: []int64{1, 5, 1, 1}}, simcore.Step{Op: "sweep", A: []int64{1}})
	return p
}

// ---- reference model ----

type refLock struct {
	id       uint64
	owner    int
	receiver string // "" = owner
	duration time.Duration
	end      time.Time // zero: not unlocking
	denom    string
	amount   osmomath.Int
}

func (l *refLock) unlocking() bool { return !l.end.IsZero() }

type world struct {
	run    *simcore.Run
	n      *simchain.Node
	q      lockupkeeper.Querier
	owners int
	locks  map[uint64]*refLock
	lastID uint64
	allow0 bool
}

func (w *world) sortedIDs() []uint64 {
	ids := make([]uint64, 0, len(w.locks))
	for id := range w.locks {
		ids = append(ids, id)
	}
	sort.Slice(ids, func(i, j int) bool { return ids[i] < ids[j] })
	return ids
}

func (w *world) pick(sel int64) *refLock {
	ids := w.sortedIDs()
	if len(ids) == 0 {
		return nil
	}
	return w.locks[ids[int(sel)%len(ids)]]
}

func (Engine) Execute(run *simcore.Run) {
	p := run.Plan
	owners := int(p.Cfg("owners", 3))
	allow0 := p.Cfg("allow0", 0) == 1
	fund := sdk.NewCoins()
	for _, d := range denoms {
		fund = fund.Add(sdk.NewInt64Coin(d, fundEach))
	}
	fund = fund.Add(sdk.NewInt64Coin(simchain.BondDenom, fundEach))
	n := simchain.NewNode(simchain.Config{Accounts: owners, Validators: 1, Fund: fund, Mutate: func(cdc codec.JSONCodec, gs app.GenesisState) {
		if allow0 {
			var lg lockuptypes.GenesisState
			cdc.MustUnmarshalJSON(gs[lockuptypes.ModuleName], &lg)
			lg.Params = &lockuptypes.Params{ForceUnlockAllowedAddresses: []string{sdk.AccAddress(simchain.AcctKey(0).PubKey().Address()).String()}}
			gs[lockuptypes.ModuleName] = cdc.MustMarshalJSON(&lg)
		}
	}})
	n.Spec = run.Plan.Cfg("spec", 0)
	defer func() {
		for i := 0; i < n.Specs; i++ {
			run.Fault("speculative-block-discarded")
		}
	}()
	n.Jitter = p.Cfg("jitter", 0) == 1
	w := &world{run: run, n: n, owners: owners, locks: map[uint64]*refLock{}, allow0: allow0}
	w.q = lockupkeeper.NewQuerier(*n.App.LockupKeeper)
	begin := func(dt time.Duration) bool {
		if pv := n.BeginBlock(dt); pv != nil {
			run.Fail("C06", "chain-halt", "begin-block", "BeginBlocker panicked: %v", pv)
			return false
		}
		run.Blocks++
		run.SimNanos += int64(dt)
		return true
	}
	end := func() bool {
		// expected maturations at this block
		before := map[int]map[string]osmomath.Int{}
		for o := 0; o < owners; o++ {
			before[o] = map[string]osmomath.Int{}
			for _, d := range denoms {
				before[o][d] = n.Balance(n.Ctx, n.Accts[o], d)
			}
		}
		if pv := n.EndBlock(); pv != nil {
			run.Fail("C06", "chain-halt", "end-block", "EndBlocker panicked at height %d: %v", n.Height+1, pv)
			return false
		}
		expect := map[int]map[string]osmomath.Int{}
		if n.Height%120 == 0 {
			for _, id := range w.sortedIDs() {
				l := w.locks[id]
				if l.unlocking() && !l.end.After(n.Time) {
					if expect[l.owner] == nil {
						expect[l.owner] = map[string]osmomath.Int{}
					}
					cur, ok := expect[l.owner][l.denom]
					if !ok {
						cur = osmomath.ZeroInt()
					}
					expect[l.owner][l.denom] = cur.Add(l.amount)
					delete(w.locks, id)
					run.Probe("lock-matured-and-returned")
				}
			}
		}
		ctx := n.QueryCtx()
		for o := 0; o < owners; o++ {
			for _, d := range denoms {
				want := before[o][d]
				if e, ok := expect[o][d]; ok {
					want = want.Add(e)
				}
				if got := n.Balance(ctx, n.Accts[o], d); !got.Equal(want) {
					run.Fail("C06", "end-block-payout", "maturity", "height %d time %s: owner %d balance of %s is %s after the end-blocker, reference expects %s (coins may leave the module only to the owner, only once unlocking has run its duration, only at heights divisible by 120)", n.Height, n.Time.Sub(simchain.GenesisTime), o, d, got, want)
					return false
				}
			}
		}
		return true
	}
	if !begin(time.Second) {
		return
	}
	for i, st := range p.Steps {
		run.StepIdx = i
		fk, fa := simcore.ParseFault(st.F)
		switch st.Op {
		case "advance", "sweep", "restart":
			if !end() {
				return
			}
			if !w.oracle("block") {
				return
			}
			switch st.Op {
			case "restart":
				if st.Arg(1) == 1 && (n.Height+1)%120 != 0 { // (the block committing the import must not be one that pays out matured locks)
					if err := n.Reimport(); err != nil {
						sig := "fails"
						if strings.Contains(err.Error(), "twap record p0 and p1 last spot price must be zero") {
							// x/twap's genesis validation refuses records its own end-blocker writes (known finding, an
							// export/import matter recorded under C19): the node is restarted the ordinary way instead
							sig = "twap-genesis-validation"
						}
						run.Fail("C06", "reimport", sig, "restarting the chain from its own export failed: %v", err)
						if sig == "fails" || run.Stop() {
							return
						}
						n.Restart()
						run.Fault("restart")
					} else {
						run.Fault("restart-from-export")
					}
				} else {
					n.Restart()
					run.Fault("restart")
				}
				w.q = lockupkeeper.NewQuerier(*n.App.LockupKeeper)
				if !begin(time.Duration(1+st.Arg(0)) * time.Second) {
					return
				}
			case "advance":
				dt := time.Duration(st.Arg(3)) * time.Millisecond
				switch st.Arg(0) {
				case 1:
					dt = durations[int(st.Arg(1))%len(durations)] + time.Duration(st.Arg(2))
				case 2:
					if l := w.pick(st.Arg(1)); l != nil && l.unlocking() && l.end.After(n.Time) {
						dt = l.end.Sub(n.Time) + time.Duration(st.Arg(2))
						run.Probe("advance-to-lock-end")
					}
				}
				if dt <= 0 {
					dt = 1
				}
				if !begin(dt) {
					return
				}
			case "sweep":
				for {
					if !begin(time.Duration(st.Arg(0)) * time.Millisecond) {
						return
					}
					if n.Height%120 == 0 {
						break
					}
					if !end() {
						return
					}
				}
				run.Fault("height-burst")
			}
			run.Event(st.Op, "ok")
			run.Logf("%d %s -> h=%d t=%s hash=%x", i, st.Op, n.Height, n.Time.Sub(simchain.GenesisTime), n.LastAppHash[:6])
			continue
		}
		msg, apply, expectOK := w.build(st)
		if msg == nil {
			run.Event(st.Op, "skip")
			continue
		}
		res := n.DeliverFault(msg, fk, fa)
		run.Event(st.Op, res.Outcome)
		run.Logf("%d %s %v f=%s -> %s gas=%d err=%v", i, st.Op, st.A, st.F, res.Outcome, res.GasUsed, res.Err)
		switch res.Outcome {
		case "ok":
			if !expectOK {
				run.Fail("C06", "must-fail", st.Op, "%s succeeded but the reference says it must fail: %v", st.Op, msg)
				return
			}
			apply(res)
		case "err", "invalid":
			if expectOK {
				run.Fail("C06", "must-succeed", st.Op, "%s failed but the reference says it must succeed: %v (%v)", st.Op, res.Err, msg)
				return
			}
		case "oog", "abort":
			run.Fault(res.Outcome)
		case "panic":
			run.Fail("C06", "msg-panics", st.Op, "%s panicked: %v", st.Op, res.Panic)
			return
		}
		if run.Stop() || !w.oracle(st.Op) {
			return
		}
	}
	if end() {
		w.oracle("final")
	}
}

func coinsOf(denom string, amt osmomath.Int) sdk.Coins { return sdk.NewCoins(sdk.NewCoin(denom, amt)) }

// build turns a step into a message, the reference-model transition to apply
// on success, and whether the reference expects success.
func (w *world) build(st simcore.Step) (sdk.Msg, func(simchain.Result), bool) {
	n := w.n
	switch st.Op {
	case "lock":
		o := int(st.Arg(0)) % w.owners
		denom := denoms[int(st.Arg(1))%len(denoms)]
		dur := durations[int(st.Arg(2))%len(durations)]
		bal := n.Balance(n.Ctx, n.Accts[o], denom)
		var amt osmomath.Int
		switch st.Arg(3) {
		case 0:
			amt = osmomath.NewInt(1)
		case 1:
			amt = osmomath.NewInt(st.Arg(4))
		case 2:
			amt = bal.MulRaw(st.Arg(4) % 10000).QuoRaw(10000)
		default:
			amt = bal.AddRaw(st.Arg(4) % 3) // all of it, or 1-2 more than owned (must fail)
		}
		if !amt.IsPositive() {
			return nil, nil, false
		}
		msg := &lockuptypes.MsgLockTokens{Owner: n.Accts[o].String(), Duration: dur, Coins: coinsOf(denom, amt)}
		ok := amt.LTE(bal)
		return msg, func(res simchain.Result) {
			// add to an existing not-unlocking lock with the same owner, denom and duration, else create
			for _, id := range w.sortedIDs() {
				l := w.locks[id]
				if l.owner == o && l.denom == denom && l.duration == dur && !l.unlocking() {
					l.amount = l.amount.Add(amt)
					w.run.Probe("add-to-existing-lock")
					return
				}
			}
			w.lastID++
			w.locks[w.lastID] = &refLock{id: w.lastID, owner: o, duration: dur, denom: denom, amount: amt}
		}, ok
	case "begin":
		l := w.pick(st.Arg(0))
		if l == nil {
			return nil, nil, false
		}
		sender := l.owner
		if st.Arg(2) == 0 { // occasionally somebody else tries
			sender = (l.owner + 1) % w.owners
		}
		var coins sdk.Coins
		part := l.amount
		switch bp := st.Arg(1); {
		case bp == 0:
		case bp == 10000:
			coins = coinsOf(l.denom, l.amount)
		case bp == 1:
			part = osmomath.NewInt(1)
			coins = coinsOf(l.denom, part)
		default:
			part = l.amount.MulRaw(bp).QuoRaw(10000)
			if !part.IsPositive() {
				part = osmomath.NewInt(1)
			}
			coins = coinsOf(l.denom, part)
		}
		msg := &lockuptypes.MsgBeginUnlocking{Owner: n.Accts[sender].String(), ID: l.id, Coins: coins}
		ok := sender == l.owner && !l.unlocking()
		id := l.id
		return msg, func(res simchain.Result) {
			l := w.locks[id]
			if part.Equal(l.amount) {
				l.end = n.Time.Add(l.duration)
				return
			}
			l.amount = l.amount.Sub(part)
			w.lastID++
			w.locks[w.lastID] = &refLock{id: w.lastID, owner: l.owner, receiver: l.receiver, duration: l.duration, end: n.Time.Add(l.duration), denom: l.denom, amount: part}
			w.run.Probe("partial-unlock-splits-lock")
		}, ok
	case "beginall":
		o := int(st.Arg(0)) % w.owners
		msg := &lockuptypes.MsgBeginUnlockingAll{Owner: n.Accts[o].String()}
		return msg, func(res simchain.Result) {
			for _, id := range w.sortedIDs() {
				if l := w.locks[id]; l.owner == o && !l.unlocking() {
					l.end = n.Time.Add(l.duration)
				}
			}
		}, true
	case "extend":
		l := w.pick(st.Arg(0))
		if l == nil {
			return nil, nil, false
		}
		sender := l.owner
		if st.Arg(2) == 0 {
			sender = (l.owner + 1) % w.owners
		}
		nd := durations[int(st.Arg(1))%len(durations)]
		msg := &lockuptypes.MsgExtendLockup{Owner: n.Accts[sender].String(), ID: l.id, Duration: nd}
		ok := sender == l.owner && !l.unlocking() && nd > l.duration
		id := l.id
		return msg, func(res simchain.Result) {
			w.locks[id].duration = nd
			w.run.Probe("lock-extended")
		}, ok
	case "setrecv":
		l := w.pick(st.Arg(0))
		if l == nil {
			return nil, nil, false
		}
		sender := l.owner
		if st.Arg(2) == 0 {
			sender = (l.owner + 1) % w.owners
		}
		r := int(st.Arg(1)) % w.owners
		newRecv := n.Accts[r].String()
		stored := newRecv
		if r == l.owner {
			stored = ""
		}
		msg := &lockuptypes.MsgSetRewardReceiverAddress{Owner: n.Accts[sender].String(), RewardReceiver: newRecv, LockID: l.id}
		ok := sender == l.owner && stored != l.receiver
		id := l.id
		return msg, func(res simchain.Result) { w.locks[id].receiver = stored }, ok
	case "force":
		l := w.pick(st.Arg(0))
		if l == nil {
			return nil, nil, false
		}
		sender := l.owner
		if st.Arg(2) == 0 {
			sender = (l.owner + 1) % w.owners
		}
		var coins sdk.Coins
		part := l.amount
		switch bp := st.Arg(1); {
		case bp == 0:
		case bp == 10000:
			coins = coinsOf(l.denom, l.amount)
		default:
			part = l.amount.MulRaw(bp).QuoRaw(10000)
			if !part.IsPositive() {
				part = osmomath.NewInt(1)
			}
			coins = coinsOf(l.denom, part)
		}
		msg := &lockuptypes.MsgForceUnlock{Owner: n.Accts[sender].String(), ID: l.id, Coins: coins}
		ok := sender == l.owner && l.owner == 0 && w.allow0
		id := l.id
		return msg, func(res simchain.Result) {
			l := w.locks[id]
			if part.Equal(l.amount) {
				delete(w.locks, id)
			} else {
				l.amount = l.amount.Sub(part)
				w.lastID++ // the split lock existed only inside the message
			}
			w.run.Probe("force-unlock")
		}, ok
	}
	return nil, nil, false
}

// oracle compares module state and every query with the reference.
func (w *world) oracle(op string) (ok bool) {
	// a panic raised by the module's own code while the oracle queries it (a dangling index entry, for instance)
	// is a violation of "every query returns exactly the matching locks", not a harness failure
	defer func() {
		if x := recover(); x != nil {
			stk := string(debug.Stack())
			if !strings.Contains(stk, "/x/lockup/") && !strings.Contains(stk, "/osmoutils/") {
				panic(x)
			}
			w.run.Fail("C06", "query-panics", op, "a lockup query panicked: %v", x)
			ok = false
		}
	}()
	run, n := w.run, w.n
	ctx := n.QueryCtx()
	k := n.App.LockupKeeper
	fail := func(oracle, format string, a ...interface{}) bool {
		run.Fail("C06", oracle, op, format, a...)
		return false
	}
	ids := w.sortedIDs()
	now := ctx.BlockTime()
	// (1) module balance == sum of live locks; conservation per owner
	sum := map[string]osmomath.Int{}
	perOwner := map[int]map[string]osmomath.Int{}
	for _, id := range ids {
		l := w.locks[id]
		if _, ok := sum[l.denom]; !ok {
			sum[l.denom] = osmomath.ZeroInt()
		}
		sum[l.denom] = sum[l.denom].Add(l.amount)
		if perOwner[l.owner] == nil {
			perOwner[l.owner] = map[string]osmomath.Int{}
		}
		if _, ok := perOwner[l.owner][l.denom]; !ok {
			perOwner[l.owner][l.denom] = osmomath.ZeroInt()
		}
		perOwner[l.owner][l.denom] = perOwner[l.owner][l.denom].Add(l.amount)
	}
	mb := k.GetModuleBalance(ctx)
	for _, d := range denoms {
		want, ok := sum[d]
		if !ok {
			want = osmomath.ZeroInt()
		}
		if got := mb.AmountOf(d); !got.Equal(want) {
			return fail("module-balance", "lockup module holds %s%s, live locks sum to %s", got, d, want)
		}
		for o := 0; o < w.owners; o++ {
			locked := osmomath.ZeroInt()
			if v, ok := perOwner[o][d]; ok {
				locked = v
			}
			if tot := n.Balance(ctx, n.Accts[o], d).Add(locked); !tot.Equal(osmomath.NewInt(fundEach)) {
				return fail("conservation", "owner %d: balance + locked of %s is %s, funded with %d", o, d, tot, fundEach)
			}
		}
	}
	// (2) accumulation totals for every d of interest
	var ds []time.Duration
	for _, d := range durations {
		ds = append(ds, d-1, d, d+1)
	}
	ds = append(ds, 0, 365*24*time.Hour)
	for _, d := range denoms {
		for _, dur := range ds {
			want := osmomath.ZeroInt()
			for _, id := range ids {
				if l := w.locks[id]; l.denom == d && l.duration >= dur {
					want = want.Add(l.amount)
				}
			}
			got := k.GetPeriodLocksAccumulation(ctx, lockuptypes.QueryCondition{LockQueryType: lockuptypes.ByDuration, Denom: d, Duration: dur})
			if !got.Equal(want) {
				return fail("accumulation", "amount of %s locked for at least %s: accumulation store says %s, live locks sum to %s", d, dur, got, want)
			}
			r, err := w.q.LockedDenom(ctx, &lockuptypes.LockedDenomRequest{Denom: d, Duration: dur})
			if err != nil || !r.Amount.Equal(want) {
				return fail("query-locked-denom", "LockedDenom(%s,%s)=%v err=%v want %s", d, dur, r, err, want)
			}
		}
	}
	// (3) by-id and receiver
	for _, id := range ids {
		l := w.locks[id]
		r, err := w.q.LockedByID(ctx, &lockuptypes.LockedRequest{LockId: id})
		if err != nil || r.Lock == nil {
			return fail("query-by-id", "lock %d missing: %v", id, err)
		}
		g := r.Lock
		if g.Owner != n.Accts[l.owner].String() || g.Duration != l.duration || !g.EndTime.Equal(l.end) || len(g.Coins) != 1 || g.Coins[0].Denom != l.denom || !g.Coins[0].Amount.Equal(l.amount) || g.RewardReceiverAddress != l.receiver {
			return fail("query-by-id", "lock %d is %+v, reference {owner %d dur %s end %s %s%s recv %q}", id, *g, l.owner, l.duration, l.end, l.amount, l.denom, l.receiver)
		}
		rr, err := w.q.LockRewardReceiver(ctx, &lockuptypes.LockRewardReceiverRequest{LockId: id})
		wantRecv := l.receiver
		if wantRecv == "" {
			wantRecv = n.Accts[l.owner].String()
		}
		if err != nil || rr.RewardReceiver != wantRecv {
			return fail("query-receiver", "lock %d receiver %v (err %v), want %s", id, rr, err, wantRecv)
		}
	}
	if r, err := w.q.LockedByID(ctx, &lockuptypes.LockedRequest{LockId: w.lastID + 1}); err == nil {
		return fail("query-by-id", "lock %d should not exist: %+v", w.lastID+1, r)
	}
	for gone := uint64(1); gone <= w.lastID; gone++ {
		if w.locks[gone] == nil {
			if _, err := k.GetLockByID(ctx, gone); err == nil {
				return fail("ghost-lock", "lock %d is gone in the reference but still stored", gone)
			}
		}
	}
	if r, err := w.q.NextLockID(ctx, &lockuptypes.NextLockIDRequest{}); err != nil || r.LockId != w.lastID+1 {
		return fail("query-next-id", "NextLockID=%v err=%v want %d", r, err, w.lastID+1)
	}
	// (4) per-owner queries
	type pred func(l *refLock) bool
	checkLocks := func(name string, got []lockuptypes.PeriodLock, f pred, owner int) bool {
		want := map[uint64]bool{}
		for _, id := range ids {
			if l := w.locks[id]; (owner < 0 || l.owner == owner) && f(l) {
				want[id] = true
			}
		}
		seen := map[uint64]bool{}
		for _, g := range got {
			if seen[g.ID] {
				return fail("query-"+name, "%s returns lock %d twice", name, g.ID)
			}
			seen[g.ID] = true
			if !want[g.ID] {
				return fail("query-"+name, "%s returns lock %d which does not match (owner filter %d)", name, g.ID, owner)
			}
			l := w.locks[g.ID]
			if !g.Coins[0].Amount.Equal(l.amount) {
				return fail("query-"+name, "%s returns lock %d with %s, reference %s", name, g.ID, g.Coins, l.amount)
			}
		}
		if len(seen) != len(want) {
			return fail("query-"+name, "%s returns %d locks, reference matches %d", name, len(seen), len(want))
		}
		return true
	}
	checkCoins := func(name string, got sdk.Coins, f pred, owner int) bool {
		want := sdk.NewCoins()
		for _, id := range ids {
			if l := w.locks[id]; (owner < 0 || l.owner == owner) && f(l) {
				want = want.Add(sdk.NewCoin(l.denom, l.amount))
			}
		}
		if !got.Equal(want) {
			return fail("query-"+name, "%s=%s, reference %s", name, got, want)
		}
		return true
	}
	// instants to query: around now, lock end times and now+durations, never exactly on one
	var ts []time.Time
	ts = append(ts, now.Add(-time.Hour), now.Add(1), now.Add(-1), now.Add(400*24*time.Hour))
	for _, id := range ids {
		if l := w.locks[id]; l.unlocking() {
			// exactly on the end time too: the iterator comments fix the meaning ("if it is the
			// unlock time it counts as unlocked": before-time inclusive, after-time exclusive)
			ts = append(ts, l.end.Add(-1), l.end, l.end.Add(1))
		}
	}
	ts = append(ts, now)
	for _, d := range durations {
		ts = append(ts, now.Add(d).Add(-1), now.Add(d).Add(1))
	}
	// only "now + duration of a not-unlocking lock" stays ambiguous at equality (the two query families disagree there)
	critical := map[int64]bool{}
	for _, id := range ids {
		if l := w.locks[id]; !l.unlocking() {
			critical[now.Add(l.duration).UnixNano()] = true
		}
	}
	mlc := k.GetModuleLockedCoins(ctx)
	if !checkCoins("module-locked", mlc, func(l *refLock) bool { return !l.unlocking() || l.end.After(now) }, -1) {
		return false
	}
	for o := 0; o < w.owners; o++ {
		addr := n.Accts[o].String()
		if r, err := w.q.AccountUnlockableCoins(ctx, &lockuptypes.AccountUnlockableCoinsRequest{Owner: addr}); err != nil || !checkCoins("unlockable-coins", r.Coins, func(l *refLock) bool { return l.unlocking() && !l.end.After(now) }, o) {
			return false
		}
		if r, err := w.q.AccountUnlockingCoins(ctx, &lockuptypes.AccountUnlockingCoinsRequest{Owner: addr}); err != nil || !checkCoins("unlocking-coins", r.Coins, func(l *refLock) bool { return l.unlocking() && l.end.After(now) }, o) {
			return false
		}
		if r, err := w.q.AccountLockedCoins(ctx, &lockuptypes.AccountLockedCoinsRequest{Owner: addr}); err != nil || !checkCoins("locked-coins", r.Coins, func(l *refLock) bool { return !l.unlocking() || l.end.After(now) }, o) {
			return false
		}
		for _, d := range ds {
			dd := d
			if r, err := w.q.AccountLockedLongerDuration(ctx, &lockuptypes.AccountLockedLongerDurationRequest{Owner: addr, Duration: dd}); err != nil || !checkLocks("longer-duration", r.Locks, func(l *refLock) bool { return l.duration >= dd }, o) {
				return false
			}
			if r, err := w.q.AccountLockedLongerDurationNotUnlockingOnly(ctx, &lockuptypes.AccountLockedLongerDurationNotUnlockingOnlyRequest{Owner: addr, Duration: dd}); err != nil || !checkLocks("longer-duration-not-unlocking", r.Locks, func(l *refLock) bool { return l.duration >= dd && !l.unlocking() }, o) {
				return false
			}
			if r, err := w.q.AccountLockedDuration(ctx, &lockuptypes.AccountLockedDurationRequest{Owner: addr, Duration: dd}); err != nil || !checkLocks("exact-duration", r.Locks, func(l *refLock) bool { return l.duration == dd }, o) {
				return false
			}
			for _, den := range denoms {
				den := den
				if r, err := w.q.AccountLockedLongerDurationDenom(ctx, &lockuptypes.AccountLockedLongerDurationDenomRequest{Owner: addr, Duration: dd, Denom: den}); err != nil || !checkLocks("longer-duration-denom", r.Locks, func(l *refLock) bool { return l.duration >= dd && l.denom == den }, o) {
					return false
				}
			}
		}
		for _, t := range ts {
			if critical[t.UnixNano()] {
				continue
			}
			t := t
			// a not-unlocking lock would end at now+duration if unlocking started now
			past := func(l *refLock) bool {
				if l.unlocking() {
					return l.end.After(t)
				}
				return now.Add(l.duration).After(t)
			}
			if r, err := w.q.AccountLockedPastTime(ctx, &lockuptypes.AccountLockedPastTimeRequest{Owner: addr, Timestamp: t}); err != nil || !checkLocks("locked-past-time", r.Locks, past, o) {
				return false
			}
			if r, err := w.q.AccountLockedPastTimeNotUnlockingOnly(ctx, &lockuptypes.AccountLockedPastTimeNotUnlockingOnlyRequest{Owner: addr, Timestamp: t}); err != nil || !checkLocks("locked-past-time-not-unlocking", r.Locks, func(l *refLock) bool { return !l.unlocking() && past(l) }, o) {
				return false
			}
			if r, err := w.q.AccountUnlockedBeforeTime(ctx, &lockuptypes.AccountUnlockedBeforeTimeRequest{Owner: addr, Timestamp: t}); err != nil || !checkLocks("unlocked-before-time", r.Locks, func(l *refLock) bool {
				if l.unlocking() {
					return !l.end.After(t)
				}
				return !t.Before(now) && !now.Add(l.duration).After(t)
			}, o) {
				return false
			}
			for _, den := range denoms {
				den := den
				if r, err := w.q.AccountLockedPastTimeDenom(ctx, &lockuptypes.AccountLockedPastTimeDenomRequest{Owner: addr, Timestamp: t, Denom: den}); err != nil || !checkLocks("locked-past-time-denom", r.Locks, func(l *refLock) bool { return l.denom == den && past(l) }, o) {
					return false
				}
			}
		}
	}
	// by-denom keeper-level lists used by incentives
	for _, den := range denoms {
		den := den
		for _, d := range ds {
			dd := d
			if !checkLocks("locks-longer-than-duration-denom", k.GetLocksLongerThanDurationDenom(ctx, den, dd), func(l *refLock) bool { return l.denom == den && l.duration >= dd }, -1) {
				return false
			}
		}
	}
	for _, den := range denoms {
		den := den
		if !checkLocks("locks-denom", k.GetLocksDenom(ctx, den), func(l *refLock) bool { return l.denom == den }, -1) {
			return false
		}
		for _, t := range ts {
			if critical[t.UnixNano()] {
				continue
			}
			t := t
			if !checkLocks("locks-past-time-denom", k.GetLocksPastTimeDenom(ctx, den, t), func(l *refLock) bool {
				if l.denom != den {
					return false
				}
				if l.unlocking() {
					return l.end.After(t)
				}
				return now.Add(l.duration).After(t)
			}, -1) {
				return false
			}
		}
	}
	all, _ := k.GetPeriodLocks(ctx)
	if !checkLocks("all-locks", all, func(l *refLock) bool { return true }, -1) {
		return false
	}
	return true
}
