// Package gauges is the C09 engine: the real x/incentives module inside the
// full application, driven through its messages and through x/lockup's, with
// the distribution epoch shortened to one minute. At every block start, every
// message and every epoch end the keeper's gauges, the status queues and the
// bank balances are compared with a gauge-table + lock-table reference model
// in exact integer arithmetic.
package gauges

import (
	"fmt"
	"math/big"
	"sort"
	"strings"
	"time"

	"github.com/cosmos/cosmos-sdk/codec"
	sdk "github.com/cosmos/cosmos-sdk/types"
	"github.com/cosmos/cosmos-sdk/types/query"
	authtypes "github.com/cosmos/cosmos-sdk/x/auth/types"
	distrtypes "github.com/cosmos/cosmos-sdk/x/distribution/types"

	"github.com/osmosis-labs/osmosis/osmomath"
	"github.com/osmosis-labs/osmosis/v31/app"
	"github.com/osmosis-labs/osmosis/v31/x/gamm/pool-models/balancer"
	incentiveskeeper "github.com/osmosis-labs/osmosis/v31/x/incentives/keeper"
	incentivestypes "github.com/osmosis-labs/osmosis/v31/x/incentives/types"
	lockuptypes "github.com/osmosis-labs/osmosis/v31/x/lockup/types"
	minttypes "github.com/osmosis-labs/osmosis/v31/x/mint/types"
	poolincentivestypes "github.com/osmosis-labs/osmosis/v31/x/pool-incentives/types"
	txfeestypes "github.com/osmosis-labs/osmosis/v31/x/txfees/types"
	epochstypes "github.com/osmosis-labs/osmosis/x/epochs/types"

	"verif/harness/simchain"
	"verif/harness/simcore"
)

type Engine struct{}

func init() { simcore.Register(Engine{}) }

func (Engine) Name() string    { return "gauges" }
func (Engine) Props() []string { return []string{"C09"} }
func (Engine) Budget(tier, prop string) (int, int) {
	if tier == "thorough" {
		return 9000, 900
	}
	return 1600, 170
}
func (Engine) Describe() simcore.Description {
	return simcore.Description{
		Real: []string{"full OsmosisApp: x/incentives keeper, msg server, epoch hook and querier; x/lockup msg server and end-blocker; x/epochs begin-blocker and its hook wrapper; x/protorev denom-pair routes and a real x/gamm balancer pool used to value rewards; bank, distribution (community pool); real BeginBlocker/EndBlocker of every module, IAVL commit per block, SDK gas metering"},
		Stub: []string{"CometBFT (the simulator supplies header time/height and message order)", "ante/post handlers (sender taken as authenticated, no tx fees)", "the protorev route of the second reward denomination is removed/restored by the simulator through the protorev keeper (on a live chain only the protorev admin / daily pool update changes it)"},
		Rule: "one run = 2-4 accounts (lock owners, gauge creators and reward receivers) + one liquidity provider, 2 lock denominations, lock durations 5s..1000s of which {10s,60s,300s} are lockable durations, a 60s distribution epoch, MinValueForDistribution in {0, 1, 2000, 2000000}uosmo, reward denominations uosmo / ufoo (valued through a 50:50 uosmo pool at price 1/3..3) / ubar (no route); steps are lock, begin-unlock (full/partial), extend-lockup, set-reward-receiver (incl. a blocked module address), create-gauge (perpetual / 1-6 epochs, start now/past/future/at an epoch boundary, one or two reward denominations, amounts 1..1e10, invalid variants), add-to-gauge, advances past 1-4 epoch ends, small ticks, bursts of blocks up to a height divisible by 120, node restarts, route removal/restoration, with seeded out-of-gas / forced roll-back on the user messages; every block start and every message is checked against the reference.",
		Assumptions: []string{
			"qualifying locks of a by-duration gauge = every lock still stored by x/lockup (not yet returned to its owner) of the gauge's denomination whose duration is >= the gauge's duration, whether or not it has begun (or even completed) unlocking: x/incentives distributes to lockup's GetLocksLongerThanDurationDenom, which lists unlocking and not-unlocking locks, and the module README only speaks of 'locks which has more than specific duration'",
			"a paying epoch of a gauge = a distribution-epoch end at which the gauge is active and at least one lock qualifies (amounts may still all be zero or below the minimum); epochs without any qualifying lock do not count and pay nothing",
			"pay(lock, denom) = floor(remaining * lockAmount / (totalQualifying * remainingEpochs)) - one floor per lock and reward denomination, as the property sentence reads; remainingEpochs = 1 for perpetual gauges",
			"value of a non-base reward = amount / spot price of the routed 50:50 pool; amounts within 2 units of minimum*price are accepted either way (the module compares with a zero-fee swap quote of the minimum, which differs from the spot valuation by < 1 unit at these reserves, see thresholdBand); base-denom amounts are compared with the minimum exactly",
			"the status queues (upcoming/active/finished) are only compared in the form they have after an epoch end: a gauge whose start time passes between two epoch ends stays in the upcoming queue until the next epoch end, which no payout can observe",
			"when the reward transfer of an epoch fails (a reward receiver is a blocked module account) the whole incentives epoch hook must leave no trace (DESIGN C09: containment)",
			"a run stays below 20 simulated hours so that the daily protorev pool refresh and minting never run",
		},
	}
}

const (
	epochID   = "distr"
	epochDur  = 60 * time.Second
	baseDenom = simchain.BondDenom
	fooDenom  = "ufoo" // has a protorev route to the base denom
	barDenom  = "ubar" // never has a route
	blockedID = 99     // receiver argument meaning "the blocked module address"
)

var (
	lockDenoms   = []string{"stk", "uion"}
	rewardDenoms = []string{baseDenom, fooDenom, barDenom}
	lockDurs     = []time.Duration{5 * time.Second, 10 * time.Second, 60 * time.Second, 300 * time.Second, 1000 * time.Second}
	lockable     = []time.Duration{10 * time.Second, 60 * time.Second, 300 * time.Second}
	minValues    = []int64{1, 2000, 2_000_000, 0}
	// price of the routed pool: ufoo reserve / uosmo reserve
	prices = [][2]int64{{1, 1}, {2, 1}, {1, 2}, {3, 1}, {1, 3}}
)

const reserveUnit = int64(100_000_000_000_000) // 1e14

func (Engine) Generate(r *simcore.RNG, tier string, idx int) *simcore.Plan {
	p := &simcore.Plan{Config: map[string]int64{}}
	p.Config["owners"] = r.Range(2, 4)
	p.Config["minval"] = int64(r.Intn(len(minValues)))
	p.Config["price"] = int64(r.Intn(len(prices)))
	faults := idx%2 == 1
	if idx%4 == 3 {
		p.Config["spec"] = 60 + int64(idx/4%5)*60 // permille of blocks first executed speculatively on a discarded branch (simchain.Node.Spec)
	}
	amount := func() int64 {
		switch r.Weighted([]int{3, 4, 4}) {
		case 0:
			return r.Range(1, 150)
		case 1:
			return r.Range(151, 100_000)
		}
		return r.Magnitude(5, 10).Int64()
	}
	lockStep := func() simcore.Step {
		return simcore.Step{Op: "lock", A: []int64{r.Range(0, 3), r.Range(0, 1), r.Range(0, 4), r.Range(0, 3), r.Range(1, 1_000_000)}}
	}
	gaugeStep := func() simcore.Step {
		variant := int64(0)
		if r.Chance(0.12) {
			variant = r.Range(1, 4)
		}
		return simcore.Step{Op: "gauge", A: []int64{r.Range(0, 3), int64(r.Weighted([]int{3, 1})), r.Range(0, 1), r.Range(0, 2),
			int64(r.Weighted([]int{5, 2, 4, 2})), r.Range(1, 400), r.Range(0, 5), int64(r.Weighted([]int{3, 2, 3})), amount(), amount(), variant}}
	}
	p.Steps = append(p.Steps, lockStep(), lockStep(), gaugeStep())
	n := int(r.Range(15, 55))
	for i := 0; i < n; i++ {
		st := simcore.Step{}
		switch r.Weighted([]int{20, 8, 7, 15, 8, 20, 8, 2, 2, 1, 2, 5}) {
		case 0:
			st = lockStep()
		case 1:
			st.Op = "begin"
			st.A = []int64{r.Range(0, 63), []int64{0, 10000, 1, 5000, 9999, 2500}[r.Intn(6)], r.Range(0, 19)}
		case 2:
			st.Op = "setrecv"
			recv := r.Range(0, 3)
			if r.Chance(0.08) {
				recv = blockedID
			}
			st.A = []int64{r.Range(0, 63), recv, r.Range(0, 19)}
		case 3:
			st = gaugeStep()
		case 4:
			st.Op = "add"
			variant := int64(0)
			if r.Chance(0.12) {
				variant = r.Range(1, 2)
			}
			st.A = []int64{r.Range(0, 31), r.Range(0, 3), int64(r.Weighted([]int{3, 2, 3})), amount(), amount(), variant}
		case 5:
			st.Op = "epoch" // advance past the next epoch end; A[0]-1 further epochs are caught up one per block
			st.A = []int64{int64(1 + r.Weighted([]int{12, 3, 2, 1})), r.Range(1, 30_000)}
		case 6:
			st.Op = "tick"
			st.A = []int64{r.Range(1, 20_000)}
		case 7:
			st.Op = "sweep" // blocks up to the next height divisible by 120 (matured locks are returned there)
			st.A = []int64{r.Range(1, 1000)}
		case 8:
			st.Op = "restart"
		case 9:
			st.Op = "unroute"
		case 10:
			st.Op = "reroute"
		case 11:
			st.Op = "extend" // MsgExtendLockup: the other door that re-writes a lock (duration only; owner, amount and receiver stay)
			st.A = []int64{r.Range(0, 63), r.Range(0, 4), r.Range(0, 19)}
		}
		if faults && r.Chance(0.15) {
			switch st.Op {
			case "lock", "begin", "setrecv", "gauge", "add", "extend":
				if r.Chance(0.35) {
					st.F = "abort"
				} else {
					st.F = fmt.Sprintf("oog:%d", r.Range(1, 999))
				}
			}
		}
		p.Steps = append(p.Steps, st)
	}
	p.Steps = append(p.Steps, simcore.Step{Op: "epoch", A: []int64{2, 500}}, simcore.Step{Op: "epoch", A: []int64{1, 500}})
	return p
}

// ---- exact amounts ----

type amounts map[string]*big.Int

func (a amounts) get(d string) *big.Int {
	if v, ok := a[d]; ok {
		return v
	}
	return new(big.Int)
}

func (a amounts) add(d string, x *big.Int) {
	if x.Sign() == 0 {
		return
	}
	a[d] = new(big.Int).Add(a.get(d), x)
}

func (a amounts) addAll(b amounts) {
	for _, d := range b.denoms() {
		a.add(d, b[d])
	}
}

func (a amounts) clone() amounts {
	c := amounts{}
	for _, d := range a.denoms() {
		c[d] = new(big.Int).Set(a[d])
	}
	return c
}

func (a amounts) denoms() []string {
	ds := make([]string, 0, len(a))
	for d, v := range a {
		if v.Sign() != 0 {
			ds = append(ds, d)
		}
	}
	sort.Strings(ds)
	return ds
}

func (a amounts) sub(b amounts) amounts {
	c := a.clone()
	for _, d := range b.denoms() {
		c[d] = new(big.Int).Sub(c.get(d), b[d])
	}
	return c
}

func (a amounts) equal(b amounts) bool {
	da, db := a.denoms(), b.denoms()
	if len(da) != len(db) {
		return false
	}
	for i, d := range da {
		if db[i] != d || a[d].Cmp(b[d]) != 0 {
			return false
		}
	}
	return true
}

func (a amounts) isZero() bool { return len(a.denoms()) == 0 }

func (a amounts) String() string {
	var parts []string
	for _, d := range a.denoms() {
		parts = append(parts, a[d].String()+d)
	}
	if len(parts) == 0 {
		return "0"
	}
	return strings.Join(parts, ",")
}

func fromCoins(c sdk.Coins) amounts {
	a := amounts{}
	for _, x := range c {
		a.add(x.Denom, x.Amount.BigInt())
	}
	return a
}

// ---- reference model ----

type refLock struct {
	id       uint64
	owner    int
	receiver string // "" = owner, else bech32
	duration time.Duration
	end      time.Time // zero: not unlocking
	denom    string
	amount   *big.Int
}

func (l *refLock) unlocking() bool { return !l.end.IsZero() }

const (
	stUpcoming = 0
	stActive   = 1
	stFinished = 2
)

var statusName = []string{"upcoming", "active", "finished"}

type refGauge struct {
	id          uint64
	perpetual   bool
	denom       string
	dur         time.Duration
	start       time.Time
	n           uint64
	filled      uint64
	coins       amounts // deposited
	distributed amounts
	status      int
}

func (g *refGauge) clone() *refGauge {
	c := *g
	c.coins = g.coins.clone()
	c.distributed = g.distributed.clone()
	return &c
}

func (g *refGauge) remaining() amounts { return g.coins.sub(g.distributed) }

type world struct {
	run    *simcore.Run
	n      *simchain.Node
	q      incentiveskeeper.Querier
	owners int
	minVal *big.Int
	poolID uint64
	routed bool
	// thr = minVal * fooReserve / baseReserve (ufoo worth the minimum at spot price)
	thr *big.Rat

	locks      map[uint64]*refLock
	lastLockID uint64
	gauges     map[uint64]*refGauge
	lastGauge  uint64

	epochStart time.Time
	epochNum   int64

	blocked  sdk.AccAddress
	incAddr  sdk.AccAddress
	distAddr sdk.AccAddress
	tracked  []sdk.AccAddress // accounts, blocked address
}

func (w *world) lockIDs() []uint64 {
	ids := make([]uint64, 0, len(w.locks))
	for id := range w.locks {
		ids = append(ids, id)
	}
	sort.Slice(ids, func(i, j int) bool { return ids[i] < ids[j] })
	return ids
}

func gaugeIDs(m map[uint64]*refGauge) []uint64 {
	ids := make([]uint64, 0, len(m))
	for id := range m {
		ids = append(ids, id)
	}
	sort.Slice(ids, func(i, j int) bool { return ids[i] < ids[j] })
	return ids
}

func (w *world) pickLock(sel int64) *refLock {
	ids := w.lockIDs()
	if len(ids) == 0 {
		return nil
	}
	return w.locks[ids[int(sel)%len(ids)]]
}

func (w *world) receiverOf(l *refLock) string {
	if l.receiver == "" {
		return w.n.Accts[l.owner].String()
	}
	return l.receiver
}

// snapshot of the reward-denomination balances the oracles look at.
type snapshot struct {
	bal map[string]amounts // bech32 -> balances
}

func (w *world) snapshot(ctx sdk.Context) snapshot {
	s := snapshot{bal: map[string]amounts{}}
	addrs := append([]sdk.AccAddress{}, w.tracked...)
	addrs = append(addrs, w.incAddr, w.distAddr)
	for _, a := range addrs {
		am := amounts{}
		for _, d := range rewardDenoms {
			am.add(d, w.n.Balance(ctx, a, d).BigInt())
		}
		s.bal[a.String()] = am
	}
	return s
}

func (s snapshot) delta(before snapshot, addr sdk.AccAddress) amounts {
	return s.bal[addr.String()].sub(before.bal[addr.String()])
}

func (Engine) Execute(run *simcore.Run) {
	p := run.Plan
	owners := int(p.Cfg("owners", 3))
	if owners < 1 {
		owners = 1
	}
	if owners > 4 {
		owners = 4
	}
	minVal := minValues[int(p.Cfg("minval", 0))%len(minValues)]
	price := prices[int(p.Cfg("price", 0))%len(prices)]

	fund := sdk.NewCoins(
		sdk.NewInt64Coin(baseDenom, 1_000_000_000_000_000_000),
		sdk.NewInt64Coin(fooDenom, 1_000_000_000_000_000_000),
		sdk.NewInt64Coin(barDenom, 1_000_000_000_000),
	)
	for _, d := range lockDenoms {
		fund = fund.Add(sdk.NewInt64Coin(d, 1_000_000_000_000))
	}
	n := simchain.NewNode(simchain.Config{Accounts: owners + 1, Validators: 1, Fund: fund, Mutate: func(cdc codec.JSONCodec, gs app.GenesisState) {
		var ig incentivestypes.GenesisState
		cdc.MustUnmarshalJSON(gs[incentivestypes.ModuleName], &ig)
		ig.Params.DistrEpochIdentifier = epochID
		ig.Params.MinValueForDistribution = sdk.NewInt64Coin(baseDenom, minVal)
		ig.LockableDurations = lockable
		gs[incentivestypes.ModuleName] = cdc.MustMarshalJSON(&ig)

		var pg poolincentivestypes.GenesisState
		cdc.MustUnmarshalJSON(gs[poolincentivestypes.ModuleName], &pg)
		pg.LockableDurations = lockable
		gs[poolincentivestypes.ModuleName] = cdc.MustMarshalJSON(&pg)

		var eg epochstypes.GenesisState
		cdc.MustUnmarshalJSON(gs[epochstypes.ModuleName], &eg)
		eg.Epochs = append(eg.Epochs, epochstypes.NewGenesisEpochInfo(epochID, epochDur))
		gs[epochstypes.ModuleName] = cdc.MustMarshalJSON(&eg)

		// the fee of gauge messages is charged in the txfees base denomination
		var tg txfeestypes.GenesisState
		cdc.MustUnmarshalJSON(gs[txfeestypes.ModuleName], &tg)
		tg.Basedenom = baseDenom
		gs[txfeestypes.ModuleName] = cdc.MustMarshalJSON(&tg)

		var mg minttypes.GenesisState
		cdc.MustUnmarshalJSON(gs[minttypes.ModuleName], &mg)
		mg.Minter.EpochProvisions = osmomath.ZeroDec()
		gs[minttypes.ModuleName] = cdc.MustMarshalJSON(&mg)
	}})
	n.Spec = run.Plan.Cfg("spec", 0)
	defer func() {
		for i := 0; i < n.Specs; i++ {
			run.Fault("speculative-block-discarded")
		}
	}()
	w := &world{run: run, n: n, owners: owners, minVal: big.NewInt(minVal), routed: true,
		locks: map[uint64]*refLock{}, gauges: map[uint64]*refGauge{},
		epochStart: simchain.GenesisTime, epochNum: 1,
		blocked:  authtypes.NewModuleAddress(lockuptypes.ModuleName),
		incAddr:  authtypes.NewModuleAddress(incentivestypes.ModuleName),
		distAddr: authtypes.NewModuleAddress(distrtypes.ModuleName),
	}
	w.q = incentiveskeeper.NewQuerier(*n.App.IncentivesKeeper)
	w.tracked = append(w.tracked, n.Accts...)
	w.tracked = append(w.tracked, w.blocked)

	if !w.begin(time.Second) {
		return
	}
	w.setup(price)

	for i, st := range p.Steps {
		run.StepIdx = i
		switch st.Op {
		case "epoch", "tick", "sweep", "restart":
			if n.Time.Sub(simchain.GenesisTime) > 20*time.Hour {
				run.Event(st.Op, "skip")
				continue
			}
			if !w.end() || !w.invariants("block") {
				return
			}
			switch st.Op {
			case "restart":
				n.Restart()
				w.q = incentiveskeeper.NewQuerier(*n.App.IncentivesKeeper)
				run.Fault("restart")
				if !w.begin(time.Second) {
					return
				}
			case "tick":
				if !w.begin(time.Duration(1+abs(st.Arg(0))%20_000) * time.Millisecond) {
					return
				}
			case "epoch":
				k := 1 + (abs(st.Arg(0))+3)%4 // 1..4, argument 1 -> 1
				dt := w.epochStart.Add(epochDur).Sub(n.Time) + time.Duration(1+abs(st.Arg(1))%30_000)*time.Millisecond
				if dt <= 0 {
					dt = time.Millisecond
				}
				dt += time.Duration(k-1) * epochDur
				if !w.begin(dt) {
					return
				}
				for j := int64(1); j < k; j++ {
					if !w.end() || !w.invariants("block") || !w.begin(time.Second) {
						return
					}
				}
				if k >= 3 {
					run.Probe("epoch-catch-up>=3")
				}
				run.Fault("time-jump")
			case "sweep":
				for {
					if !w.begin(time.Duration(1+abs(st.Arg(0))%1000) * time.Millisecond) {
						return
					}
					if n.Height%120 == 0 {
						break
					}
					if !w.end() {
						return
					}
				}
				run.Fault("height-burst")
			}
			run.Event(st.Op, "ok")
			run.Logf("%d %s %v -> h=%d t=%s epoch=%d hash=%x", i, st.Op, st.A, n.Height, n.Time.Sub(simchain.GenesisTime), w.epochNum, n.LastAppHash[:6])
			if !w.invariants("block") {
				return
			}
			continue
		case "unroute":
			n.App.ProtoRevKeeper.DeleteAllPoolsForBaseDenom(n.Ctx, baseDenom)
			w.routed = false
			run.Event(st.Op, "ok")
			run.Logf("%d unroute", i)
			continue
		case "reroute":
			n.App.ProtoRevKeeper.SetPoolForDenomPair(n.Ctx, baseDenom, fooDenom, w.poolID)
			w.routed = true
			run.Event(st.Op, "ok")
			run.Logf("%d reroute", i)
			continue
		}
		if !w.message(i, st) {
			return
		}
	}
	if w.end() {
		w.invariants("final")
	}
}

func abs(x int64) int64 {
	if x < 0 {
		if x == -x {
			return 0
		}
		return -x
	}
	return x
}

// setup creates the pool that gives fooDenom a protorev route and records the
// (empty, perpetual) gauges pool-incentives creates for the pool's shares.
func (w *world) setup(price [2]int64) {
	n := w.n
	lp := n.Accts[w.owners]
	baseRes := osmomath.NewInt(reserveUnit).MulRaw(price[1])
	fooRes := osmomath.NewInt(reserveUnit).MulRaw(price[0])
	msg := balancer.NewMsgCreateBalancerPool(lp, balancer.PoolParams{SwapFee: osmomath.ZeroDec(), ExitFee: osmomath.ZeroDec()},
		[]balancer.PoolAsset{
			{Weight: osmomath.NewInt(100), Token: sdk.NewCoin(fooDenom, fooRes)},
			{Weight: osmomath.NewInt(100), Token: sdk.NewCoin(baseDenom, baseRes)},
		}, "")
	res := n.Deliver(&msg, 0, false)
	if !res.OK() {
		panic(fmt.Sprintf("setup: pool creation failed: %s %v %v", res.Outcome, res.Err, res.Panic))
	}
	id, err := n.App.ProtoRevKeeper.GetPoolForDenomPairNoOrder(n.Ctx, baseDenom, fooDenom)
	if err != nil {
		panic(fmt.Sprintf("setup: no protorev route after pool creation: %v", err))
	}
	w.poolID = id
	liq, err := n.App.PoolManagerKeeper.GetTotalPoolLiquidity(n.Ctx, id)
	if err != nil {
		panic(err)
	}
	// spot price of an equal-weight pool = ratio of reserves (exact rational)
	w.thr = new(big.Rat).SetFrac(new(big.Int).Mul(w.minVal, liq.AmountOf(fooDenom).BigInt()), liq.AmountOf(baseDenom).BigInt())
	for _, g := range n.App.IncentivesKeeper.GetGauges(n.Ctx) {
		w.gauges[g.Id] = &refGauge{id: g.Id, perpetual: g.IsPerpetual, denom: g.DistributeTo.Denom, dur: g.DistributeTo.Duration,
			start: g.StartTime, n: g.NumEpochsPaidOver, coins: fromCoins(g.Coins), distributed: fromCoins(g.DistributedCoins), status: stUpcoming}
		if !g.Coins.Empty() || g.DistributeTo.LockQueryType != lockuptypes.ByDuration {
			panic(fmt.Sprintf("setup: unexpected gauge %+v", g))
		}
	}
	w.lastGauge = n.App.IncentivesKeeper.GetLastGaugeID(n.Ctx)
	if uint64(len(w.gauges)) != w.lastGauge {
		panic("setup: gauge ids not dense")
	}
	w.run.Logf("setup pool=%d liq=%s gauges=%d thr=%s", id, liq, w.lastGauge, w.thr.FloatString(3))
}

// thresholdBand classifies an amount of fooDenom against the configured
// minimum. The property values the amount ("worth less than the minimum"):
// at the pool's spot price P = fooReserve/baseReserve the amount is worth less
// than the minimum iff amount < min*P. The module instead asks the pool how
// much fooDenom a zero-fee swap of the minimum yields: fooReserve*min /
// (baseReserve+min) for equal weights, which lies below min*P by
// P*min^2/(baseReserve+min) < 3*(2e6)^2/1e14 < 1, plus at most one unit of
// truncation. Amounts within 2 of min*P are therefore accepted either way.
// -1: must be skipped, +1: must be paid, 0: either.
func (w *world) thresholdBand(amt *big.Int) int {
	lo := new(big.Rat).Sub(w.thr, big.NewRat(2, 1))
	hi := new(big.Rat).Add(w.thr, big.NewRat(2, 1))
	a := new(big.Rat).SetInt(amt)
	if a.Cmp(lo) < 0 {
		return -1
	}
	if a.Cmp(hi) > 0 {
		return 1
	}
	return 0
}

// ---- block loop ----

func (w *world) begin(dt time.Duration) bool {
	run, n := w.run, w.n
	pre := w.snapshot(n.QueryCtx())
	if pv := n.BeginBlock(dt); pv != nil {
		run.Fail("C09", "chain-halt", "begin-block", "BeginBlocker panicked at height %d: %v", n.Height, pv)
		return false
	}
	run.Blocks++
	run.SimNanos += int64(dt)
	ended := n.Time.After(w.epochStart.Add(epochDur))
	if ended {
		w.epochStart = w.epochStart.Add(epochDur)
		w.epochNum++
	}
	if ei := n.App.EpochsKeeper.GetEpochInfo(n.Ctx, epochID); ei.CurrentEpoch != w.epochNum || !ei.CurrentEpochStartTime.Equal(w.epochStart) {
		run.Fail("C09", "epoch-schedule", "timer", "height %d time %s: distribution epoch is %d started %s, reference expects %d started %s", n.Height, n.Time.Sub(simchain.GenesisTime), ei.CurrentEpoch, ei.CurrentEpochStartTime, w.epochNum, w.epochStart)
		return false
	}
	post := w.snapshot(n.Ctx)
	if ended {
		return w.epochOracle(pre, post)
	}
	for _, a := range append(append([]sdk.AccAddress{}, w.tracked...), w.incAddr) {
		if d := post.delta(pre, a); !d.isZero() {
			run.Fail("C09", "off-schedule-transfer", "begin-block", "height %d: balance of %s changed by %s in a block start that ended no distribution epoch", n.Height, a, d)
			return false
		}
	}
	return true
}

func (w *world) end() bool {
	n := w.n
	if pv := n.EndBlock(); pv != nil {
		w.run.Fail("C09", "chain-halt", "end-block", "EndBlocker panicked at height %d: %v", n.Height+1, pv)
		return false
	}
	if n.Height%120 == 0 {
		for _, id := range w.lockIDs() {
			if l := w.locks[id]; l.unlocking() && !l.end.After(n.Time) {
				delete(w.locks, id)
				w.run.Probe("lock-matured-and-returned")
			}
		}
	}
	return true
}

// ---- epoch reference ----

type payItem struct {
	gid, lid uint64
	owner    int
	recv     string
	denom    string
	amt      *big.Int
}

type epochCalc struct {
	gauges    map[uint64]*refGauge // state after a successful epoch hook
	fixed     []payItem
	amb       []payItem       // boundary-ambiguous items (may or may not be paid)
	noLocks   map[uint64]bool // active gauges without a qualifying lock
	remBefore map[uint64]amounts
	// valued: some lock's share of a routed non-base reward had to be valued
	valued bool
}

func (w *world) qualifying(g *refGauge) []*refLock {
	var out []*refLock
	for _, id := range w.lockIDs() {
		if l := w.locks[id]; l.denom == g.denom && l.duration >= g.dur {
			out = append(out, l)
		}
	}
	return out
}

// calc computes what an epoch end at block time T must do.
func (w *world) calc(T time.Time) *epochCalc {
	c := &epochCalc{gauges: map[uint64]*refGauge{}, noLocks: map[uint64]bool{}, remBefore: map[uint64]amounts{}}
	for _, id := range gaugeIDs(w.gauges) {
		c.gauges[id] = w.gauges[id].clone()
	}
	for _, id := range gaugeIDs(c.gauges) {
		g := c.gauges[id]
		if g.status == stUpcoming && !T.Before(g.start) {
			g.status = stActive
		}
		if g.status != stActive {
			continue
		}
		if !g.perpetual && g.filled >= g.n {
			// only reachable after a resync adopted such a state from the chain:
			// all paying epochs are used up, so the gauge must be finished
			g.status = stFinished
			continue
		}
		locks := w.qualifying(g)
		if len(locks) == 0 {
			c.noLocks[id] = true
			continue
		}
		rem := g.remaining()
		c.remBefore[id] = rem
		epochsLeft := big.NewInt(1)
		if !g.perpetual {
			epochsLeft.SetUint64(g.n - g.filled)
		}
		total := new(big.Int)
		for _, l := range locks {
			total.Add(total, l.amount)
		}
		den := new(big.Int).Mul(total, epochsLeft)
		for _, l := range locks {
			for _, d := range rem.denoms() {
				if rem[d].Sign() <= 0 {
					continue
				}
				if d == fooDenom && w.routed {
					c.valued = true
				}
				amt := new(big.Int).Mul(rem[d], l.amount)
				amt.Quo(amt, den) // floor: all operands are positive
				if amt.Sign() == 0 {
					continue
				}
				it := payItem{gid: id, lid: l.id, owner: l.owner, recv: w.receiverOf(l), denom: d, amt: amt}
				switch {
				case d == baseDenom:
					if amt.Cmp(w.minVal) >= 0 {
						c.fixed = append(c.fixed, it)
					}
				case d == fooDenom && w.routed:
					switch w.thresholdBand(amt) {
					case 1:
						c.fixed = append(c.fixed, it)
					case 0:
						c.amb = append(c.amb, it)
					}
				default:
					// no route to the base denomination: not valuable at all
				}
			}
		}
		g.filled++
		if !g.perpetual && g.filled == g.n {
			g.status = stFinished
		}
	}
	return c
}

type expectation struct {
	hookFail bool
	// blockedVia: gauges whose payout goes to the blocked address
	blockedVia map[uint64]bool
	gauges     map[uint64]*refGauge
	pay        map[string]amounts // receiver -> coins
	total      amounts
}

func (w *world) expect(c *epochCalc, mask uint) *expectation {
	e := &expectation{pay: map[string]amounts{}, total: amounts{}, blockedVia: map[uint64]bool{}}
	items := append([]payItem{}, c.fixed...)
	for i, it := range c.amb {
		if mask&(1<<uint(i)) != 0 {
			items = append(items, it)
		}
	}
	for _, it := range items {
		if it.recv == w.blocked.String() {
			e.hookFail = true
			e.blockedVia[it.gid] = true
		}
	}
	if e.hookFail {
		e.gauges = w.gauges
		return e
	}
	e.gauges = map[uint64]*refGauge{}
	for _, id := range gaugeIDs(c.gauges) {
		e.gauges[id] = c.gauges[id].clone()
	}
	for _, it := range items {
		if e.pay[it.recv] == nil {
			e.pay[it.recv] = amounts{}
		}
		e.pay[it.recv].add(it.denom, it.amt)
		e.total.add(it.denom, it.amt)
		e.gauges[it.gid].distributed.add(it.denom, it.amt)
	}
	return e
}

type mismatch struct {
	oracle, sig, detail string
	progress            int
}

type actualState struct {
	gauges map[uint64]*incentivestypes.Gauge
	status map[uint64]int
}

func (w *world) readActual(ctx sdk.Context) (*actualState, *mismatch) {
	k := w.n.App.IncentivesKeeper
	a := &actualState{gauges: map[uint64]*incentivestypes.Gauge{}, status: map[uint64]int{}}
	for st, list := range [][]incentivestypes.Gauge{k.GetUpcomingGauges(ctx), k.GetActiveGauges(ctx), k.GetFinishedGauges(ctx)} {
		for _, g := range list {
			if _, dup := a.status[g.Id]; dup {
				return nil, &mismatch{oracle: "gauge-status", sig: "listed-twice", detail: fmt.Sprintf("gauge %d is listed in more than one of the upcoming/active/finished queues", g.Id)}
			}
			a.status[g.Id] = st
		}
	}
	for _, id := range gaugeIDs(w.gauges) {
		g, err := k.GetGaugeByID(ctx, id)
		if err != nil {
			return nil, &mismatch{oracle: "gauge-table", sig: "missing", detail: fmt.Sprintf("gauge %d: %v", id, err)}
		}
		a.gauges[id] = g
		if _, ok := a.status[id]; !ok {
			return nil, &mismatch{oracle: "gauge-status", sig: "unlisted", detail: fmt.Sprintf("gauge %d is in none of the upcoming/active/finished queues", id)}
		}
	}
	if len(a.status) != len(w.gauges) {
		return nil, &mismatch{oracle: "gauge-table", sig: "extra", detail: fmt.Sprintf("%d gauges are queued, reference knows %d", len(a.status), len(w.gauges))}
	}
	return a, nil
}

func (w *world) multiReceiverOwner(c *epochCalc) bool {
	first := map[int]string{}
	for _, it := range append(append([]payItem{}, c.fixed...), c.amb...) {
		if r, ok := first[it.owner]; ok && r != it.recv {
			return true
		}
		first[it.owner] = it.recv
	}
	return false
}

// compare checks the observed effect of an epoch end against one expectation.
// The mismatch carries the number of checks passed before it, so that among
// several candidate expectations the one that explains most is reported.
func (w *world) compare(c *epochCalc, e *expectation, a *actualState, pre, post snapshot) *mismatch {
	n := w.n
	at := fmt.Sprintf("epoch %d ended at height %d time %s", w.epochNum-1, n.Height, n.Time.Sub(simchain.GenesisTime))
	progress := 0
	miss := func(oracle, sig, format string, args ...interface{}) *mismatch {
		return &mismatch{oracle: oracle, sig: sig, detail: at + ": " + fmt.Sprintf(format, args...), progress: progress}
	}
	changed := !post.delta(pre, w.incAddr).isZero()
	expectChange := !e.total.isZero()
	for _, id := range gaugeIDs(w.gauges) {
		old, ag, eg := w.gauges[id], a.gauges[id], e.gauges[id]
		if !fromCoins(ag.DistributedCoins).equal(old.distributed) || ag.FilledEpochs != old.filled || a.status[id] != old.status {
			changed = true
		}
		if !eg.distributed.equal(old.distributed) || eg.filled != old.filled || eg.status != old.status {
			expectChange = true
		}
	}
	multi := w.multiReceiverOwner(c)
	switch {
	case e.hookFail && changed:
		small := true
		for _, id := range gaugeIDs(w.gauges) {
			if rem := c.remBefore[id]; e.blockedVia[id] && !(len(rem.denoms()) == 1 && rem[rem.denoms()[0]].Cmp(big.NewInt(100)) <= 0) {
				small = false
			}
		}
		if small {
			return miss("gauge-payout", "nothing-paid/one-denom-remainder-le-100", "a lock whose reward receiver is a blocked module account earns a reward, so the reward transfer and with it the whole epoch hook must fail, but the epoch was applied (every gauge paying that lock has a single-denomination remainder <= 100)")
		}
		if multi {
			return miss("receiver-payout", "one-owner-two-receivers", "a lock's reward receiver is a blocked module account, so the reward transfer and with it the whole incentives epoch hook must fail and leave no trace, but the epoch was applied (the owner of that lock has another lock with a different receiver)")
		}
		return miss("hook-containment", "blocked-receiver", "a lock's reward receiver is a blocked module account, so the reward transfer and with it the whole incentives epoch hook must fail and leave no trace, but gauges or the module balance changed")
	case !e.hookFail && expectChange && !changed:
		switch {
		case c.valued && w.thr.Cmp(big.NewRat(1, 1)) <= 0:
			// checked first: this known cause explains a dead epoch whether or not an owner also has several receivers
			return miss("epoch-not-applied", "min-value-below-one-reward-unit", "nothing at all happened at this epoch end (no gauge started, paid or finished); the reference expects payouts of %s. The configured minimum %suosmo is worth %s %s, i.e. not more than one unit, and a %s reward had to be valued", e.total, w.minVal, w.thr.FloatString(3), fooDenom, fooDenom)
		case multi:
			return miss("receiver-payout", "one-owner-two-receivers", "nothing at all happened at this epoch end (no gauge started, paid or finished); the reference expects payouts of %s (an owner has locks with different reward receivers, one of them blocked)", e.total)
		}
		return miss("epoch-not-applied", "other", "nothing at all happened at this epoch end (no gauge started, paid or finished); the reference expects payouts of %s and gauge transitions", e.total)
	}
	progress++
	for _, id := range gaugeIDs(w.gauges) {
		old, eg, ag := w.gauges[id], e.gauges[id], a.gauges[id]
		if !fromCoins(ag.Coins).equal(eg.coins) {
			return miss("gauge-deposit", "epoch", "gauge %d holds deposits %s, reference %s", id, ag.Coins, eg.coins)
		}
		got := fromCoins(ag.DistributedCoins)
		if !got.equal(eg.distributed) {
			gotDelta, wantDelta := got.sub(old.distributed), eg.distributed.sub(old.distributed)
			sig := "amount"
			if gotDelta.isZero() {
				sig = "nothing-paid"
				if rem := c.remBefore[id]; len(rem.denoms()) == 1 && rem[rem.denoms()[0]].Cmp(big.NewInt(100)) <= 0 {
					sig = "nothing-paid/one-denom-remainder-le-100"
				}
			}
			return miss("gauge-payout", sig, "gauge %d (perpetual=%v epochs %d/%d, deposited %s, distributed before %s, %d qualifying locks) distributed %s this epoch, reference %s", id, old.perpetual, old.filled, old.n, old.coins, old.distributed, len(w.qualifying(old)), gotDelta, wantDelta)
		}
		progress++
		if !eg.perpetual && ag.FilledEpochs != eg.filled {
			return miss("filled-epochs", "epoch", "gauge %d has filled %d of %d epochs, reference %d", id, ag.FilledEpochs, ag.NumEpochsPaidOver, eg.filled)
		}
		if a.status[id] != eg.status {
			sig := "status"
			if eg.status == stActive && a.status[id] == stFinished && c.noLocks[id] && !old.perpetual && old.filled+1 == old.n {
				sig = "finished-early/no-qualifying-lock-at-last-epoch"
			}
			return miss("gauge-status", sig, "gauge %d (start %s, perpetual=%v, paid epochs %d of %d, %d qualifying locks) is %s, reference %s", id, old.start.Sub(simchain.GenesisTime), old.perpetual, ag.FilledEpochs, old.n, len(w.qualifying(old)), statusName[a.status[id]], statusName[eg.status])
		}
		progress++
	}
	for _, addr := range w.tracked {
		want := e.pay[addr.String()]
		if want == nil {
			want = amounts{}
		}
		if got := post.delta(pre, addr); !got.equal(want) {
			sig := "receiver"
			if multi {
				sig = "one-owner-two-receivers"
			}
			return miss("receiver-payout", sig, "%s received %s, reference %s (rewards go to each lock's reward receiver, the owner by default)", w.nameOf(addr), got, want)
		}
		progress++
	}
	if out := pre.bal[w.incAddr.String()].sub(post.bal[w.incAddr.String()]); !out.equal(e.total) {
		return miss("module-outflow", "epoch", "the incentives module account paid out %s, gauges distributed %s", out, e.total)
	}
	return nil
}

func (w *world) nameOf(a sdk.AccAddress) string {
	for i, x := range w.n.Accts {
		if x.Equals(a) {
			return fmt.Sprintf("account %d", i)
		}
	}
	if a.Equals(w.blocked) {
		return "blocked module account"
	}
	return a.String()
}

// resync adopts the keeper's gauge bookkeeping after a known finding fired.
func (w *world) resync(a *actualState) {
	for _, id := range gaugeIDs(w.gauges) {
		g, ag := w.gauges[id], a.gauges[id]
		g.coins, g.distributed, g.filled, g.status = fromCoins(ag.Coins), fromCoins(ag.DistributedCoins), ag.FilledEpochs, a.status[id]
	}
}

func (w *world) epochOracle(pre, post snapshot) bool {
	run, n := w.run, w.n
	c := w.calc(n.Time)
	a, mm := w.readActual(n.Ctx)
	if mm != nil {
		run.Fail("C09", mm.oracle, mm.sig, "%s", mm.detail)
		return false
	}
	k := len(c.amb)
	if k > 10 {
		run.Probe("min-value-boundary-overflow")
		w.resync(a)
		return true
	}
	if k > 0 {
		run.Probe("min-value-boundary-ambiguous")
	}
	var first *mismatch
	var chosen *expectation
	for mask := uint(0); mask < 1<<uint(k); mask++ {
		e := w.expect(c, mask)
		m := w.compare(c, e, a, pre, post)
		if m == nil {
			chosen = e
			break
		}
		// report the candidate that explains most: a classified deviation
		// before an unclassified one, then the one that passed more checks
		if first == nil || (recoverable[m.oracle+"/"+m.sig] && !recoverable[first.oracle+"/"+first.sig]) ||
			(recoverable[m.oracle+"/"+m.sig] == recoverable[first.oracle+"/"+first.sig] && m.progress > first.progress) {
			first = m
		}
	}
	paidSomething := false
	if chosen != nil {
		for _, id := range gaugeIDs(w.gauges) {
			old, ng := w.gauges[id], chosen.gauges[id]
			if !chosen.hookFail {
				if old.status == stUpcoming && ng.status == stActive {
					run.Probe("gauge-started")
				}
				if old.status != stFinished && ng.status == stFinished {
					run.Probe("gauge-finished")
				}
				if c.noLocks[id] && len(old.remaining().denoms()) > 0 {
					run.Probe("active-gauge-without-qualifying-lock")
				}
			}
		}
		if chosen.hookFail {
			run.Probe("epoch-hook-failed-and-contained")
			run.Fault("hook-failure")
		} else {
			w.gauges = chosen.gauges
			paidSomething = !chosen.total.isZero()
		}
		if paidSomething {
			run.Probe("epoch-paid-rewards")
			if len(chosen.pay) > 1 {
				run.Probe("epoch-paid-several-receivers")
			}
		}
		for _, l := range w.locks {
			if l.unlocking() {
				run.Probe("unlocking-lock-at-epoch-end")
				break
			}
		}
		run.Logf("  epoch %d end h=%d paid=%s hookFail=%v", w.epochNum-1, n.Height, chosen.total, chosen.hookFail)
		return true
	}
	run.Fail("C09", first.oracle, first.sig, "%s", first.detail)
	if !recoverable[first.oracle+"/"+first.sig] {
		return false
	}
	// a classified deviation that leaves the chain in a well-defined state: the
	// run goes on from the state the chain is actually in (so that a replay, which
	// suppresses no known finding, still reaches later violations)
	w.resync(a)
	run.Logf("  epoch %d end h=%d finding %s/%s, resynced", w.epochNum-1, n.Height, first.oracle, first.sig)
	return true
}

// recoverable lists the classified epoch findings after which the reference
// adopts the chain's gauge bookkeeping and the run continues.
var recoverable = map[string]bool{
	"receiver-payout/one-owner-two-receivers":                      true,
	"gauge-status/finished-early/no-qualifying-lock-at-last-epoch": true,
	"gauge-payout/nothing-paid/one-denom-remainder-le-100":         true,
	"epoch-not-applied/min-value-below-one-reward-unit":            true,
}

// ---- invariants checked after every step ----

func (w *world) invariants(op string) bool {
	run, n := w.run, w.n
	ctx := n.QueryCtx()
	fail := func(oracle, sig, format string, a ...interface{}) bool {
		run.Fail("C09", oracle, sig, format, a...)
		return false
	}
	a, mm := w.readActual(ctx)
	if mm != nil {
		run.Fail("C09", mm.oracle, mm.sig, "%s", mm.detail)
		return false
	}
	reserve := amounts{}
	for _, id := range gaugeIDs(w.gauges) {
		g, ag := w.gauges[id], a.gauges[id]
		coins, distr := fromCoins(ag.Coins), fromCoins(ag.DistributedCoins)
		if !coins.equal(g.coins) {
			if !fail("gauge-deposit", op, "gauge %d records deposits %s, the messages deposited %s", id, coins, g.coins) {
				return false
			}
		}
		if !distr.equal(g.distributed) || (!g.perpetual && ag.FilledEpochs != g.filled) {
			if !fail("gauge-bookkeeping", op, "gauge %d: distributed %s filled %d changed outside an epoch end (reference %s filled %d)", id, distr, ag.FilledEpochs, g.distributed, g.filled) {
				return false
			}
		}
		for _, d := range distr.denoms() {
			if distr[d].Cmp(g.coins.get(d)) > 0 {
				if !fail("over-distribution", op, "gauge %d has distributed %s%s but only %s%s was ever deposited", id, distr[d], d, g.coins.get(d), d) {
					return false
				}
			}
		}
		if a.status[id] != g.status {
			if !fail("gauge-status", "outside-epoch/"+op, "gauge %d is %s, reference %s", id, statusName[a.status[id]], statusName[g.status]) {
				return false
			}
		}
		if g.status != stFinished {
			reserve.addAll(coins.sub(distr))
		}
	}
	for _, d := range reserve.denoms() {
		have := n.Balance(ctx, w.incAddr, d).BigInt()
		if have.Cmp(reserve[d]) < 0 {
			if !fail("module-reserve", op, "the incentives module account holds %s%s, unfinished gauges still owe %s%s", have, d, reserve[d], d) {
				return false
			}
		}
	}
	// gRPC views of the queues
	for _, st := range []int{stUpcoming, stActive} {
		ids := w.queryIDs(ctx, st)
		want := 0
		for _, id := range gaugeIDs(w.gauges) {
			if w.gauges[id].status == st {
				want++
			}
		}
		seen := map[uint64]bool{}
		for _, id := range ids {
			if g := w.gauges[id]; g == nil || g.status != st || seen[id] {
				if !fail("query-gauges", statusName[st], "the %s-gauges query lists gauge %d, reference disagrees", statusName[st], id) {
					return false
				}
			}
			seen[id] = true
		}
		if len(seen) != want {
			if !fail("query-gauges", statusName[st], "the %s-gauges query lists %d gauges, reference %d", statusName[st], len(seen), want) {
				return false
			}
		}
	}
	return w.checkLocks(ctx)
}

func (w *world) queryIDs(ctx sdk.Context, st int) []uint64 {
	var gs []incentivestypes.Gauge
	page := &query.PageRequest{Limit: 10000}
	if st == stUpcoming {
		r, err := w.q.UpcomingGauges(ctx, &incentivestypes.UpcomingGaugesRequest{Pagination: page})
		if err != nil {
			panic(err)
		}
		gs = r.Data
	} else {
		r, err := w.q.ActiveGauges(ctx, &incentivestypes.ActiveGaugesRequest{Pagination: page})
		if err != nil {
			panic(err)
		}
		gs = r.Data
	}
	ids := make([]uint64, 0, len(gs))
	for _, g := range gs {
		ids = append(ids, g.Id)
	}
	return ids
}

// checkLocks compares the chain's lock records with the lock changes of the history: they are what "every qualifying
// lock" and "the lock's reward receiver" of the property refer to. A record that drifts from the history (a receiver
// reset by an unrelated lock operation, a duration or amount the owner never asked for) makes every later payout wrong
// with respect to the history, so it is reported here, at the operation that caused it, and not as a harness error.
func (w *world) checkLocks(ctx sdk.Context) bool {
	all, err := w.n.App.LockupKeeper.GetPeriodLocks(ctx)
	if err != nil {
		panic(err)
	}
	if len(all) != len(w.locks) {
		w.run.Fail("C09", "lock-record-vs-history", "count", "the chain has %d locks, the history %d", len(all), len(w.locks))
		return false
	}
	for _, g := range all {
		l := w.locks[g.ID]
		if l == nil {
			w.run.Fail("C09", "lock-record-vs-history", "unknown", "chain lock %+v is not in the history", g)
			return false
		}
		field := ""
		switch {
		case g.Owner != w.n.Accts[l.owner].String():
			field = "owner"
		case g.Duration != l.duration:
			field = "duration"
		case !g.EndTime.Equal(l.end):
			field = "end-time"
		case len(g.Coins) != 1 || g.Coins[0].Denom != l.denom || g.Coins[0].Amount.BigInt().Cmp(l.amount) != 0:
			field = "coins"
		case g.RewardReceiverAddress != l.receiver:
			field = "reward-receiver"
		}
		if field != "" {
			w.run.Fail("C09", "lock-record-vs-history", field, "lock %d: chain record %+v, the lock changes of the history give owner %d receiver %q duration %s end %s %s%s",
				g.ID, g, l.owner, l.receiver, l.duration, l.end, l.amount, l.denom)
			return false
		}
	}
	return true
}

// ---- messages ----

type built struct {
	msg        sdk.Msg
	apply      func(simchain.Result) bool // reference transition on success; false = violation recorded
	mustReject string                     // non-empty: the property demands rejection, for this reason
	sender     sdk.AccAddress
	deposit    sdk.Coins    // coins the sender puts into the incentives module
	fee        osmomath.Int // base-denom fee to the community pool
}

func (w *world) message(i int, st simcore.Step) bool {
	run, n := w.run, w.n
	b := w.build(st)
	if b == nil {
		run.Event(st.Op, "skip")
		return true
	}
	fk, fa := simcore.ParseFault(st.F)
	stores := []string{"incentives", "lockup", "bank", "distribution", "protorev"}
	digBefore := n.Digest(n.Ctx, stores...)
	pre := w.snapshot(n.Ctx)
	res := n.DeliverFault(b.msg, fk, fa)
	run.Event(st.Op, res.Outcome)
	run.Logf("%d %s %v f=%s -> %s gas=%d err=%v", i, st.Op, st.A, st.F, res.Outcome, res.GasUsed, res.Err)
	switch res.Outcome {
	case "ok":
		if b.mustReject != "" {
			run.Fail("C09", "must-reject", st.Op, "%s succeeded although %s: %v", st.Op, b.mustReject, b.msg)
			return false
		}
		post := w.snapshot(n.Ctx)
		if b.sender != nil {
			want := amounts{}
			want.addAll(fromCoins(b.deposit))
			if got := post.delta(pre, w.incAddr); !got.equal(want) {
				run.Fail("C09", "deposit-transfer", st.Op, "%s: the incentives module account received %s, the message deposits %s", st.Op, got, want)
				return false
			}
			want.add(baseDenom, b.fee.BigInt())
			neg := amounts{}.sub(want)
			if got := post.delta(pre, b.sender); !got.equal(neg) {
				run.Fail("C09", "deposit-transfer", st.Op, "%s: the sender's balance changed by %s, deposit plus fee is %s", st.Op, got, want)
				return false
			}
			if got := post.delta(pre, w.distAddr); got.get(baseDenom).Cmp(b.fee.BigInt()) != 0 {
				run.Fail("C09", "fee-sink", st.Op, "%s: the community pool account received %s, the fee is %s", st.Op, got, b.fee)
				return false
			}
		}
		if !b.apply(res) {
			return false
		}
	case "err", "invalid", "oog", "abort":
		if res.Outcome == "oog" || res.Outcome == "abort" {
			run.Fault(res.Outcome)
		}
		if b.mustReject != "" {
			run.Probe("rejected:" + strings.SplitN(b.mustReject, ":", 2)[0])
		}
		if dig := n.Digest(n.Ctx, stores...); dig != digBefore {
			run.Fail("C09", "failed-message-left-trace", st.Op, "%s ended as %s (%v) but the incentives/lockup/bank/distribution state changed", st.Op, res.Outcome, res.Err)
			return false
		}
	case "panic":
		run.Fail("C09", "msg-panics", st.Op, "%s panicked: %v", st.Op, res.Panic)
		return false
	}
	return w.invariants(st.Op)
}

func coinsOf(denom string, amt *big.Int) sdk.Coins {
	return sdk.NewCoins(sdk.NewCoin(denom, osmomath.NewIntFromBigInt(amt)))
}

func rewardCoins(mask, a0, a1 int64, extra bool) sdk.Coins {
	pos := func(x int64) int64 {
		x = abs(x)
		if x < 1 {
			x = 1
		}
		return x
	}
	var list []sdk.Coin
	switch abs(mask) % 3 {
	case 0:
		list = append(list, sdk.NewInt64Coin(baseDenom, pos(a0)))
	case 1:
		list = append(list, sdk.NewInt64Coin(fooDenom, pos(a1)))
	default:
		list = append(list, sdk.NewInt64Coin(baseDenom, pos(a0)), sdk.NewInt64Coin(fooDenom, pos(a1)))
	}
	if extra {
		list = append(list, sdk.NewInt64Coin(barDenom, 1000))
	}
	coins := sdk.NewCoins(list...) // sorted
	return coins
}

func (w *world) undistributable(coins sdk.Coins) string {
	for _, c := range coins {
		if c.Denom == barDenom {
			return "no-route: " + c.Denom + " has no route to the base denomination, so it could never be valued and paid"
		}
		if c.Denom == fooDenom && !w.routed {
			return "route-removed: " + c.Denom + " currently has no route to the base denomination, so it could not be valued and paid"
		}
	}
	return ""
}

func (w *world) build(st simcore.Step) *built {
	n := w.n
	switch st.Op {
	case "lock":
		o := int(abs(st.Arg(0))) % w.owners
		denom := lockDenoms[int(abs(st.Arg(1)))%len(lockDenoms)]
		dur := lockDurs[int(abs(st.Arg(2)))%len(lockDurs)]
		bal := n.Balance(n.Ctx, n.Accts[o], denom).BigInt()
		var amt *big.Int
		switch abs(st.Arg(3)) % 4 {
		case 0:
			amt = big.NewInt(1)
		case 1:
			amt = big.NewInt(1 + abs(st.Arg(4))%1_000_000)
		case 2:
			amt = new(big.Int).Mul(big.NewInt(1+abs(st.Arg(4))%1_000_000), big.NewInt(1000))
		default:
			amt = new(big.Int).Mul(bal, big.NewInt(abs(st.Arg(4))%10000))
			amt.Quo(amt, big.NewInt(100000)) // up to 10% of the balance
		}
		if amt.Sign() <= 0 {
			return nil
		}
		msg := &lockuptypes.MsgLockTokens{Owner: n.Accts[o].String(), Duration: dur, Coins: coinsOf(denom, amt)}
		return &built{msg: msg, apply: func(res simchain.Result) bool {
			for _, id := range w.lockIDs() {
				l := w.locks[id]
				if l.owner == o && l.denom == denom && l.duration == dur && !l.unlocking() {
					l.amount = new(big.Int).Add(l.amount, amt)
					w.run.Probe("add-to-existing-lock")
					return true
				}
			}
			w.lastLockID++
			w.locks[w.lastLockID] = &refLock{id: w.lastLockID, owner: o, duration: dur, denom: denom, amount: amt}
			return true
		}}
	case "begin":
		l := w.pickLock(abs(st.Arg(0)))
		if l == nil {
			return nil
		}
		sender := l.owner
		if st.Arg(2) == 0 {
			sender = (l.owner + 1) % w.owners
		}
		var coins sdk.Coins
		part := new(big.Int).Set(l.amount)
		switch bp := abs(st.Arg(1)) % 10001; {
		case bp == 0:
		case bp == 10000:
			coins = coinsOf(l.denom, l.amount)
		case bp == 1:
			part = big.NewInt(1)
			coins = coinsOf(l.denom, part)
		default:
			part = new(big.Int).Mul(l.amount, big.NewInt(bp))
			part.Quo(part, big.NewInt(10000))
			if part.Sign() <= 0 {
				part = big.NewInt(1)
			}
			coins = coinsOf(l.denom, part)
		}
		msg := &lockuptypes.MsgBeginUnlocking{Owner: n.Accts[sender].String(), ID: l.id, Coins: coins}
		id := l.id
		return &built{msg: msg, apply: func(res simchain.Result) bool {
			l := w.locks[id]
			if part.Cmp(l.amount) == 0 {
				l.end = n.Time.Add(l.duration)
				w.run.Probe("lock-began-unlocking")
				return true
			}
			l.amount = new(big.Int).Sub(l.amount, part)
			w.lastLockID++
			w.locks[w.lastLockID] = &refLock{id: w.lastLockID, owner: l.owner, receiver: l.receiver, duration: l.duration, end: n.Time.Add(l.duration), denom: l.denom, amount: part}
			w.run.Probe("partial-unlock-splits-lock")
			return true
		}}
	case "setrecv":
		l := w.pickLock(abs(st.Arg(0)))
		if l == nil {
			return nil
		}
		sender := l.owner
		if st.Arg(2) == 0 {
			sender = (l.owner + 1) % w.owners
		}
		var newRecv string
		if st.Arg(1) == blockedID {
			newRecv = w.blocked.String()
		} else {
			newRecv = n.Accts[int(abs(st.Arg(1)))%w.owners].String()
		}
		stored := newRecv
		if newRecv == n.Accts[l.owner].String() {
			stored = ""
		}
		msg := &lockuptypes.MsgSetRewardReceiverAddress{Owner: n.Accts[sender].String(), RewardReceiver: newRecv, LockID: l.id}
		id := l.id
		return &built{msg: msg, apply: func(res simchain.Result) bool {
			w.locks[id].receiver = stored
			w.run.Probe("reward-receiver-changed")
			if stored == w.blocked.String() {
				w.run.Probe("reward-receiver-is-blocked-address")
			}
			return true
		}}
	case "extend":
		l := w.pickLock(abs(st.Arg(0)))
		if l == nil {
			return nil
		}
		sender := l.owner
		if st.Arg(2) == 0 {
			sender = (l.owner + 1) % w.owners
		}
		dur := lockDurs[int(abs(st.Arg(1)))%len(lockDurs)]
		msg := &lockuptypes.MsgExtendLockup{Owner: n.Accts[sender].String(), ID: l.id, Duration: dur}
		id := l.id
		return &built{msg: msg, apply: func(res simchain.Result) bool {
			w.locks[id].duration = dur
			w.run.Probe("lock-extended")
			if w.locks[id].receiver != "" {
				w.run.Probe("lock-with-reward-receiver-extended")
			}
			return true
		}}
	case "gauge":
		creator := int(abs(st.Arg(0))) % w.owners
		perpetual := abs(st.Arg(1))%2 == 1
		denom := lockDenoms[int(abs(st.Arg(2)))%len(lockDenoms)]
		dur := lockable[int(abs(st.Arg(3)))%len(lockable)]
		var start time.Time
		switch abs(st.Arg(4)) % 4 {
		case 0:
			start = n.Time
		case 1:
			start = n.Time.Add(-time.Duration(1+abs(st.Arg(5))%400) * time.Second)
		case 2:
			start = n.Time.Add(time.Duration(1+abs(st.Arg(5))%400) * time.Second)
		default: // around the next epoch boundary
			start = w.epochStart.Add(epochDur).Add(time.Duration(abs(st.Arg(5))%3-1) * time.Nanosecond)
		}
		nep := uint64(1 + abs(st.Arg(6))%6)
		if perpetual {
			nep = 1
		}
		variant := abs(st.Arg(10))
		switch variant {
		case 2:
			dur = lockDurs[0] // not a lockable duration
		case 3:
			denom = "nosuch"
		case 4:
			perpetual, nep = true, 3
		}
		coins := rewardCoins(st.Arg(7), st.Arg(8), st.Arg(9), variant == 1)
		msg := &incentivestypes.MsgCreateGauge{IsPerpetual: perpetual, Owner: n.Accts[creator].String(),
			DistributeTo: lockuptypes.QueryCondition{LockQueryType: lockuptypes.ByDuration, Denom: denom, Duration: dur},
			Coins:        coins, StartTime: start, NumEpochsPaidOver: nep}
		return &built{msg: msg, mustReject: w.undistributable(coins), sender: n.Accts[creator], deposit: coins, fee: incentivestypes.CreateGaugeFee,
			apply: func(res simchain.Result) bool {
				k := n.App.IncentivesKeeper
				id := k.GetLastGaugeID(n.Ctx)
				if id != w.lastGauge+1 {
					w.run.Fail("C09", "gauge-id", "gauge", "the new gauge got id %d, the previous one was %d", id, w.lastGauge)
					return false
				}
				g, err := k.GetGaugeByID(n.Ctx, id)
				if err != nil || g.IsPerpetual != perpetual || g.DistributeTo.Denom != denom || g.DistributeTo.Duration != dur || g.DistributeTo.LockQueryType != lockuptypes.ByDuration ||
					!g.Coins.Equal(coins) || !g.StartTime.Equal(start) || g.NumEpochsPaidOver != nep || g.FilledEpochs != 0 || !g.DistributedCoins.IsZero() {
					w.run.Fail("C09", "gauge-created", "gauge", "stored gauge %+v (err %v) differs from the message %v", g, err, msg)
					return false
				}
				w.lastGauge = id
				w.gauges[id] = &refGauge{id: id, perpetual: perpetual, denom: denom, dur: dur, start: start, n: nep, coins: fromCoins(coins), distributed: amounts{}, status: stUpcoming}
				switch {
				case start.After(n.Time):
					w.run.Probe("gauge-created-future-start")
				case start.Before(n.Time):
					w.run.Probe("gauge-created-past-start")
				}
				if perpetual {
					w.run.Probe("gauge-created-perpetual")
				}
				if len(coins) > 1 {
					w.run.Probe("gauge-created-two-reward-denoms")
				}
				return true
			}}
	case "add":
		ids := gaugeIDs(w.gauges)
		id := ids[int(abs(st.Arg(0)))%len(ids)]
		sender := int(abs(st.Arg(1))) % w.owners
		variant := abs(st.Arg(5))
		coins := rewardCoins(st.Arg(2), st.Arg(3), st.Arg(4), variant == 1)
		if variant == 2 {
			id = w.lastGauge + 7
		}
		msg := &incentivestypes.MsgAddToGauge{Owner: n.Accts[sender].String(), GaugeId: id, Rewards: coins}
		return &built{msg: msg, mustReject: w.undistributable(coins), sender: n.Accts[sender], deposit: coins, fee: incentivestypes.AddToGaugeFee,
			apply: func(res simchain.Result) bool {
				g := w.gauges[id]
				if g == nil {
					w.run.Fail("C09", "must-reject", "add-unknown-gauge", "coins were added to gauge %d, which was never created", id)
					return false
				}
				g.coins.addAll(fromCoins(coins))
				w.run.Probe("added-to-" + statusName[g.status] + "-gauge")
				return true
			}}
	}
	return nil
}
