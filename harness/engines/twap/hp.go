package twap

import (
	"math/big"
)

// High-precision base-2 logarithm and power of two used by the geometric
// reference. Independent of osmomath: log2 through the atanh series of the
// natural logarithm of the binary mantissa, 2^x through the Taylor series of
// exp on the fractional part. 320-bit mantissas; every series is summed until
// its terms drop below 2^-340 relative, so results carry > 300 correct bits.

const hpPrec = 320

func hpNew() *big.Float { return new(big.Float).SetPrec(hpPrec) }

func hpInt(i int64) *big.Float { return hpNew().SetInt64(i) }

// atanhSeries returns atanh(z) = z + z^3/3 + z^5/5 + ... for |z| <= 1/3.
func atanhSeries(z *big.Float) *big.Float {
	sum := hpNew()
	if z.Sign() == 0 {
		return sum
	}
	z2 := hpNew().Mul(z, z)
	term := hpNew().Set(z)
	for k := int64(0); k < 4000; k++ {
		t := hpNew().Quo(term, hpInt(2*k+1))
		sum.Add(sum, t)
		term.Mul(term, z2)
		if term.Sign() == 0 || term.MantExp(nil) < z.MantExp(nil)-hpPrec-20 {
			break
		}
	}
	return sum
}

var hpLn2 = func() *big.Float {
	// ln 2 = 2 atanh(1/3)
	third := hpNew().Quo(hpInt(1), hpInt(3))
	return hpNew().Mul(hpInt(2), atanhSeries(third))
}()

// hpLog2 returns log2(p) for a positive rational p.
func hpLog2(p *big.Rat) *big.Float {
	f := hpNew().SetRat(p)
	mant := hpNew()
	exp := f.MantExp(mant) // f = mant * 2^exp, mant in [0.5, 1)
	// ln(mant) = 2 atanh((mant-1)/(mant+1)); the argument lies in (-1/3, 0]
	num := hpNew().Sub(mant, hpInt(1))
	den := hpNew().Add(mant, hpInt(1))
	z := hpNew().Quo(num, den)
	lnm := hpNew().Mul(hpInt(2), atanhSeries(z))
	res := hpNew().Quo(lnm, hpLn2)
	return res.Add(res, hpInt(int64(exp)))
}

// hpExp2 returns 2^x.
func hpExp2(x *big.Float) *big.Float {
	// x = i + f with i = floor(x), f in [0,1)
	xi, _ := x.Int(nil) // truncates toward zero
	i := xi.Int64()
	fi := hpNew().SetInt(xi)
	f := hpNew().Sub(x, fi)
	if f.Sign() < 0 {
		f.Add(f, hpInt(1))
		i--
	}
	y := hpNew().Mul(f, hpLn2) // in [0, ln 2)
	sum := hpInt(1)
	term := hpInt(1)
	for k := int64(1); k < 400; k++ {
		term.Mul(term, y)
		term.Quo(term, hpInt(k))
		if term.Sign() == 0 {
			break
		}
		sum.Add(sum, term)
		if term.MantExp(nil) < -hpPrec-20 {
			break
		}
	}
	return hpNew().SetMantExp(sum, int(i))
}

func hpRat(f *big.Float) *big.Rat {
	r, _ := f.Rat(nil)
	return r
}
