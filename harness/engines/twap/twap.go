// Package twap is the C10 engine: the real x/twap module inside the full
// application. Pools (balancer 2-3 assets, concentrated liquidity) are created
// and moved through messages, blocks come at irregular times, the prune epoch
// is crossed with a small per-block prune limit, and every TWAP answer is
// compared with the textbook time-weighted mean over a price series that the
// harness captured itself at the end of every block in which a pool changed.
package twap

import (
	"fmt"
	"math/big"
	"sort"
	"time"

	"github.com/cosmos/cosmos-sdk/codec"
	sdk "github.com/cosmos/cosmos-sdk/types"

	"github.com/osmosis-labs/osmosis/osmomath"
	"github.com/osmosis-labs/osmosis/v31/app"
	clmodel "github.com/osmosis-labs/osmosis/v31/x/concentrated-liquidity/model"
	cltypes "github.com/osmosis-labs/osmosis/v31/x/concentrated-liquidity/types"
	clgenesis "github.com/osmosis-labs/osmosis/v31/x/concentrated-liquidity/types/genesis"
	"github.com/osmosis-labs/osmosis/v31/x/gamm/pool-models/balancer"
	gammtypes "github.com/osmosis-labs/osmosis/v31/x/gamm/types"
	minttypes "github.com/osmosis-labs/osmosis/v31/x/mint/types"
	pmtypes "github.com/osmosis-labs/osmosis/v31/x/poolmanager/types"
	xtwap "github.com/osmosis-labs/osmosis/v31/x/twap"
	twaptypes "github.com/osmosis-labs/osmosis/v31/x/twap/types"
	epochstypes "github.com/osmosis-labs/osmosis/x/epochs/types"

	"verif/harness/simchain"
	"verif/harness/simcore"
)

type Engine struct{}

func init() { simcore.Register(Engine{}) }

func (Engine) Name() string    { return "twap" }
func (Engine) Props() []string { return []string{"C10"} }
func (Engine) Budget(tier, prop string) (int, int) {
	if tier == "thorough" {
		return 12000, 1500
	}
	return 1600, 170
}
func (Engine) Describe() simcore.Description {
	return simcore.Description{
		Real: []string{"full OsmosisApp: x/twap keeper (records, accumulators, interpolation, pruning, API), its listeners on x/gamm and x/concentrated-liquidity, x/poolmanager routing and spot prices, x/epochs driving the prune epoch, bank, real BeginBlocker/EndBlocker of every module, IAVL commit per block (clears the transient changed-pool set), SDK gas metering"},
		Stub: []string{"CometBFT (the simulator supplies header time/height and message order)", "ante/post handlers (sender taken as authenticated, no fees, no protorev post-handler)"},
		Rule: "one run = 3 accounts, 4 denominations, keep period 90s..48h, a custom prune epoch 60s..2h, per-block prune limit 1..200; steps create balancer pools (2-3 assets, mixed weights, optionally unit price or extreme ratios) and concentrated pools, create/withdraw positions, drain a concentrated pool and refill it, swap through the pool manager, join/exit, and close blocks after 1ms..days (also to just past the prune-epoch end and fractions of the keep period), with seeded out-of-gas / forced roll-back on messages and node restarts. At the end of every block in which a pool changed the harness queries the pool's spot price in both directions (same source as the module's listener) and appends (t, p_ab, p_ba, error) to its own series; after every block and message sampled intervals are asked from the keeper API (arithmetic, geometric, explicit end and to-now) and compared with the time-weighted mean over that series; a fixed set of queries is replayed every block and must keep its first answer while inside the keep window.",
		Assumptions: []string{
			"block times and query instants are whole milliseconds (x/twap states that all its time arithmetic is in milliseconds)",
			"start == end is not queried (the mean over an empty interval is not defined by the README)",
			"start is kept at least 1ms inside the keep window; queries older than the window are asked but nothing is asserted about them (while a multi-block pruning pass runs, the records below the window have holes and such a query can return anything or panic: counted as probe outside-window-query-panicked)",
			"error flag: an interval [s,e] touches an error iff a record with a failed spot price was in force at s or was written at a time in (s,e]; the flag is not asserted when s is exactly the time of the first good record after an error, nor on records whose pool was created with a failing spot price and repaired in the same block",
			"when the result is flagged the value is not compared (README: result may be faulty)",
			"an observation whose two prices equal the previous observation is not added to the series (the step function is the same; the module may or may not have written a record)",
			"geometric comparison is skipped when the two recorded directions of a price disagree by more than 1e-3 (18-decimal truncation of prices below ~1e-15)",
		},
	}
}

// two pairs of denominations of which one is a prefix of the other: once as the smallest (first denomination of its
// pairs), once as the largest (second denomination of its pairs) - record keys are built from "|"-separated names
var denoms = []string{"uion", "uionx", "uosmo", "usdc", "usdcx"}

const pruneEpoch = "twapprune"

var fundEach = osmomath.NewIntWithDecimal(1, 34)

// ---------------------------------------------------------------- generation

func (Engine) Generate(r *simcore.RNG, tier string, idx int) *simcore.Plan {
	p := &simcore.Plan{Config: map[string]int64{}}
	p.Config["keep_s"] = []int64{90, 600, 600, 3600, 3600, 21600, 21600, 172800}[r.Intn(8)]
	p.Config["epoch_s"] = []int64{60, 300, 1800, 7200}[r.Intn(4)]
	p.Config["prune_limit"] = []int64{1, 2, 3, 5, 200}[r.Intn(5)]
	p.Config["subms"] = int64(r.Intn(2)) // block times with a varying sub-millisecond part
	faults := idx%2 == 1
	if idx%4 == 3 {
		p.Config["spec"] = 60 + int64(idx/4%5)*60 // permille of blocks first executed speculatively on a discarded branch (simchain.Node.Spec)
	}
	unit := r.Chance(0.12) // allow a pool whose price is exactly one
	mkbal := func() simcore.Step {
		regime := int64(0)
		if unit && r.Chance(0.5) {
			regime = 1
		} else if r.Chance(0.06) {
			regime = 2
		}
		a := []int64{r.Range(0, 2), r.Range(2, 3), r.Range(0, 4), r.Range(0, 4), r.Range(0, 3), regime}
		for i := 0; i < 3; i++ {
			if regime == 2 {
				a = append(a, r.Range(1, 9999), r.Range(0, 30))
			} else {
				a = append(a, r.Range(1, 9999), r.Range(5, 13))
			}
		}
		return simcore.Step{Op: "mkbal", A: a}
	}
	mkcl := func() simcore.Step {
		return simcore.Step{Op: "mkcl", A: []int64{r.Range(0, 2), r.Range(0, 19), r.Range(0, 3), r.Range(0, 6)}}
	}
	pos := func() simcore.Step {
		return simcore.Step{Op: "pos", A: []int64{r.Range(0, 2), r.Range(0, 7), r.Range(0, 5), r.Range(1, 9999), r.Range(5, 12), r.Range(1, 9999), r.Range(5, 12), r.Range(0, 20)}}
	}
	block := func() simcore.Step {
		kind := int64(r.Weighted([]int{8, 22, 30, 12, 4, 2, 12, 10}))
		return simcore.Step{Op: "block", A: []int64{kind, r.Range(0, 99999), r.Salt()}}
	}
	p.Steps = append(p.Steps, mkbal(), block())
	if r.Chance(0.6) {
		p.Steps = append(p.Steps, mkcl(), block(), pos(), block())
	}
	n := int(r.Range(25, 75))
	for i := 0; i < n; i++ {
		var st simcore.Step
		switch r.Weighted([]int{3, 2, 9, 5, 4, 36, 6, 5, 4, 2}) {
		case 0:
			st = mkbal()
		case 1:
			st = mkcl()
		case 2:
			st = pos()
		case 3:
			st = simcore.Step{Op: "wd", A: []int64{r.Range(0, 31), []int64{10000, 10000, 5000, 1, 9999}[r.Intn(5)]}}
		case 4:
			st = simcore.Step{Op: "drain", A: []int64{r.Range(0, 7)}}
		case 5:
			st = simcore.Step{Op: "swap", A: []int64{r.Range(0, 2), r.Range(0, 15), r.Range(0, 5), r.Range(0, 5), r.Range(1, 3000)}}
		case 6:
			st = simcore.Step{Op: "join", A: []int64{r.Range(0, 2), r.Range(0, 15), r.Range(0, 1), r.Range(0, 5), r.Range(1, 5000)}}
		case 7:
			st = simcore.Step{Op: "exit", A: []int64{r.Range(0, 2), r.Range(0, 15), r.Range(1, 9000)}}
		case 8:
			st = simcore.Step{Op: "idle", A: []int64{r.Range(2, 7), int64(r.Weighted([]int{8, 22, 30, 12, 2, 0, 8, 6})), r.Range(0, 99999), r.Salt()}}
		case 9:
			st = simcore.Step{Op: "restart", A: []int64{int64(r.Weighted([]int{8, 22, 30, 12, 4, 2, 12, 10})), r.Range(0, 99999), r.Salt()}}
		}
		isMsg := st.Op != "idle" && st.Op != "restart"
		if faults && isMsg && r.Chance(0.18) {
			if r.Chance(0.4) {
				st.F = "abort"
			} else {
				st.F = fmt.Sprintf("oog:%d", r.Range(1, 999))
			}
		}
		p.Steps = append(p.Steps, st)
		if isMsg && r.Chance(0.6) {
			p.Steps = append(p.Steps, block())
		}
	}
	p.Steps = append(p.Steps, block())
	return p
}

// ------------------------------------------------------------ reference model

// rec is one harness-captured end-of-block observation of a pool pair.
type rec struct {
	t     int64       // block time, ms since genesis
	p     [2]*big.Rat // p[0]: 1 a in b (base a, quote b); p[1]: 1 b in a
	err   bool        // the spot price query failed in at least one direction
	ambig bool        // pool created with a failing spot price that was repaired in the same block
	lg    [2]*big.Float
}

type pairSeries struct {
	a, b string // a < b
	recs []rec
}

type pool struct {
	id         uint64
	cl         bool
	denoms     []string // sorted
	pairs      []*pairSeries
	createdH   int64
	createErr  bool // spot price failed right after the create message
	changed    bool // touched by a successful message in the current block
	faultedOny bool // had a rolled-back message in the current block
}

func (pl *pool) kind() string {
	if pl.cl {
		return "cl"
	}
	return "balancer"
}

type refOut struct {
	before       bool // s precedes the first record
	flagged      bool // an error record was in force at s or written in (s,e]
	noFlagAssert bool
	arith        *big.Rat
	geo          *big.Rat
	min          *big.Rat
	max          *big.Rat
	rho          *big.Rat // max |p_ab*p_ba - 1| over the prices in force
	nseg         int
	allOne       bool
}

var ratOne = big.NewRat(1, 1)

// eval is the textbook reference: the price written at t_i is in force on
// [t_i, t_{i+1}); the mean over [s,e] weights each price by the length of its
// overlap with the interval.
func (ps *pairSeries) eval(dir int, s, e int64) (o refOut) {
	recs := ps.recs
	i0 := -1
	for i := range recs {
		if recs[i].t <= s {
			i0 = i
		} else {
			break
		}
	}
	if i0 < 0 {
		o.before = true
		return o
	}
	if recs[i0].t == s && !recs[i0].err && i0 > 0 && recs[i0-1].err {
		o.noFlagAssert = true
	}
	type seg struct {
		i   int
		len int64
	}
	var segs []seg
	for i := i0; i < len(recs) && (i == i0 || recs[i].t <= e); i++ {
		r := &recs[i]
		if r.err {
			o.flagged = true
		}
		if r.ambig {
			o.noFlagAssert = true
		}
		a, b := r.t, e
		if a < s {
			a = s
		}
		if i+1 < len(recs) && recs[i+1].t < e {
			b = recs[i+1].t
		}
		if b > a && !r.err {
			segs = append(segs, seg{i, b - a})
		}
	}
	if o.flagged {
		return o
	}
	total := big.NewRat(e-s, 1)
	sum := new(big.Rat)
	lsum := hpNew()
	o.rho = new(big.Rat)
	o.allOne = true
	for _, sg := range segs {
		r := &recs[sg.i]
		p := r.p[dir]
		w := big.NewRat(sg.len, 1)
		sum.Add(sum, new(big.Rat).Mul(p, w))
		if o.min == nil || p.Cmp(o.min) < 0 {
			o.min = p
		}
		if o.max == nil || p.Cmp(o.max) > 0 {
			o.max = p
		}
		if r.lg[dir] == nil {
			r.lg[dir] = hpLog2(p)
		}
		lsum.Add(lsum, hpNew().Mul(r.lg[dir], hpNew().SetInt64(sg.len)))
		d := new(big.Rat).Mul(r.p[0], r.p[1])
		d.Sub(d, ratOne)
		d.Abs(d)
		if d.Cmp(o.rho) > 0 {
			o.rho = d
		}
		if p.Cmp(ratOne) != 0 {
			o.allOne = false
		}
	}
	o.nseg = len(segs)
	o.arith = sum.Quo(sum, total)
	lsum.Quo(lsum, hpNew().SetInt64(e-s))
	o.geo = hpRat(hpExp2(lsum))
	return o
}

// ------------------------------------------------------------------ executor

type position struct {
	id    uint64
	pool  uint64
	owner int
}

type pquery struct {
	pl          *pool
	base, quote string
	geo         bool
	s, e        int64
	val         string
	err         bool
}

type world struct {
	run    *simcore.Run
	n      *simchain.Node
	keepMs int64
	subMs  bool                // block times carry a varying sub-millisecond part
	exact  map[int64]time.Time // millisecond of a block -> its exact header time
	pools  []*pool
	poss   []position
	pq     []pquery
	nrec   int // historical records in the store after the last block
	epoch  int64
}

func msT(ms int64) time.Time { return simchain.GenesisTime.Add(time.Duration(ms) * time.Millisecond) }

// tAt is the query time for a millisecond of the model: the exact header time when a block was produced in
// that millisecond (the model means "at that block"), the whole millisecond otherwise.
func (w *world) tAt(ms int64) time.Time {
	if t, ok := w.exact[ms]; ok {
		return t
	}
	return msT(ms)
}

func (w *world) now() int64 { return int64(w.n.Time.Sub(simchain.GenesisTime) / time.Millisecond) }

func decRat(d osmomath.Dec) *big.Rat {
	return new(big.Rat).SetFrac(d.BigInt(), new(big.Int).Exp(big.NewInt(10), big.NewInt(18), nil))
}

var (
	ulp      = big.NewRat(1, 1_000_000_000_000_000_000)
	relArith = big.NewRat(1, 1_000_000_000_000_000_000) // 1e-18
	// 8 significant figures, rounded half up: half a unit in the 8th figure of a
	// number whose first figure may be 1 -> relative 5e-8.
	relSigFig = big.NewRat(5, 100_000_000)
	relMath   = big.NewRat(1, 100_000_000_000_000_000) // 1e-17, see geoTol
	rhoLimit  = big.NewRat(1, 1000)
)

func (Engine) Execute(run *simcore.Run) {
	p := run.Plan
	keep := time.Duration(p.Cfg("keep_s", 3600)) * time.Second
	epochDur := time.Duration(p.Cfg("epoch_s", 300)) * time.Second
	limit := p.Cfg("prune_limit", 200)
	if limit < 1 {
		limit = 1
	}
	// package-level knob of x/twap (not a chain parameter): records pruned per block
	xtwap.NumRecordsToPrunePerBlock = uint16(limit)
	fund := sdk.NewCoins()
	for _, d := range denoms {
		fund = fund.Add(sdk.NewCoin(d, fundEach))
	}
	n := simchain.NewNode(simchain.Config{Accounts: 3, Validators: 1, Fund: fund, Mutate: func(cdc codec.JSONCodec, gs app.GenesisState) {
		var tg twaptypes.GenesisState
		cdc.MustUnmarshalJSON(gs[twaptypes.ModuleName], &tg)
		tg.Params = twaptypes.Params{PruneEpochIdentifier: pruneEpoch, RecordHistoryKeepPeriod: keep}
		gs[twaptypes.ModuleName] = cdc.MustMarshalJSON(&tg)

		var eg epochstypes.GenesisState
		cdc.MustUnmarshalJSON(gs[epochstypes.ModuleName], &eg)
		eg.Epochs = append(eg.Epochs, epochstypes.NewGenesisEpochInfo(pruneEpoch, epochDur))
		gs[epochstypes.ModuleName] = cdc.MustMarshalJSON(&eg)

		var mg minttypes.GenesisState
		cdc.MustUnmarshalJSON(gs[minttypes.ModuleName], &mg)
		mg.Minter.EpochProvisions = osmomath.ZeroDec()
		mg.Params.GenesisEpochProvisions = osmomath.ZeroDec()
		gs[minttypes.ModuleName] = cdc.MustMarshalJSON(&mg)

		var pg pmtypes.GenesisState
		cdc.MustUnmarshalJSON(gs[pmtypes.ModuleName], &pg)
		pg.Params.PoolCreationFee = sdk.NewCoins(sdk.NewInt64Coin(simchain.BondDenom, 1000))
		pg.Params.AuthorizedQuoteDenoms = append([]string{}, denoms...)
		gs[pmtypes.ModuleName] = cdc.MustMarshalJSON(&pg)

		var gg gammtypes.GenesisState
		cdc.MustUnmarshalJSON(gs[gammtypes.ModuleName], &gg)
		gg.Params.PoolCreationFee = sdk.NewCoins(sdk.NewInt64Coin(simchain.BondDenom, 1000))
		gs[gammtypes.ModuleName] = cdc.MustMarshalJSON(&gg)

		var cg clgenesis.GenesisState
		cdc.MustUnmarshalJSON(gs[cltypes.ModuleName], &cg)
		cg.Params.IsPermissionlessPoolCreationEnabled = true
		gs[cltypes.ModuleName] = cdc.MustMarshalJSON(&cg)
	}})
	n.Spec = run.Plan.Cfg("spec", 0)
	defer func() {
		for i := 0; i < n.Specs; i++ {
			run.Fault("speculative-block-discarded")
		}
	}()
	w := &world{run: run, n: n, keepMs: int64(keep / time.Millisecond), subMs: p.Cfg("subms", 0) == 1}
	if !w.begin(time.Second) {
		return
	}
	for i, st := range p.Steps {
		run.StepIdx = i
		switch st.Op {
		case "block":
			if !w.endBlock() || !w.blockOracle(st.Arg(2), true) {
				return
			}
			if !w.begin(w.dt(st.Arg(0), st.Arg(1))) {
				return
			}
			run.Event("block", "ok")
			run.Logf("%d block -> h=%d t=%dms hash=%x", i, n.Height, w.now(), n.LastAppHash[:6])
		case "idle":
			cnt := int(st.Arg(0))
			if cnt < 1 {
				cnt = 1
			}
			if cnt > 12 {
				cnt = 12
			}
			for k := 0; k < cnt; k++ {
				if !w.endBlock() || !w.blockOracle(st.Arg(3)+int64(k), k == cnt-1) {
					return
				}
				if !w.begin(w.dt(st.Arg(1), st.Arg(2)+int64(k)*7919)) {
					return
				}
			}
			run.Event("idle", "ok")
			run.Logf("%d idle x%d -> h=%d t=%dms hash=%x", i, cnt, n.Height, w.now(), n.LastAppHash[:6])
		case "restart":
			if !w.endBlock() || !w.blockOracle(st.Arg(2), true) {
				return
			}
			n.Restart()
			run.Fault("restart")
			if !w.replay("restart") || !w.blockOracle(st.Arg(2)+1, true) {
				return
			}
			if !w.begin(w.dt(st.Arg(0), st.Arg(1))) {
				return
			}
			run.Event("restart", "ok")
			run.Logf("%d restart -> h=%d t=%dms hash=%x", i, n.Height, w.now(), n.LastAppHash[:6])
		default:
			if !w.message(i, st) {
				return
			}
		}
		if run.Stop() {
			return
		}
	}
	if w.endBlock() {
		w.blockOracle(int64(len(p.Steps)), true)
	}
}

// dt resolves a time step. kinds: 0 1ms, 1 ms, 2 seconds, 3 minutes, 4 hours,
// 5 days, 6 to just past (or exactly onto) the end of the running prune epoch,
// 7 a fraction (1%..150%) of the keep period.
func (w *world) dt(kind, x int64) time.Duration {
	ms := int64(1)
	switch kind {
	case 1:
		ms = x%999 + 1
	case 2:
		ms = (x%60+1)*1000 + x%1000
	case 3:
		ms = (x%30+1)*60_000 + x%1000
	case 4:
		ms = (x%30 + 1) * 3_600_000
	case 5:
		ms = (x%3+1)*86_400_000 + x%1000
	case 6:
		ei := w.n.App.EpochsKeeper.GetEpochInfo(w.n.QueryCtx(), pruneEpoch)
		end := ei.CurrentEpochStartTime.Add(ei.Duration)
		ms = int64(end.Sub(w.n.Time)/time.Millisecond) + x%3
	case 7:
		ms = w.keepMs * (x%150 + 1) / 100
	}
	if ms < 1 {
		ms = 1
	}
	d := time.Duration(ms) * time.Millisecond
	if w.subMs {
		// real block times carry nanoseconds: land on the same millisecond with another sub-millisecond part
		// (x/twap works on times truncated to milliseconds, and so does the reference)
		old := int64(w.n.Time.Nanosecond()) % 1_000_000
		d += time.Duration((x*7919+ms*31+13)%1_000_000 - old)
	}
	return d
}

func (w *world) begin(dt time.Duration) bool {
	if pv := w.n.BeginBlock(dt); pv != nil {
		w.run.Fail("C10", "chain-halt", "begin-block", "BeginBlocker panicked: %v", pv)
		return false
	}
	w.run.Blocks++
	w.run.SimNanos += int64(dt)
	if w.exact == nil {
		w.exact = map[int64]time.Time{}
	}
	w.exact[w.now()] = w.n.Time
	ei := w.n.App.EpochsKeeper.GetEpochInfo(w.n.Ctx, pruneEpoch)
	if w.epoch != 0 && ei.CurrentEpoch > w.epoch {
		w.run.Probe("prune-epoch-ended")
	}
	w.epoch = ei.CurrentEpoch
	return true
}

func (w *world) countRecords(ctx sdk.Context) int {
	key := w.n.App.GetKVStoreKey()[twaptypes.StoreKey]
	prefix := []byte(twaptypes.HistoricalTWAPPoolIndexPrefix)
	end := append([]byte{}, prefix...)
	end[len(end)-1]++
	it := ctx.KVStore(key).Iterator(prefix, end)
	defer it.Close()
	c := 0
	for ; it.Valid(); it.Next() {
		c++
	}
	return c
}

// endBlock runs the real end blocker + commit and then captures the
// end-of-block spot prices of every pool that changed in the block.
func (w *world) endBlock() bool {
	n, run := w.n, w.run
	if pv := n.EndBlock(); pv != nil {
		run.Fail("C10", "chain-halt", "end-block", "EndBlocker panicked at height %d: %v", n.Height+1, pv)
		return false
	}
	ctx := n.QueryCtx()
	now := w.now()
	added := 0
	for _, pl := range w.pools {
		if pl.changed {
			w.capture(ctx, pl, now)
			added += len(pl.pairs)
		} else if pl.faultedOny {
			// every message on this pool in the block was rolled back: no record may carry this block's time
			mr, err := n.App.TwapKeeper.GetAllMostRecentRecordsForPool(ctx, pl.id)
			if err == nil {
				for _, r := range mr {
					if r.Time.Equal(n.Time) {
						run.Fail("C10", "rolled-back-op-recorded", pl.kind(), "pool %d %s/%s has a record at %dms although every message touching the pool in that block was rolled back", pl.id, r.Asset0Denom, r.Asset1Denom, now)
						return false
					}
				}
			}
		}
		pl.changed, pl.faultedOny = false, false
	}
	cnt := w.countRecords(ctx)
	if cnt < w.nrec+added {
		run.Probe("records-pruned")
		if n.App.TwapKeeper.GetPruningState(ctx).IsPruning {
			run.Probe("pruning-continues-next-block")
		}
	}
	w.nrec = cnt
	return w.replay("block")
}

func (w *world) spot(ctx sdk.Context, id uint64, quote, base string) (p *big.Rat, err error) {
	defer func() {
		if x := recover(); x != nil {
			p, err = nil, fmt.Errorf("panic: %v", x)
		}
	}()
	bd, e := w.n.App.PoolManagerKeeper.RouteCalculateSpotPrice(ctx, id, quote, base)
	if e != nil {
		return nil, e
	}
	// records hold 18-decimal prices (TwapRecord.P0LastSpotPrice is a Dec)
	d := bd.Dec()
	if !d.IsPositive() {
		return nil, fmt.Errorf("non-positive price %s", d)
	}
	return decRat(d), nil
}

func (w *world) capture(ctx sdk.Context, pl *pool, t int64) {
	for _, ps := range pl.pairs {
		r := rec{t: t}
		pab, e0 := w.spot(ctx, pl.id, ps.b, ps.a)
		pba, e1 := w.spot(ctx, pl.id, ps.a, ps.b)
		if e0 != nil || e1 != nil {
			r.err = true
			w.run.Probe("spot-price-error-recorded-" + pl.kind())
		} else {
			r.p = [2]*big.Rat{pab, pba}
		}
		if pl.createdH == w.n.Height && pl.createErr && !r.err {
			r.ambig = true
			w.run.Probe("created-with-error-repaired-same-block")
		}
		if k := len(ps.recs); k > 0 && ps.recs[k-1].t == t {
			ps.recs[k-1] = r
		} else if k > 0 && sameObs(&ps.recs[k-1], &r) {
			// the price in force does not change: the step function is the same with or
			// without this observation (the module may or may not have written a record)
			w.run.Count("captures-unchanged-price")
		} else {
			if k > 0 && ps.recs[k-1].err && !r.err {
				w.run.Probe("price-recovers-after-error")
			}
			ps.recs = append(ps.recs, r)
		}
	}
}

func sameObs(a, b *rec) bool {
	if a.err != b.err {
		return false
	}
	if a.err {
		return true
	}
	return a.p[0].Cmp(b.p[0]) == 0 && a.p[1].Cmp(b.p[1]) == 0
}

// ---- messages

func (w *world) poolBal(ctx sdk.Context, pl *pool, denom string) osmomath.Int {
	pi, err := w.n.App.PoolManagerKeeper.GetPool(ctx, pl.id)
	if err != nil {
		return osmomath.ZeroInt()
	}
	return w.n.Balance(ctx, pi.GetAddress(), denom)
}

func pow10(m, e int64) osmomath.Int {
	return osmomath.NewInt(m).Mul(osmomath.NewIntWithDecimal(1, int(e)))
}

func (w *world) pickPool(sel int64, cl int) *pool {
	var c []*pool
	for _, pl := range w.pools {
		if cl < 0 || (cl == 1) == pl.cl {
			c = append(c, pl)
		}
	}
	if len(c) == 0 {
		return nil
	}
	return c[int(sel)%len(c)]
}

func (w *world) poolByID(id uint64) *pool {
	for _, pl := range w.pools {
		if pl.id == id {
			return pl
		}
	}
	return nil
}

// message builds and delivers the message(s) of one step.
func (w *world) message(i int, st simcore.Step) bool {
	n, run := w.n, w.run
	fk, fa := simcore.ParseFault(st.F)
	type planned struct {
		msg   sdk.Msg
		pools []*pool
		onOK  func(res simchain.Result)
	}
	var msgs []planned
	ctx := n.Ctx
	rolledBack := false
	var touched *pool
	switch st.Op {
	case "mkbal":
		creator := n.Accts[int(st.Arg(0))%3]
		na := int(st.Arg(1))
		if na < 2 {
			na = 2
		}
		if na > 3 {
			na = 3
		}
		var ds []string
		for k := 0; k < na; k++ {
			ds = append(ds, denoms[(int(st.Arg(2))+k)%len(denoms)])
		}
		sort.Strings(ds)
		wsets := [][]int64{{1, 1, 1}, {1, 4, 2}, {80, 20, 50}, {1000000, 1, 3}, {7, 13, 29}}
		ws := wsets[int(st.Arg(3))%len(wsets)]
		fees := []string{"0", "0.003", "0.01", "0.0001"}
		regime := st.Arg(5)
		var assets []balancer.PoolAsset
		for k, d := range ds {
			amt := pow10(st.Arg(6+2*k)%10000, st.Arg(7+2*k)%31)
			wt := ws[k]
			if regime == 1 {
				amt, wt = pow10(st.Arg(6)%10000, st.Arg(7)%31), 1
			}
			if !amt.IsPositive() {
				amt = osmomath.NewInt(1)
			}
			assets = append(assets, balancer.PoolAsset{Token: sdk.NewCoin(d, amt), Weight: osmomath.NewInt(wt)})
		}
		msg := &balancer.MsgCreateBalancerPool{Sender: creator.String(), PoolParams: &balancer.PoolParams{SwapFee: osmomath.MustNewDecFromStr(fees[int(st.Arg(4))%len(fees)]), ExitFee: osmomath.ZeroDec()}, PoolAssets: assets}
		msgs = append(msgs, planned{msg: msg, onOK: func(res simchain.Result) {
			id := res.Resp.MsgResponses[0].GetCachedValue().(*balancer.MsgCreateBalancerPoolResponse).PoolID
			w.addPool(id, false, ds)
			if regime == 1 {
				run.Probe("unit-price-pool")
			}
		}})
	case "mkcl":
		creator := n.Accts[int(st.Arg(0))%3]
		nd := len(denoms)
		k := int(st.Arg(1)) % (nd * (nd - 1))
		d0 := denoms[k%nd]
		d1 := denoms[(k%nd+1+k/nd)%nd]
		spacings := []uint64{1, 10, 100, 1000}
		spreads := []string{"0", "0.0001", "0.0005", "0.001", "0.002", "0.003", "0.005"}
		msg := &clmodel.MsgCreateConcentratedPool{Sender: creator.String(), Denom0: d0, Denom1: d1, TickSpacing: spacings[int(st.Arg(2))%4], SpreadFactor: osmomath.MustNewDecFromStr(spreads[int(st.Arg(3))%len(spreads)])}
		msgs = append(msgs, planned{msg: msg, onOK: func(res simchain.Result) {
			id := res.Resp.MsgResponses[0].GetCachedValue().(*clmodel.MsgCreateConcentratedPoolResponse).PoolID
			ds := []string{d0, d1}
			sort.Strings(ds)
			w.addPool(id, true, ds)
		}})
	case "pos":
		pl := w.pickPool(st.Arg(1), 1)
		if pl == nil {
			run.Event(st.Op, "skip")
			return true
		}
		owner := int(st.Arg(0)) % 3
		cp, err := n.App.ConcentratedLiquidityKeeper.GetConcentratedPoolById(ctx, pl.id)
		if err != nil {
			run.Event(st.Op, "skip")
			return true
		}
		sp := int64(cp.GetTickSpacing())
		lo, hi := cltypes.MinInitializedTick, cltypes.MaxTick
		empty := !n.App.ConcentratedLiquidityKeeper.PoolHasPosition(ctx, cp)
		if wk := st.Arg(2); wk > 0 && !(empty && wk < 3) {
			width := []int64{0, 1, 10, 100, 1000, 20000}[wk%6] * sp
			cur := cp.GetCurrentTick()
			base := cur - ((cur%sp)+sp)%sp
			lo, hi = base-width*(st.Arg(7)%3+1)+sp*(st.Arg(7)%2), base+width+sp
			if lo < cltypes.MinInitializedTick {
				lo = cltypes.MinInitializedTick
			}
			if hi > cltypes.MaxTick {
				hi = cltypes.MaxTick
			}
		}
		coins := sdk.NewCoins(sdk.NewCoin(cp.GetToken0(), pow10(st.Arg(3), st.Arg(4)%20)), sdk.NewCoin(cp.GetToken1(), pow10(st.Arg(5), st.Arg(6)%20)))
		msg := &cltypes.MsgCreatePosition{PoolId: pl.id, Sender: n.Accts[owner].String(), LowerTick: lo, UpperTick: hi, TokensProvided: coins, TokenMinAmount0: osmomath.ZeroInt(), TokenMinAmount1: osmomath.ZeroInt()}
		msgs = append(msgs, planned{msg: msg, pools: []*pool{pl}, onOK: func(res simchain.Result) {
			id := res.Resp.MsgResponses[0].GetCachedValue().(*cltypes.MsgCreatePositionResponse).PositionId
			w.poss = append(w.poss, position{id: id, pool: pl.id, owner: owner})
			if empty {
				run.Probe("first-position-in-empty-cl-pool")
			}
		}})
	case "wd", "drain":
		var targets []position
		bp := int64(10000)
		if st.Op == "wd" {
			if len(w.poss) == 0 {
				run.Event(st.Op, "skip")
				return true
			}
			targets = []position{w.poss[int(st.Arg(0))%len(w.poss)]}
			bp = st.Arg(1)
			if bp < 1 || bp > 10000 {
				bp = 10000
			}
		} else {
			pl := w.pickPool(st.Arg(0), 1)
			if pl == nil {
				run.Event(st.Op, "skip")
				return true
			}
			for _, ps := range w.poss {
				if ps.pool == pl.id {
					targets = append(targets, ps)
				}
			}
			if len(targets) == 0 {
				run.Event(st.Op, "skip")
				return true
			}
		}
		for _, tg := range targets {
			tg := tg
			liq, err := n.App.ConcentratedLiquidityKeeper.GetPositionLiquidity(ctx, tg.id)
			if err != nil {
				continue
			}
			amt := liq
			if bp < 10000 {
				amt = liq.MulInt64(bp).QuoInt64(10000)
				if !amt.IsPositive() {
					amt = liq
				}
			}
			full := amt.Equal(liq)
			msg := &cltypes.MsgWithdrawPosition{PositionId: tg.id, Sender: n.Accts[tg.owner].String(), LiquidityAmount: amt}
			msgs = append(msgs, planned{msg: msg, pools: []*pool{w.poolByID(tg.pool)}, onOK: func(res simchain.Result) {
				if full {
					for k := range w.poss {
						if w.poss[k].id == tg.id {
							w.poss = append(w.poss[:k], w.poss[k+1:]...)
							break
						}
					}
					cp, err := n.App.ConcentratedLiquidityKeeper.GetConcentratedPoolById(n.Ctx, tg.pool)
					if err == nil && !n.App.ConcentratedLiquidityKeeper.PoolHasPosition(n.Ctx, cp) {
						run.Probe("cl-pool-drained")
					}
				}
			}})
		}
		if len(msgs) == 0 {
			run.Event(st.Op, "skip")
			return true
		}
	case "swap":
		pl := w.pickPool(st.Arg(1), -1)
		if pl == nil {
			run.Event(st.Op, "skip")
			return true
		}
		nd := len(pl.denoms)
		ii := int(st.Arg(2)) % nd
		oi := (ii + 1 + int(st.Arg(3))%(nd-1)) % nd
		in, out := pl.denoms[ii], pl.denoms[oi]
		amt := w.poolBal(ctx, pl, in).MulRaw(st.Arg(4)%10001 + 1).QuoRaw(10000)
		if !amt.IsPositive() {
			amt = w.poolBal(ctx, pl, out).MulRaw(st.Arg(4)%10001 + 1).QuoRaw(10000)
		}
		if !amt.IsPositive() {
			amt = osmomath.NewInt(1000)
		}
		msg := &pmtypes.MsgSwapExactAmountIn{Sender: n.Accts[int(st.Arg(0))%3].String(), Routes: []pmtypes.SwapAmountInRoute{{PoolId: pl.id, TokenOutDenom: out}}, TokenIn: sdk.NewCoin(in, amt), TokenOutMinAmount: osmomath.NewInt(1)}
		msgs = append(msgs, planned{msg: msg, pools: []*pool{pl}})
	case "join":
		pl := w.pickPool(st.Arg(1), 0)
		if pl == nil {
			run.Event(st.Op, "skip")
			return true
		}
		sender := n.Accts[int(st.Arg(0))%3].String()
		bp := st.Arg(4)%10000 + 1
		var msg sdk.Msg
		if st.Arg(2) == 0 {
			cp, err := n.App.GAMMKeeper.GetPoolAndPoke(ctx, pl.id)
			if err != nil {
				run.Event(st.Op, "skip")
				return true
			}
			sh := cp.GetTotalShares().MulRaw(bp).QuoRaw(10000)
			if !sh.IsPositive() {
				sh = osmomath.NewInt(1)
			}
			msg = &gammtypes.MsgJoinPool{Sender: sender, PoolId: pl.id, ShareOutAmount: sh}
		} else {
			d := pl.denoms[int(st.Arg(3))%len(pl.denoms)]
			amt := w.poolBal(ctx, pl, d).MulRaw(bp).QuoRaw(10000)
			if !amt.IsPositive() {
				amt = osmomath.NewInt(1)
			}
			msg = &gammtypes.MsgJoinSwapExternAmountIn{Sender: sender, PoolId: pl.id, TokenIn: sdk.NewCoin(d, amt), ShareOutMinAmount: osmomath.NewInt(1)}
		}
		msgs = append(msgs, planned{msg: msg, pools: []*pool{pl}})
	case "exit":
		pl := w.pickPool(st.Arg(1), 0)
		if pl == nil {
			run.Event(st.Op, "skip")
			return true
		}
		acct := n.Accts[int(st.Arg(0))%3]
		sh := n.Balance(ctx, acct, gammtypes.GetPoolShareDenom(pl.id)).MulRaw(st.Arg(2)%10000 + 1).QuoRaw(10000)
		if !sh.IsPositive() {
			run.Event(st.Op, "skip")
			return true
		}
		msg := &gammtypes.MsgExitPool{Sender: acct.String(), PoolId: pl.id, ShareInAmount: sh}
		msgs = append(msgs, planned{msg: msg, pools: []*pool{pl}})
	default:
		run.Event(st.Op, "skip")
		return true
	}
	for k, pm := range msgs {
		kind, arg := "", int64(0)
		if k == len(msgs)-1 {
			kind, arg = fk, fa
		}
		var before string
		if kind != "" {
			before = n.Digest(n.Ctx, twaptypes.StoreKey)
		}
		res := n.DeliverFault(pm.msg, kind, arg)
		for _, pl := range pm.pools {
			if pl != nil {
				touched = pl
			}
		}
		run.Event(st.Op, res.Outcome)
		run.Logf("%d %s %v f=%s -> %s gas=%d err=%v", i, st.Op, st.A, st.F, res.Outcome, res.GasUsed, res.Err)
		switch res.Outcome {
		case "ok":
			for _, pl := range pm.pools {
				if pl != nil {
					pl.changed = true
				}
			}
			if pm.onOK != nil {
				pm.onOK(res)
			}
		case "oog", "abort":
			run.Fault(res.Outcome)
			rolledBack = true
			for _, pl := range pm.pools {
				if pl != nil {
					pl.faultedOny = true
				}
			}
			if after := n.Digest(n.Ctx, twaptypes.StoreKey); kind != "" && after != before {
				run.Fail("C10", "rolled-back-op-changed-twap-store", st.Op, "%s ended as %s but the twap store digest changed %s -> %s", st.Op, res.Outcome, before, after)
				return false
			}
		case "panic":
			run.Probe("message-panicked")
			run.Logf("%d %s PANIC %v", i, st.Op, res.Panic)
		}
	}
	// inside the block nothing is recorded yet: every answer is still derived
	// from the records of earlier blocks, interpolated to the block time
	if rolledBack || i%4 == 0 {
		if !w.replay("msg") {
			return false
		}
	}
	return w.sampleOracle(n.QueryCtx(), int64(i)*1_000_003+st.Arg(0), 1, touched, "in-block")
}

func (w *world) addPool(id uint64, cl bool, ds []string) {
	pl := &pool{id: id, cl: cl, denoms: ds, createdH: w.n.Height, changed: true}
	for i := 0; i < len(ds); i++ {
		for j := i + 1; j < len(ds); j++ {
			pl.pairs = append(pl.pairs, &pairSeries{a: ds[i], b: ds[j]})
		}
	}
	// README: "When a pool is created, records are created with the current spot price of the pool"
	for _, ps := range pl.pairs {
		_, e0 := w.spot(w.n.Ctx, id, ps.b, ps.a)
		_, e1 := w.spot(w.n.Ctx, id, ps.a, ps.b)
		if e0 != nil || e1 != nil {
			pl.createErr = true
		}
	}
	w.pools = append(w.pools, pl)
	w.run.Probe("pool-created-" + pl.kind())
}

// ------------------------------------------------------------------- oracles

type answer struct {
	val      osmomath.Dec
	has      bool // a value came back
	err      error
	panicked interface{}
}

func (a answer) String() string {
	if a.panicked != nil {
		return fmt.Sprintf("panic(%v)", a.panicked)
	}
	s := "-"
	if a.has {
		s = a.val.String()
	}
	if a.err != nil {
		s += " err"
	}
	return s
}

func (w *world) ask(ctx sdk.Context, geo, toNow bool, id uint64, base, quote string, s, e int64) (a answer) {
	defer func() {
		if x := recover(); x != nil {
			a = answer{panicked: x}
		}
	}()
	k := w.n.App.TwapKeeper
	var v osmomath.Dec
	var err error
	switch {
	case !geo && !toNow:
		v, err = k.GetArithmeticTwap(ctx, id, base, quote, w.tAt(s), w.tAt(e))
	case !geo && toNow:
		v, err = k.GetArithmeticTwapToNow(ctx, id, base, quote, w.tAt(s))
	case geo && !toNow:
		v, err = k.GetGeometricTwap(ctx, id, base, quote, w.tAt(s), w.tAt(e))
	default:
		v, err = k.GetGeometricTwapToNow(ctx, id, base, quote, w.tAt(s))
	}
	a.err = err
	if !v.IsNil() {
		a.val, a.has = v, true
	}
	return a
}

func permille(diff, tol *big.Rat) int64 {
	if tol.Sign() == 0 {
		return 0
	}
	q := new(big.Rat).Quo(diff, tol)
	q.Mul(q, big.NewRat(1000, 1))
	f, _ := q.Float64()
	if f > 1e15 {
		return 1e15
	}
	return int64(f + 0.999999)
}

func absDiff(a, b *big.Rat) *big.Rat {
	d := new(big.Rat).Sub(a, b)
	return d.Abs(d)
}

func rstr(r *big.Rat) string { return r.FloatString(24) }

// geoRel is the relative part of the geometric tolerance.
//
// Stated precision: strategy.go rounds the geometric result "because this is
// the max number of significant figures supported by the underlying spot price
// function" = 8 significant figures (gamm SpotPriceSigFigs); half a unit in the
// 8th figure of a number whose leading figure may be 1 is 5e-8 relative.
// Recorded prices: the two directions of a pair are recorded separately, each
// rounded/truncated to the record's 18 decimals (8 figures for gamm pools), so
// p_ab*p_ba = 1 only up to rho, measured on the captured series. The property
// asks at the same time for geo(a,b)=G(p_ab), geo(b,a)=G(p_ba) and
// geo(a,b)*geo(b,a)=1; since G(p_ab)*G(p_ba) lies in [1-rho, 1+rho] these can
// hold together only up to rho/(1-rho), which is therefore granted.
// Arithmetic inside: log2 "accurate up to 32 digits", stored with 18 decimals
// (<= 1e-18 absolute per record, weights sum to one), one 18-decimal division
// for the mean, Exp2 "correct up to a factor of 10^-18": < 1e-17 relative.
// Plus two units in the last of the 18 decimals of the returned Dec (absolute).
func geoRel(rho *big.Rat) *big.Rat {
	t := new(big.Rat).Add(relSigFig, relMath)
	if rho.Sign() > 0 {
		den := new(big.Rat).Sub(ratOne, rho)
		t.Add(t, new(big.Rat).Quo(rho, den))
	}
	return t
}

// checkPair asks one kind of TWAP (arithmetic or geometric) of one pool pair
// over [s,e] in both quote directions and compares it with the reference.
func (w *world) checkPair(ctx sdk.Context, pl *pool, ps *pairSeries, geo bool, s, e, now int64, where string) bool {
	run := w.run
	sig := pl.kind()
	fail := func(oracle, sg, format string, a ...interface{}) bool {
		run.Fail("C10", oracle, sg, "pool %d (%s) [%dms,%dms] now=%dms %s: "+format, append([]interface{}{pl.id, pl.kind(), s, e, now, where}, a...)...)
		return !run.Stop()
	}
	inWindow := s >= now-w.keepMs+1
	name := "arithmetic"
	if geo {
		name = "geometric"
	}
	var geoGot [2]*big.Rat
	for dir := 0; dir < 2; dir++ {
		base, quote := ps.a, ps.b
		if dir == 1 {
			base, quote = ps.b, ps.a
		}
		ref := ps.eval(dir, s, e)
		got := w.ask(ctx, geo, false, pl.id, base, quote, s, e)
		run.Count("queries")
		if got.panicked != nil && !inWindow {
			// nothing is promised here: while a multi-block pruning pass is under way
			// the records below the keep window have holes and such a query can blow up
			run.Probe("outside-window-query-panicked")
			continue
		}
		if got.panicked != nil {
			return fail("query-panics", sig, "%s twap %s/%s panicked: %v; stored records: %s", name, base, quote, got.panicked, w.dumpRecords(ctx, pl.id, ps))
		}
		if e == now && dir == 0 {
			tn := w.ask(ctx, geo, true, pl.id, base, quote, s, e)
			if tn.String() != got.String() {
				return fail("to-now-equals-explicit-end", sig, "%s twap %s/%s: ToNow gives %s, explicit end = block time gives %s", name, base, quote, tn, got)
			}
			run.Count("checked-to-now")
		}
		if ref.before {
			// README: errors if startTime is older than pool creation
			if got.err == nil {
				return fail("before-first-record", sig, "%s twap %s/%s starting before the pool's first record returned %s without error", name, base, quote, got)
			}
			run.Count("queries-before-first-record")
			continue
		}
		if !inWindow {
			run.Count("queries-outside-window")
			continue
		}
		if ref.flagged {
			run.Count("queries-flagged")
			if got.err == nil {
				return fail("error-flag", "missed", "%s twap %s/%s = %s without error although a failed spot price was in force in the interval", name, base, quote, got)
			}
			continue
		}
		if !got.has {
			return fail("query-fails", sig, "%s twap %s/%s inside the keep window failed: %v; stored records: %s", name, base, quote, got.err, w.dumpRecords(ctx, pl.id, ps))
		}
		if got.err != nil && !ref.noFlagAssert {
			return fail("error-flag", "spurious", "%s twap %s/%s = %s flagged (%v) but no failed spot price was in force in the interval", name, base, quote, got, got.err)
		}
		v := decRat(got.val)
		if !geo {
			// Arithmetic: prices are 18-decimal numbers, price*ms and their sums are
			// exact in 18 decimals, the only inexact step is the final division by the
			// interval length (<= 1 unit in the last place). Claimed: 1e-18 relative + 1 ulp.
			tol := new(big.Rat).Mul(ref.arith, relArith)
			tol.Add(tol, ulp)
			d := absDiff(v, ref.arith)
			if d.Cmp(tol) > 0 {
				return fail("arithmetic-mean", sig, "arithmetic twap %s/%s = %s, time-weighted mean of %d recorded prices = %s (diff %s > tol %s)", base, quote, got, ref.nseg, rstr(ref.arith), rstr(d), rstr(tol))
			}
			run.Max("max/arith-slack-permille", permille(d, tol))
			lo := new(big.Rat).Sub(ref.min, tol)
			hi := new(big.Rat).Add(ref.max, tol)
			if v.Cmp(lo) < 0 || v.Cmp(hi) > 0 {
				return fail("arithmetic-bounds", sig, "arithmetic twap %s/%s = %s outside [%s, %s] of the prices in force", base, quote, got, rstr(ref.min), rstr(ref.max))
			}
			run.Count("checked-arithmetic")
			continue
		}
		if ref.rho.Cmp(rhoLimit) > 0 {
			run.Probe("geometric-skipped-coarse-prices")
			continue
		}
		rel := geoRel(ref.rho)
		tol := new(big.Rat).Mul(ref.geo, rel)
		tol.Add(tol, ulp).Add(tol, ulp)
		d := absDiff(v, ref.geo)
		if d.Cmp(tol) > 0 {
			sg := sig
			if ref.allOne {
				sg = "unit-price"
			}
			fail("geometric-mean", sg, "geometric twap %s/%s = %s, 2^(time-weighted mean of log2 of %d recorded prices) = %s (diff %s > tol %s)", base, quote, got, ref.nseg, rstr(ref.geo), rstr(d), rstr(tol))
			if run.Stop() {
				return false
			}
			continue // known finding: do not pile secondary failures on it
		}
		run.Max("max/geo-slack-permille", permille(d, tol))
		twoUlp := new(big.Rat).Add(ulp, ulp)
		lo := new(big.Rat).Sub(ref.min, new(big.Rat).Add(new(big.Rat).Mul(ref.min, rel), twoUlp))
		hi := new(big.Rat).Add(ref.max, new(big.Rat).Add(new(big.Rat).Mul(ref.max, rel), twoUlp))
		if v.Cmp(lo) < 0 || v.Cmp(hi) > 0 {
			return fail("geometric-bounds", sig, "geometric twap %s/%s = %s outside [%s, %s] of the prices in force", base, quote, got, rstr(ref.min), rstr(ref.max))
		}
		geoGot[dir] = v
		run.Count("checked-geometric")
	}
	if g0, g1 := geoGot[0], geoGot[1]; g0 != nil && g1 != nil && g0.Sign() > 0 && g1.Sign() > 0 {
		// each direction: 8 significant figures (5e-8 relative) and the 18th decimal (1 ulp absolute)
		prod := new(big.Rat).Mul(g0, g1)
		d := absDiff(prod, ratOne)
		tol := new(big.Rat).Add(relSigFig, relSigFig)
		tol.Add(tol, new(big.Rat).Mul(relMath, big.NewRat(4, 1)))
		two := big.NewRat(2, 1)
		tol.Add(tol, new(big.Rat).Mul(two, new(big.Rat).Quo(ulp, g0)))
		tol.Add(tol, new(big.Rat).Mul(two, new(big.Rat).Quo(ulp, g1)))
		tol.Mul(tol, big.NewRat(1001, 1000)) // second-order terms
		if d.Cmp(tol) > 0 {
			return fail("geometric-reciprocal", sig, "geometric %s/%s = %s times geometric %s/%s = %s is %s (|x-1| = %s > tol %s)", ps.a, ps.b, rstr(g0), ps.b, ps.a, rstr(g1), rstr(prod), rstr(d), rstr(tol))
		}
		run.Max("max/recip-slack-permille", permille(d, tol))
		run.Count("checked-reciprocal")
	}
	return true
}

// pickTime draws a query instant: on a record time, 1ms beside it, anywhere in
// the pool's life, inside the keep window, at its edge, now, before the pool.
func (w *world) pickTime(r *simcore.RNG, ps *pairSeries, now int64) int64 {
	first := ps.recs[0].t
	lo := now - w.keepMs + 1
	if lo < first {
		lo = first
	}
	// index of the first record inside the window
	iw := len(ps.recs)
	for i := range ps.recs {
		if ps.recs[i].t >= lo {
			iw = i
			break
		}
	}
	inw := func() int64 {
		if iw < len(ps.recs) {
			return ps.recs[iw+r.Intn(len(ps.recs)-iw)].t
		}
		return r.Range(lo, now)
	}
	switch r.Weighted([]int{24, 8, 8, 3, 30, 6, 14, 5, 2}) {
	case 0:
		return inw()
	case 1:
		return inw() + 1
	case 2:
		if t := inw() - 1; t >= lo {
			return t
		}
		return lo
	case 3:
		return r.Range(first, now)
	case 4:
		return r.Range(lo, now)
	case 5:
		return lo
	case 6:
		return now
	case 7:
		return ps.recs[r.Intn(len(ps.recs))].t
	default:
		return first - r.Range(1, 5000)
	}
}

func (w *world) drawInterval(r *simcore.RNG, ps *pairSeries, now int64) (int64, int64, bool) {
	for try := 0; try < 6; try++ {
		s, e := w.pickTime(r, ps, now), w.pickTime(r, ps, now)
		if s > e {
			s, e = e, s
		}
		if s == e || e > now || s < 0 {
			continue
		}
		return s, e, true
	}
	return 0, 0, false
}

// livePairs lists the pairs that already have an end-of-block observation,
// optionally of one pool only.
func (w *world) livePairs(only *pool) (pls []*pool, pss []*pairSeries) {
	for _, pl := range w.pools {
		if only != nil && pl != only {
			continue
		}
		for _, ps := range pl.pairs {
			if len(ps.recs) > 0 { // else created in this block: first end-of-block price not known yet
				pls = append(pls, pl)
				pss = append(pss, ps)
			}
		}
	}
	return
}

// sampleOracle checks `draws` sampled (pair, kind, interval) triples.
func (w *world) sampleOracle(ctx sdk.Context, salt int64, draws int, only *pool, where string) bool {
	r := simcore.NewRNG(simcore.Mix(uint64(salt), "twap-queries", uint64(w.n.Height)))
	now := w.now()
	pls, pss := w.livePairs(only)
	if len(pss) == 0 {
		return true
	}
	for k := 0; k < draws; k++ {
		j := r.Intn(len(pss))
		geo := r.Intn(2) == 1
		s, e, ok := w.drawInterval(r, pss[j], now)
		if !ok {
			continue
		}
		if !w.checkPair(ctx, pls[j], pss[j], geo, s, e, now, where) {
			return false
		}
	}
	return true
}

const maxReplayed = 16

// blockOracle runs after a block was committed.
func (w *world) blockOracle(salt int64, full bool) bool {
	ctx := w.n.QueryCtx()
	draws := 2
	if full {
		draws = 6
	}
	if !w.sampleOracle(ctx, salt, draws, nil, "block-end") {
		return false
	}
	// register new replayed queries (answers must never change while in the window)
	r := simcore.NewRNG(simcore.Mix(uint64(salt), "twap-persist", uint64(w.n.Height)))
	now := w.now()
	pls, pss := w.livePairs(nil)
	for k := 0; k < 3 && len(pss) > 0 && len(w.pq) < maxReplayed; k++ {
		j := r.Intn(len(pss))
		pl, ps := pls[j], pss[j]
		s, e, ok := w.drawInterval(r, ps, now)
		if !ok || s < now-w.keepMs+1 || s < ps.recs[0].t {
			continue
		}
		q := pquery{pl: pl, base: ps.a, quote: ps.b, geo: r.Intn(2) == 1, s: s, e: e}
		if r.Intn(2) == 1 {
			q.base, q.quote = ps.b, ps.a
		}
		a := w.ask(ctx, q.geo, false, pl.id, q.base, q.quote, s, e)
		if a.panicked != nil {
			continue // reported through sampleOracle
		}
		q.val, q.err = a.String(), a.err != nil
		w.pq = append(w.pq, q)
	}
	return true
}

// replay asks every registered query again; while its start is inside the keep
// window the answer must be identical to the first one.
func (w *world) replay(where string) bool {
	ctx := w.n.QueryCtx()
	now := w.now()
	keepQ := w.pq[:0]
	for _, q := range w.pq {
		if q.s < now-w.keepMs+1 {
			w.run.Count("replayed-queries-expired")
			continue
		}
		a := w.ask(ctx, q.geo, false, q.pl.id, q.base, q.quote, q.s, q.e)
		w.run.Count("replayed-queries")
		if a.String() != q.val {
			w.run.Fail("C10", "stable-answer", where, "pool %d %s/%s geo=%v [%dms,%dms]: first answer %s, now (t=%dms, keep window starts %dms) %s (%v)", q.pl.id, q.base, q.quote, q.geo, q.s, q.e, q.val, now, now-w.keepMs, a, a.err)
			if w.run.Stop() {
				return false
			}
		}
		keepQ = append(keepQ, q)
	}
	w.pq = keepQ
	return true
}

// dumpRecords lists the stored historical records of a pair (diagnostics only).
func (w *world) dumpRecords(ctx sdk.Context, id uint64, ps *pairSeries) string {
	recs, err := w.n.App.TwapKeeper.GetAllHistoricalPoolIndexedTWAPsForPoolId(ctx, id)
	if err != nil {
		return err.Error()
	}
	out := ""
	for _, r := range recs {
		if r.PoolId != id || r.Asset0Denom != ps.a || r.Asset1Denom != ps.b {
			continue
		}
		out += fmt.Sprintf("{t=%dms sp0=%s sp1=%s a0=%s a1=%s g=%s errT=%dms} ", r.Time.Sub(simchain.GenesisTime)/time.Millisecond, r.P0LastSpotPrice, r.P1LastSpotPrice, r.P0ArithmeticTwapAccumulator, r.P1ArithmeticTwapAccumulator, r.GeometricTwapAccumulator, r.LastErrorTime.Sub(simchain.GenesisTime)/time.Millisecond)
	}
	return out
}
