// Package mint is the C18 engine: the real x/mint epoch hook inside the full
// application (epochs -> mint -> bank / distribution / pool-incentives ->
// incentives), driven only by the simulated clock, checked at every block
// against an exact-arithmetic emission-schedule and allocation reference.
package mint

import (
	"crypto/sha256"
	"fmt"
	"math/big"
	"sort"
	"time"

	"github.com/cosmos/cosmos-sdk/codec"
	sdk "github.com/cosmos/cosmos-sdk/types"
	authtypes "github.com/cosmos/cosmos-sdk/x/auth/types"
	banktypes "github.com/cosmos/cosmos-sdk/x/bank/types"
	distrtypes "github.com/cosmos/cosmos-sdk/x/distribution/types"

	"github.com/osmosis-labs/osmosis/osmomath"
	"github.com/osmosis-labs/osmosis/v31/app"
	incentivestypes "github.com/osmosis-labs/osmosis/v31/x/incentives/types"
	lockuptypes "github.com/osmosis-labs/osmosis/v31/x/lockup/types"
	minttypes "github.com/osmosis-labs/osmosis/v31/x/mint/types"
	poolincentivestypes "github.com/osmosis-labs/osmosis/v31/x/pool-incentives/types"
	txfeestypes "github.com/osmosis-labs/osmosis/v31/x/txfees/types"
	epochstypes "github.com/osmosis-labs/osmosis/x/epochs/types"

	"verif/harness/simchain"
	"verif/harness/simcore"
)

type Engine struct{}

func init() { simcore.Register(Engine{}) }

func (Engine) Name() string    { return "mint" }
func (Engine) Props() []string { return []string{"C18"} }
func (Engine) Budget(tier, prop string) (int, int) {
	if tier == "thorough" {
		return 20000, 800
	}
	return 4000, 120
}
func (Engine) Describe() simcore.Description {
	return simcore.Description{
		Real: []string{"full OsmosisApp: x/epochs BeginBlocker and hook wrapper (roll-back of a failing subscriber), x/mint keeper and epoch hook, bank (mint, burn, supply offset), x/distribution community pool and fee-collector sweep, x/pool-incentives AllocateAsset, x/incentives gauges, all other epoch subscribers (txfees, twap, superfluid, incentives, protorev), IAVL commit per block"},
		Stub: []string{"CometBFT (the simulator supplies header time/height; no vote infos, so swept fees go to the community pool)", "ante/post handlers (no tx fees)", "governance (distribution records are installed through the keeper at height 2)"},
		Rule: "one run = one genesis with seeded mint parameters (four proportions summing to 1 incl. zeros, reduction factor in (0,1], period 1-8, start epoch 0-5, 0-6 weighted receivers incl. empty addresses and duplicates, initial provision 0..10^15 with fractional digits), a mint epoch of 5-90 s on its own identifier or on a shortened 'day'/'hour', 0-3 perpetual gauges with optional distribution records (incl. the community-pool record); steps move the clock (small dt, exactly to the epoch end -1/0/+1/+2 ns, fractions of an epoch, gaps of several epochs followed by catch-up blocks), send coins between users / to receivers, fund the community pool, restart the node; every block is compared with the reference before/after the BeginBlocker and after the EndBlocker.",
		Assumptions: []string{
			"receivers are plain (non-module, non-vesting) addresses",
			"a hook that is rolled back because the vesting account cannot cover the developer share is a no-op in every respect, including the reduction bookkeeping: the reduction stays due",
			"the integer part is taken of the provision as stored by the keeper, which must equal the exact product within one unit of the 18th decimal per reduction",
		},
	}
}

const denom = simchain.BondDenom
const fundEach = int64(1_000_000_000_000)

var one18 = new(big.Int).Exp(big.NewInt(10), big.NewInt(18), nil)
var one36 = new(big.Int).Mul(one18, one18)

var idents = []string{"mintday", "day", "hour"}
var edurs = []int64{5, 7, 30, 60, 61, 90}

// splitUnit returns k positive integers summing to 10^18, multiples of grain.
func splitUnit(r *simcore.RNG, k int, grain int64) []int64 {
	units := int64(1_000_000_000_000_000_000) / grain
	a := make([]int64, k)
	var tot int64
	for i := range a {
		a[i] = r.Range(1, 1000)
		tot += a[i]
	}
	out := make([]int64, k)
	var used int64
	for i := 0; i < k-1; i++ {
		u := new(big.Int).Mul(big.NewInt(units), big.NewInt(a[i]))
		u.Div(u, big.NewInt(tot))
		v := u.Int64()
		if v < 1 {
			v = 1
		}
		out[i] = v
		used += v
	}
	out[k-1] = units - used
	if out[k-1] < 1 { // cannot happen for k <= units/2; keep the sum exact anyway
		out[k-1] = 1
		out[0] -= 1 - (units - used)
	}
	for i := range out {
		out[i] *= grain
	}
	return out
}

func (Engine) Generate(r *simcore.RNG, tier string, idx int) *simcore.Plan {
	p := &simcore.Plan{Config: map[string]int64{}}
	c := p.Config
	faults := idx%2 == 1
	if idx%4 == 3 {
		p.Config["spec"] = 60 + int64(idx/4%5)*60 // permille of blocks first executed speculatively on a discarded branch (simchain.Node.Spec)
	}
	c["accts"] = r.Range(2, 4)
	c["vals"] = r.Range(1, 3)
	c["edur"] = edurs[r.Intn(len(edurs))]
	c["ident"] = int64(r.Weighted([]int{6, 2, 2}))

	// proportions: staking, pool incentives, developer, community
	grains := []int64{1, 100_000_000_000_000, 10_000_000_000_000_000, 50_000_000_000_000_000}
	var live []int
	for len(live) == 0 {
		live = live[:0]
		for i := 0; i < 4; i++ {
			if r.Chance(0.75) {
				live = append(live, i)
			}
		}
	}
	prop := make([]int64, 4)
	if r.Chance(0.1) {
		prop = []int64{250_000_000_000_000_000, 450_000_000_000_000_000, 250_000_000_000_000_000, 50_000_000_000_000_000}
	} else {
		sh := splitUnit(r, len(live), grains[r.Intn(len(grains))])
		for j, i := range live {
			prop[i] = sh[j]
		}
	}
	c["ps"], c["pp"], c["pd"], c["pc"] = prop[0], prop[1], prop[2], prop[3]

	switch r.Weighted([]int{3, 3, 3, 2, 1, 8}) {
	case 0:
		c["rf"] = 1_000_000_000_000_000_000
	case 1:
		c["rf"] = 500_000_000_000_000_000
	case 2:
		c["rf"] = 666_666_666_666_666_666
	case 3:
		c["rf"] = 999_999_999_999_999_999
	case 4:
		c["rf"] = r.Range(1, 1000) // almost zero
	default:
		c["rf"] = r.Range(1, 1_000_000_000_000_000_000)
	}
	c["rp"] = r.Range(1, 8)
	c["start"] = r.Range(0, 5)

	// initial provision = p0i + p0f/10^18
	big15 := int64(1_000_000_000_000_000)
	wl := 1
	if faults {
		wl = 3
	}
	switch r.Weighted([]int{1, 2, 3, 8, wl, 1}) {
	case 0:
		c["p0i"] = 0
	case 1:
		c["p0i"] = r.Range(0, 2)
	case 2:
		c["p0i"] = r.Range(1, 1_000_000)
	case 3:
		c["p0i"] = r.Magnitude(0, 15).Int64()
	case 4: // the vesting account (225*10^12) runs dry within the run for most developer proportions
		c["p0i"] = r.Range(10_000_000_000_000, big15)
	default:
		c["p0i"] = big15
	}
	switch r.Weighted([]int{4, 4, 1, 1}) {
	case 0:
		c["p0f"] = 0
	case 1:
		c["p0f"] = r.Range(1, 999_999_999_999_999_999)
	case 2:
		c["p0f"] = 999_999_999_999_999_999
	default:
		c["p0f"] = r.Range(1, 9) * 100_000_000_000_000_000
	}
	if c["p0i"] == big15 {
		c["p0f"] = 0
	}

	// developer reward receivers: selector 0 = empty address, 1..4 = user account, >=5 fresh address
	nr := int(r.Weighted([]int{3, 3, 3, 2, 2, 1, 1}))
	c["nrecv"] = int64(nr)
	if nr > 0 {
		var ws []int64
		if nr == 3 && r.Chance(0.3) {
			ws = []int64{333_333_333_333_333_333, 333_333_333_333_333_333, 333_333_333_333_333_334}
		} else {
			ws = splitUnit(r, nr, grains[r.Intn(3)])
		}
		for i := 0; i < nr; i++ {
			c[fmt.Sprintf("rw%d", i)] = ws[i]
			c[fmt.Sprintf("ra%d", i)] = int64(r.Weighted([]int{2, 1, 1, 1, 1, 2, 2, 2}))
		}
	}

	// gauges and distribution records of pool-incentives
	ng := int(r.Weighted([]int{4, 2, 2, 1}))
	c["gauges"] = int64(ng)
	if r.Chance(0.3) {
		c["rec0"] = r.Range(1, 1000)
	}
	for g := 1; g <= ng; g++ {
		if r.Chance(0.8) {
			c[fmt.Sprintf("rec%d", g)] = r.Range(1, 1000)
		}
	}
	if r.Chance(0.1) {
		// distribution records that exist but weigh nothing (a governance proposal may install them): the whole
		// pool-incentives share then goes to the community pool, as without records
		c["reczero"] = 1
	}

	left := r.Range(5, 20)
	if r.Chance(0.4) {
		left = r.Range(5, 60)
	}
	for left > 0 {
		st := simcore.Step{}
		switch r.Weighted([]int{35, 12, 10, 10, 14, 5, 4, 5, 4}) {
		case 0: // to the end of the current epoch -1/0/+1/+2 ns
			off := []int64{-1, 0, 1, 1, 1, 2}[r.Intn(6)]
			st.Op, st.A = "tick", []int64{1, r.Range(1, 999), off}
			if off > 0 {
				left--
			}
		case 1:
			st.Op, st.A = "tick", []int64{0, r.Range(1, 5000), 0}
		case 2: // a fraction of the epoch duration
			st.Op, st.A = "tick", []int64{3, r.Range(1, 1500), 0}
			left--
		case 3: // gap of several epochs, then catch-up blocks
			k := r.Range(2, 6)
			st.Op, st.A = "tick", []int64{2, k, r.Range(0, 999)}
			p.Steps = append(p.Steps, st)
			st = simcore.Step{Op: "burst", A: []int64{k + r.Range(0, 2), r.Range(1, 2000)}}
			left -= k
		case 4:
			st.Op, st.A = "send", []int64{r.Range(0, 3), r.Range(0, 9), r.Range(1, 10000)}
		case 5:
			st.Op, st.A = "fund", []int64{r.Range(0, 3), r.Range(1, 1_000_000)}
		case 6:
			st.Op, st.A = "burst", []int64{r.Range(1, 6), r.Range(1, 3000)}
		case 7:
			if !faults {
				continue
			}
			st.Op, st.A = "restart", []int64{r.Range(1, 3000)}
		case 8:
			// governance changes the distribution records during the run: the incremental door (update: add, re-weigh,
			// remove by weight 0) or the wholesale one (replace)
			st.Op, st.A = "distr", []int64{r.Range(0, 3), r.Range(0, 3), []int64{0, 0, 1, 7, 300, 1000}[r.Intn(6)], r.Range(0, 3), []int64{0, 1, 50, 999}[r.Intn(4)]}
		}
		if faults && (st.Op == "send" || st.Op == "fund") && r.Chance(0.25) {
			if r.Chance(0.4) {
				st.F = "abort"
			} else {
				st.F = fmt.Sprintf("oog:%d", r.Range(1, 999))
			}
		}
		p.Steps = append(p.Steps, st)
	}
	return p
}

// ---- state snapshot ----

type snap struct {
	bal     map[string]*big.Int // denom balance of every account that holds any
	supOff  *big.Int            // reported supply: bank supply with offset
	cp18    *big.Int            // community pool accounting (FeePool), 18 decimals
	out18   *big.Int            // validators' outstanding rewards, 18 decimals
	prov18  *big.Int            // minter epoch provisions, 18 decimals
	epoch   int64
	epStart time.Time
	gauges  *big.Int // sum of the coins ever added to the gauges
}

func (s *snap) of(addr string) *big.Int {
	if v, ok := s.bal[addr]; ok {
		return v
	}
	return new(big.Int)
}

type receiver struct {
	addr string // "" = community pool
	w18  *big.Int
}

type world struct {
	run   *simcore.Run
	n     *simchain.Node
	ident string
	edur  time.Duration

	ps, pp, pd *big.Int // proportions, 18 decimals (community takes the rest)
	rf18       *big.Int
	period     int64
	start      int64
	recv       []receiver
	ngauges    int
	hasRecords bool
	hasRec0    bool
	weights    map[uint64]int64 // distribution records as the history of governance changes leaves them

	aFee, aDistr, aPI, aInc, aMint, aVest string

	// reference schedule
	refP       *big.Rat // exact provision, in units of 10^-18
	reductions int64
	lastRed    int64
	hookFailed bool

	stopped bool // an unknown violation was recorded: later state is not trustworthy

	last    *snap // after the last commit
	cur     *snap // inside the open block (after BeginBlocker)
	targets []sdk.AccAddress
}

func modAddr(name string) string { return authtypes.NewModuleAddress(name).String() }

func devAddr(i int64) sdk.AccAddress {
	h := sha256.Sum256([]byte(fmt.Sprintf("verif/dev/%d", i)))
	return sdk.AccAddress(h[:20])
}

func dec18(v int64) osmomath.Dec { return osmomath.NewDecWithPrec(v, 18) }

func (w *world) snapshot(ctx sdk.Context) *snap {
	a := w.n.App
	s := &snap{bal: map[string]*big.Int{}}
	a.BankKeeper.IterateAllBalances(ctx, func(addr sdk.AccAddress, coin sdk.Coin) bool {
		if coin.Denom == denom && !coin.Amount.IsZero() {
			s.bal[addr.String()] = coin.Amount.BigInt()
		}
		return false
	})
	s.supOff = a.BankKeeper.GetSupplyWithOffset(ctx, denom).Amount.BigInt()
	fp, err := a.DistrKeeper.FeePool.Get(ctx)
	if err != nil {
		panic(err)
	}
	s.cp18 = fp.CommunityPool.AmountOf(denom).BigInt()
	s.out18 = a.DistrKeeper.GetTotalRewards(ctx).AmountOf(denom).BigInt()
	s.prov18 = a.MintKeeper.GetMinter(ctx).EpochProvisions.BigInt()
	ei := a.EpochsKeeper.GetEpochInfo(ctx, w.ident)
	s.epoch, s.epStart = ei.CurrentEpoch, ei.CurrentEpochStartTime
	s.gauges = new(big.Int)
	for g := 1; g <= w.ngauges; g++ {
		gg, err := a.IncentivesKeeper.GetGaugeByID(ctx, uint64(g))
		if err != nil {
			panic(err)
		}
		s.gauges.Add(s.gauges, gg.Coins.AmountOf(denom).BigInt())
	}
	return s
}

func mulFloor(m, w18 *big.Int) *big.Int {
	x := new(big.Int).Mul(m, w18)
	return x.Quo(x, one18)
}

func sub(a, b *big.Int) *big.Int { return new(big.Int).Sub(a, b) }
func add(a, b *big.Int) *big.Int { return new(big.Int).Add(a, b) }

func fmt18(v *big.Int) string {
	q, r := new(big.Int).QuoRem(v, one18, new(big.Int))
	return fmt.Sprintf("%s.%018s", q, r.Abs(r))
}

func (Engine) Execute(run *simcore.Run) {
	p := run.Plan
	w := &world{run: run}
	accts := int(p.Cfg("accts", 3))
	w.ident = idents[int(p.Cfg("ident", 0))%len(idents)]
	w.edur = time.Duration(p.Cfg("edur", 60)) * time.Second
	if w.edur <= 0 {
		w.edur = 60 * time.Second
	}
	w.ps, w.pp, w.pd = big.NewInt(p.Cfg("ps", 0)), big.NewInt(p.Cfg("pp", 0)), big.NewInt(p.Cfg("pd", 0))
	// the shrinker may zero knobs: keep the sum at one by giving the difference to the community pool
	pc := 1_000_000_000_000_000_000 - p.Cfg("ps", 0) - p.Cfg("pp", 0) - p.Cfg("pd", 0)
	if pc < 0 {
		w.ps, w.pp, w.pd = big.NewInt(0), big.NewInt(0), big.NewInt(0)
		pc = 1_000_000_000_000_000_000
	}
	rf := p.Cfg("rf", 500_000_000_000_000_000)
	if rf <= 0 || rf > 1_000_000_000_000_000_000 {
		rf = 1_000_000_000_000_000_000
	}
	w.rf18 = big.NewInt(rf)
	w.period = p.Cfg("rp", 1)
	if w.period < 1 {
		w.period = 1
	}
	w.start = p.Cfg("start", 0)
	if w.start < 0 {
		w.start = 0
	}
	p0 := add(new(big.Int).Mul(big.NewInt(p.Cfg("p0i", 0)), one18), big.NewInt(p.Cfg("p0f", 0)))
	if p0.Sign() < 0 {
		p0 = new(big.Int)
	}
	w.refP = new(big.Rat).SetInt(p0)

	// receivers; weights must sum to one, otherwise (shrunk plan) drop the list
	nr := int(p.Cfg("nrecv", 0))
	var wsum int64
	var recvParams []minttypes.WeightedAddress
	for i := 0; i < nr; i++ {
		wt := p.Cfg(fmt.Sprintf("rw%d", i), 0)
		sel := p.Cfg(fmt.Sprintf("ra%d", i), 0)
		if wt <= 0 {
			wsum = -1
			break
		}
		wsum += wt
		addr := ""
		switch {
		case sel == 0:
		case sel <= 4:
			addr = sdk.AccAddress(simchain.AcctKey(int(sel-1) % accts).PubKey().Address()).String()
		default:
			addr = devAddr(sel).String()
		}
		w.recv = append(w.recv, receiver{addr: addr, w18: big.NewInt(wt)})
		recvParams = append(recvParams, minttypes.WeightedAddress{Address: addr, Weight: dec18(wt)})
	}
	if wsum != 1_000_000_000_000_000_000 {
		w.recv, recvParams = nil, []minttypes.WeightedAddress{}
	}
	w.ngauges = int(p.Cfg("gauges", 0))
	if w.ngauges < 0 || w.ngauges > 3 {
		w.ngauges = 0
	}

	mp := minttypes.Params{
		MintDenom:               denom,
		GenesisEpochProvisions:  osmomath.NewDecFromBigIntWithPrec(p0, 18),
		EpochIdentifier:         w.ident,
		ReductionPeriodInEpochs: w.period,
		ReductionFactor:         dec18(rf),
		DistributionProportions: minttypes.DistributionProportions{
			Staking: osmomath.NewDecFromBigIntWithPrec(w.ps, 18), PoolIncentives: osmomath.NewDecFromBigIntWithPrec(w.pp, 18),
			DeveloperRewards: osmomath.NewDecFromBigIntWithPrec(w.pd, 18), CommunityPool: dec18(pc),
		},
		WeightedDeveloperRewardsReceivers:    recvParams,
		MintingRewardsDistributionStartEpoch: w.start,
	}
	if err := mp.Validate(); err != nil {
		panic(fmt.Sprintf("generated mint params invalid: %v", err))
	}
	n := simchain.NewNode(simchain.Config{Accounts: accts, Validators: int(p.Cfg("vals", 1)), Fund: sdk.NewCoins(sdk.NewInt64Coin(denom, fundEach), sdk.NewInt64Coin("uion", 1_000_000)),
		Mutate: func(cdc codec.JSONCodec, gs app.GenesisState) {
			var mg minttypes.GenesisState
			cdc.MustUnmarshalJSON(gs[minttypes.ModuleName], &mg)
			mg.Params = mp
			mg.Minter = minttypes.NewMinter(mp.GenesisEpochProvisions)
			mg.ReductionStartedEpoch = 0
			gs[minttypes.ModuleName] = cdc.MustMarshalJSON(&mg)

			var eg epochstypes.GenesisState
			cdc.MustUnmarshalJSON(gs[epochstypes.ModuleName], &eg)
			found := false
			for i := range eg.Epochs {
				if eg.Epochs[i].Identifier == w.ident {
					eg.Epochs[i].Duration = w.edur
					found = true
				}
			}
			if !found {
				eg.Epochs = append(eg.Epochs, epochstypes.NewGenesisEpochInfo(w.ident, w.edur))
			}
			gs[epochstypes.ModuleName] = cdc.MustMarshalJSON(&eg)

			var pg poolincentivestypes.GenesisState
			cdc.MustUnmarshalJSON(gs[poolincentivestypes.ModuleName], &pg)
			pg.Params.MintedDenom = denom
			gs[poolincentivestypes.ModuleName] = cdc.MustMarshalJSON(&pg)

			var tg txfeestypes.GenesisState
			cdc.MustUnmarshalJSON(gs[txfeestypes.ModuleName], &tg)
			tg.Basedenom = denom
			gs[txfeestypes.ModuleName] = cdc.MustMarshalJSON(&tg)
		}})
	n.Spec = run.Plan.Cfg("spec", 0)
	defer func() {
		for i := 0; i < n.Specs; i++ {
			run.Fault("speculative-block-discarded")
		}
	}()
	w.n = n
	w.aFee, w.aDistr, w.aPI = modAddr(authtypes.FeeCollectorName), modAddr(distrtypes.ModuleName), modAddr(poolincentivestypes.ModuleName)
	w.aInc, w.aMint, w.aVest = modAddr(incentivestypes.ModuleName), modAddr(minttypes.ModuleName), modAddr(minttypes.DeveloperVestingModuleAcctName)
	for i := 0; i < accts; i++ {
		w.targets = append(w.targets, n.Accts[i])
	}
	for i := int64(5); i <= 7; i++ {
		w.targets = append(w.targets, devAddr(i))
	}

	ng := w.ngauges
	w.ngauges = 0 // no gauges exist yet
	w.last = w.snapshot(n.QueryCtx())
	if w.last.epoch != 1 {
		panic(fmt.Sprintf("epoch %q is at %d after genesis, expected 1", w.ident, w.last.epoch))
	}
	// height 2: gauges (by message) and distribution records (governance-only: through the keeper)
	if !w.begin(time.Second) {
		return
	}
	for g := 1; g <= ng; g++ {
		res := n.Deliver(&incentivestypes.MsgCreateGauge{IsPerpetual: true, Owner: n.Accts[0].String(),
			DistributeTo: lockuptypes.QueryCondition{LockQueryType: lockuptypes.ByDuration, Denom: "uion", Duration: time.Hour},
			StartTime:    n.Time, NumEpochsPaidOver: 1}, 0, false)
		if !res.OK() {
			panic(fmt.Sprintf("setup: create gauge: %v %v", res.Err, res.Panic))
		}
	}
	w.ngauges = ng
	w.weights = map[uint64]int64{}
	var recs []poolincentivestypes.DistrRecord
	if v := p.Cfg("rec0", 0); v > 0 {
		recs = append(recs, poolincentivestypes.DistrRecord{GaugeId: 0, Weight: osmomath.NewInt(v)})
		w.hasRec0 = true
	}
	for g := 1; g <= ng; g++ {
		if v := p.Cfg(fmt.Sprintf("rec%d", g), 0); v > 0 {
			recs = append(recs, poolincentivestypes.DistrRecord{GaugeId: uint64(g), Weight: osmomath.NewInt(v)})
		}
	}
	if p.Cfg("reczero", 0) == 1 {
		recs = []poolincentivestypes.DistrRecord{{GaugeId: 0, Weight: osmomath.ZeroInt()}}
		if ng >= 1 {
			recs = append(recs, poolincentivestypes.DistrRecord{GaugeId: 1, Weight: osmomath.ZeroInt()})
		}
		w.hasRec0 = false
		if err := n.App.PoolIncentivesKeeper.ReplaceDistrRecords(n.Ctx, recs...); err != nil {
			panic(fmt.Sprintf("setup: zero-weight distribution records: %v", err))
		}
		run.Probe("zero-weight-distribution-records")
	} else if len(recs) > 0 {
		if err := n.App.PoolIncentivesKeeper.ReplaceDistrRecords(n.Ctx, recs...); err != nil {
			panic(fmt.Sprintf("setup: distribution records: %v", err))
		}
		w.hasRecords = true
		for _, r := range recs {
			w.weights[r.GaugeId] = r.Weight.Int64()
		}
	}
	w.cur = w.snapshot(n.Ctx) // gauges now exist

	for i, st := range p.Steps {
		run.StepIdx = i
		switch st.Op {
		case "tick":
			if !w.end() {
				return
			}
			dt := time.Duration(1+st.Arg(1)) * time.Millisecond
			epEnd := w.last.epStart.Add(w.edur)
			switch st.Arg(0) {
			case 1:
				if d := epEnd.Sub(n.Time) + time.Duration(st.Arg(2)); d > 0 {
					dt = d
					if st.Arg(2) == 0 {
						run.Probe("block-exactly-at-epoch-end")
					}
				}
			case 2:
				dt = time.Duration(st.Arg(1))*w.edur + time.Duration(st.Arg(2))*time.Millisecond
				run.Fault("clock-gap")
			case 3:
				dt = w.edur * time.Duration(1+st.Arg(1)%1500) / 1000
			}
			if dt <= 0 {
				dt = 1
			}
			if !w.begin(dt) {
				return
			}
			run.Event("tick", "ok")
		case "burst":
			m := int(st.Arg(0))
			if m < 1 {
				m = 1
			}
			if m > 10 {
				m = 10
			}
			for j := 0; j < m; j++ {
				if !w.end() || !w.begin(time.Duration(1+st.Arg(1))*time.Millisecond) {
					return
				}
			}
			run.Event("burst", "ok")
		case "restart":
			if !w.end() {
				return
			}
			n.Restart()
			run.Fault("restart")
			if !w.begin(time.Duration(1+st.Arg(0)) * time.Millisecond) {
				return
			}
			run.Event("restart", "ok")
		case "distr":
			var recs []poolincentivestypes.DistrRecord
			g1, g2 := uint64(st.Arg(1))%uint64(w.ngauges+1), uint64(st.Arg(3))%uint64(w.ngauges+1)
			recs = append(recs, poolincentivestypes.DistrRecord{GaugeId: g1, Weight: osmomath.NewInt(st.Arg(2))})
			if st.Arg(0) >= 2 && g2 != g1 {
				recs = append(recs, poolincentivestypes.DistrRecord{GaugeId: g2, Weight: osmomath.NewInt(st.Arg(4))})
				sort.Slice(recs, func(i, j int) bool { return recs[i].GaugeId < recs[j].GaugeId })
			}
			replace := st.Arg(0) == 3
			cctx, write := n.Ctx.CacheContext()
			var err error
			if replace {
				err = n.App.PoolIncentivesKeeper.ReplaceDistrRecords(cctx, recs...)
			} else {
				err = n.App.PoolIncentivesKeeper.UpdateDistrRecords(cctx, recs...)
			}
			if err != nil {
				run.Event("distr", "refused")
				run.Logf("%d distr %v -> refused: %v", i, st.A, err)
				continue
			}
			write()
			if replace {
				w.weights = map[uint64]int64{}
			}
			for _, r := range recs {
				if r.Weight.IsZero() {
					if _, had := w.weights[r.GaugeId]; had && !replace {
						run.Probe("distribution-record-removed-by-zero-weight-update")
					}
					delete(w.weights, r.GaugeId)
				} else {
					w.weights[r.GaugeId] = r.Weight.Int64()
				}
			}
			w.hasRec0 = w.weights[0] > 0
			w.hasRecords = len(w.weights) > 0
			run.Event("distr", "ok")
			run.Probe("distribution-records-changed-by-governance")
			run.Logf("%d distr %v replace=%v -> weights %v", i, st.A, replace, w.weights)
			w.cur = w.snapshot(n.Ctx)
		case "send", "fund":
			from := n.Accts[int(st.Arg(0))%accts]
			bal := n.Balance(n.Ctx, from, denom)
			var msg sdk.Msg
			if st.Op == "send" {
				to := w.targets[int(st.Arg(1))%len(w.targets)]
				amt := bal.MulRaw(st.Arg(2) % 10001).QuoRaw(10000)
				if !amt.IsPositive() || to.Equals(from) {
					run.Event(st.Op, "skip")
					continue
				}
				msg = &banktypes.MsgSend{FromAddress: from.String(), ToAddress: to.String(), Amount: sdk.NewCoins(sdk.NewCoin(denom, amt))}
			} else {
				amt := osmomath.NewInt(1 + st.Arg(1))
				if amt.GT(bal) {
					run.Event(st.Op, "skip")
					continue
				}
				msg = &distrtypes.MsgFundCommunityPool{Amount: sdk.NewCoins(sdk.NewCoin(denom, amt)), Depositor: from.String()}
			}
			fk, fa := simcore.ParseFault(st.F)
			res := n.DeliverFault(msg, fk, fa)
			run.Event(st.Op, res.Outcome)
			run.Logf("%d %s %v f=%s -> %s gas=%d", i, st.Op, st.A, st.F, res.Outcome, res.GasUsed)
			switch res.Outcome {
			case "oog", "abort":
				run.Fault(res.Outcome)
			case "panic":
				run.Fail("C18", "msg-panics", st.Op, "%s panicked: %v", st.Op, res.Panic)
				return
			case "err", "invalid":
				run.Fail("C18", "must-succeed", st.Op, "%s failed: %v", st.Op, res.Err)
				return
			}
			if !w.quiet(w.cur, w.snapshot(n.Ctx), st.Op) {
				return
			}
		}
		if w.stopped {
			return
		}
	}
	w.end()
}

// begin opens the next block dt later and checks what the BeginBlocker did.
func (w *world) begin(dt time.Duration) bool {
	n, run := w.n, w.run
	if pv := n.BeginBlock(dt); pv != nil {
		run.Fail("C18", "chain-halt", "begin-block", "BeginBlocker panicked at height %d: %v", n.Height, pv)
		return false
	}
	run.Blocks++
	run.SimNanos += int64(dt)
	w.cur = w.snapshot(n.Ctx)
	return w.checkBegin(w.last, w.cur)
}

// end closes the open block and checks that the EndBlocker left supply,
// mint account and provision alone.
func (w *world) end() bool {
	n, run := w.n, w.run
	if pv := n.EndBlock(); pv != nil {
		run.Fail("C18", "chain-halt", "end-block", "EndBlocker panicked at height %d: %v", n.Height+1, pv)
		return false
	}
	s := w.snapshot(n.QueryCtx())
	ok := w.quiet(w.cur, s, "end-block")
	w.last = s
	return ok
}

// quiet: between mint epoch ends the reported supply, the mint account, the
// provision and the epoch counter do not move.
func (w *world) quiet(a, b *snap, sig string) bool {
	run := w.run
	if b.supOff.Cmp(a.supOff) != 0 {
		run.Fail("C18", "supply-moves-between-epochs", sig, "height %d: supply with offset went from %s to %s with no mint epoch ending", w.n.Height, a.supOff, b.supOff)
		return false
	}
	if b.of(w.aMint).Sign() != 0 {
		run.Fail("C18", "mint-account-not-empty", sig, "height %d: mint module account holds %s%s", w.n.Height, b.of(w.aMint), denom)
		return false
	}
	if b.prov18.Cmp(a.prov18) != 0 {
		run.Fail("C18", "provision-changes-between-epochs", sig, "height %d: epoch provision went from %s to %s with no mint epoch ending", w.n.Height, fmt18(a.prov18), fmt18(b.prov18))
		return false
	}
	if b.epoch != a.epoch {
		run.Fail("C18", "epoch-moves-outside-begin-block", sig, "height %d: epoch counter went from %d to %d", w.n.Height, a.epoch, b.epoch)
		return false
	}
	return true
}

// unchanged reports the first difference between two snapshots ("" if none).
func (w *world) unchanged(a, b *snap, ignore map[string]bool) string {
	keys := map[string]bool{}
	for k := range a.bal {
		keys[k] = true
	}
	for k := range b.bal {
		keys[k] = true
	}
	var ks []string
	for k := range keys {
		ks = append(ks, k)
	}
	sort.Strings(ks)
	for _, k := range ks {
		if ignore[k] {
			continue
		}
		if a.of(k).Cmp(b.of(k)) != 0 {
			return fmt.Sprintf("balance of %s went from %s to %s", w.name(k), a.of(k), b.of(k))
		}
	}
	if a.supOff.Cmp(b.supOff) != 0 {
		return fmt.Sprintf("supply with offset went from %s to %s", a.supOff, b.supOff)
	}
	if a.prov18.Cmp(b.prov18) != 0 {
		return fmt.Sprintf("epoch provision went from %s to %s", fmt18(a.prov18), fmt18(b.prov18))
	}
	return ""
}

func (w *world) name(addr string) string {
	switch addr {
	case w.aFee:
		return "fee_collector"
	case w.aDistr:
		return "distribution"
	case w.aPI:
		return "pool-incentives"
	case w.aInc:
		return "incentives"
	case w.aMint:
		return "mint"
	case w.aVest:
		return "developer_vesting_unvested"
	}
	return addr
}

// sweepIgnore: apart from the periodic sweep of the whole fee collector balance
// into the distribution module nothing may move in a BeginBlocker that mints
// nothing; when exactly that sweep happened, the two accounts are exempted.
func (w *world) sweepIgnore(a, b *snap) map[string]bool {
	f0, f1 := a.of(w.aFee), b.of(w.aFee)
	if f1.Sign() == 0 && f0.Sign() > 0 && sub(b.of(w.aDistr), a.of(w.aDistr)).Cmp(f0) == 0 {
		return map[string]bool{w.aFee: true, w.aDistr: true}
	}
	return nil
}

func (w *world) checkBegin(a, b *snap) bool {
	run, n := w.run, w.n
	fail := func(oracle, sig, format string, args ...interface{}) bool {
		// false = stop the run; a known finding is recorded by the core and the run goes on
		nv := len(run.Viol)
		run.Fail("C18", oracle, sig, "height %d, mint epoch %d ending: "+format, append([]interface{}{n.Height, a.epoch}, args...)...)
		if len(run.Viol) > nv {
			w.stopped = true
			return false
		}
		return true
	}
	if b.epoch == a.epoch {
		if !w.quiet(a, b, "begin-block") {
			return false
		}
		if d := w.unchanged(a, b, w.sweepIgnore(a, b)); d != "" {
			run.Fail("C18", "coins-move-between-epochs", "begin-block", "height %d: no mint epoch ended but %s", n.Height, d)
			return false
		}
		run.Logf("b h=%d t=%s ep=%d sup=%s hash=%x", n.Height, n.Time.Sub(simchain.GenesisTime), b.epoch, b.supOff, n.LastAppHash[:6])
		return true
	}
	if b.epoch != a.epoch+1 {
		run.Fail("C18", "epoch-skips", "begin-block", "height %d: epoch counter went from %d to %d in one block", n.Height, a.epoch, b.epoch)
		return false
	}
	ep := a.epoch // number of the epoch that ended
	if lag := n.Time.Sub(a.epStart.Add(w.edur)); lag >= 2*w.edur {
		run.Probe("catch-up-lag>=2-epochs")
	}
	f0, f1 := a.of(w.aFee), b.of(w.aFee)
	d0, d1 := a.of(w.aDistr), b.of(w.aDistr)
	G := sub(b.supOff, a.supOff)

	if ep < w.start {
		if d := w.unchanged(a, b, w.sweepIgnore(a, b)); d != "" {
			run.Fail("C18", "mints-before-start-epoch", "epoch-end", "height %d: epoch %d < start epoch %d ended but %s", n.Height, ep, w.start, d)
			return false
		}
		run.Probe("epoch-before-start-is-noop")
		run.Event("epoch-end", "before-start")
		run.Logf("e h=%d ep=%d before-start sup=%s hash=%x", n.Height, ep, b.supOff, n.LastAppHash[:6])
		return true
	}

	// ---- reference schedule ----
	// A reduction is due once a full period of epochs has passed since the start
	// epoch or the last reduction. (A rolled-back hook leaves no trace, so the
	// reduction stays due; until the first rolled-back hook this is the closed
	// form "epoch = start + k*period, k >= 1", asserted below.)
	lastRed := w.lastRed
	if ep == w.start {
		lastRed = ep
	}
	due := ep-lastRed >= w.period
	if !w.hookFailed {
		closed := ep > w.start && (ep-w.start)%w.period == 0
		if closed != due {
			panic(fmt.Sprintf("reference schedule inconsistent at epoch %d (start %d period %d lastRed %d)", ep, w.start, w.period, lastRed))
		}
	}
	// exact product (units 10^-36) and the integer parts compatible with one
	// rounding of the 18-digit decimal multiplication
	var mLo, mHi *big.Int
	num := new(big.Int).Mul(a.prov18, one18)
	if due {
		num = new(big.Int).Mul(a.prov18, w.rf18)
		lo := sub(num, one18)
		if lo.Sign() < 0 {
			lo = new(big.Int)
		}
		mLo, mHi = lo.Quo(lo, one36), new(big.Int).Quo(add(num, one18), one36)
	} else {
		mLo = new(big.Int).Quo(a.prov18, one18)
		mHi = mLo
	}
	v0 := a.of(w.aVest)
	canSucceed := mulFloor(mLo, w.pd).Cmp(v0) <= 0
	canFail := mulFloor(mHi, w.pd).Cmp(v0) > 0
	expectFail := !canSucceed
	if canSucceed && canFail { // within one rounding unit of the boundary: take what happened
		expectFail = G.Sign() == 0 && b.prov18.Cmp(a.prov18) == 0
	}
	if expectFail {
		// documented containment: the epochs hook wrapper rolls the whole subscriber back
		if d := w.unchanged(a, b, w.sweepIgnore(a, b)); d != "" {
			run.Fail("C18", "failed-hook-not-rolled-back", "vesting-short", "height %d epoch %d: the developer share %s exceeds the vesting balance %s, the hook must be a no-op, but %s", n.Height, ep, mulFloor(mLo, w.pd), v0, d)
			return false
		}
		w.hookFailed = true
		run.Probe("hook-rolled-back-vesting-short")
		if ep == w.start {
			run.Probe("start-epoch-hook-rolled-back")
		}
		if due {
			run.Probe("reduction-deferred-by-rolled-back-hook")
		}
		run.Fault("hook-rollback")
		run.Event("epoch-end", "rolled-back")
		run.Logf("e h=%d ep=%d rolled-back vest=%s sup=%s hash=%x", n.Height, ep, v0, b.supOff, n.LastAppHash[:6])
		return true
	}

	// ---- provision ----
	if due {
		diff := sub(new(big.Int).Mul(b.prov18, one18), num)
		if diff.CmpAbs(one18) > 0 {
			return fail("reduction-missing-or-wrong", "reduction-epoch", "a reduction is due (start %d, period %d): provision %s times factor %s must give %s (+-1e-18), keeper has %s", w.start, w.period, fmt18(a.prov18), fmt18(w.rf18), fmt18(new(big.Int).Quo(num, one18)), fmt18(b.prov18))
		}
		run.Max("max/reduction-rounding-1e-21", new(big.Int).Quo(diff.Abs(diff), big.NewInt(1_000_000_000_000_000)).Int64())
		w.refP.Mul(w.refP, new(big.Rat).SetFrac(w.rf18, one18))
		w.reductions++
		lastRed = ep
		run.Probe("reduction-applied")
	} else if b.prov18.Cmp(a.prov18) != 0 {
		return fail("reduction-at-wrong-epoch", "non-reduction-epoch", "no reduction is due (start %d, period %d, last reduction %d) but the provision went from %s to %s", w.start, w.period, lastRed, fmt18(a.prov18), fmt18(b.prov18))
	}
	w.lastRed = lastRed
	// accumulated distance from the exact schedule: at most one unit of the 18th decimal per reduction
	dist := new(big.Rat).Sub(new(big.Rat).SetInt(b.prov18), w.refP)
	if dist.Abs(dist).Cmp(new(big.Rat).SetInt64(w.reductions)) > 0 {
		return fail("provision-off-schedule", "epoch-end", "keeper provision %s differs from the exact schedule %s by more than %d units of 1e-18", fmt18(b.prov18), w.refP.FloatString(3), w.reductions)
	}

	// ---- amounts ----
	M := new(big.Int).Quo(b.prov18, one18) // integer part of the current provision
	S, PI, DEV := mulFloor(M, w.ps), mulFloor(M, w.pp), mulFloor(M, w.pd)
	perAddr := map[string]*big.Int{}
	devToCommunity := new(big.Int)
	paid := new(big.Int)
	if len(w.recv) == 0 {
		devToCommunity.Set(DEV)
		paid.Set(DEV)
		if DEV.Sign() > 0 {
			run.Probe("no-receivers-dev-share-to-community")
		}
	} else {
		for _, r := range w.recv {
			x := mulFloor(DEV, r.w18)
			paid.Add(paid, x)
			if r.addr == "" {
				devToCommunity.Add(devToCommunity, x)
				if x.Sign() > 0 {
					run.Probe("empty-address-share-to-community")
				}
			} else {
				if perAddr[r.addr] == nil {
					perAddr[r.addr] = new(big.Int)
				}
				perAddr[r.addr].Add(perAddr[r.addr], x)
			}
		}
	}
	leftover := sub(DEV, paid) // developer share not attributable to any receiver by truncation
	if M.Sign() == 0 {
		run.Probe("provision-below-one")
	}

	// (1) reported supply grows by exactly the integer part of the provision
	if G.Cmp(M) != 0 {
		if leftover.Sign() > 0 && G.Cmp(sub(M, leftover)) == 0 {
			// The rest of the epoch is still checked and the run goes on (the remainder
			// of the ledger is measured against what really entered circulation), so
			// that this finding cannot hide a different one later in the same run.
			run.Fail("C18", "supply-growth", "dev-weight-truncation", "height %d epoch %d: provision %s, integer part %s, but supply with offset grew by %s: the developer share %s split by weights pays out only %s, the other %s stays in the vesting account and is allocated to nobody", n.Height, ep, fmt18(b.prov18), M, G, DEV, paid, leftover)
		} else {
			nv := len(run.Viol)
			run.Fail("C18", "supply-growth", "epoch-end", "height %d epoch %d: provision %s, integer part %s, but supply with offset grew by %s", n.Height, ep, fmt18(b.prov18), M, G)
			if len(run.Viol) > nv {
				w.stopped = true
				return false
			}
		}
	}
	if leftover.Sign() > 0 {
		run.Probe("dev-weight-truncation-leftover")
	}
	// (2) mint account empty
	if b.of(w.aMint).Sign() != 0 {
		return fail("mint-account-not-empty", "epoch-end", "mint module account holds %s after distribution", b.of(w.aMint))
	}
	// (3) what is in circulation is what is reported: all accounts but the vesting account
	circ := new(big.Int)
	keys := map[string]bool{}
	for k := range a.bal {
		keys[k] = true
	}
	for k := range b.bal {
		keys[k] = true
	}
	var ks []string
	for k := range keys {
		ks = append(ks, k)
	}
	sort.Strings(ks)
	expected := map[string]bool{w.aFee: true, w.aDistr: true, w.aPI: true, w.aInc: true, w.aVest: true}
	for k := range perAddr {
		expected[k] = true
	}
	for _, k := range ks {
		d := sub(b.of(k), a.of(k))
		if k != w.aVest {
			circ.Add(circ, d)
		}
		if d.Sign() != 0 && !expected[k] {
			return fail("unexpected-recipient", "epoch-end", "balance of %s changed by %s", w.name(k), d)
		}
	}
	if circ.Cmp(G) != 0 {
		return fail("closed-ledger", "epoch-end", "balances outside the vesting account grew by %s in total, supply with offset by %s", circ, G)
	}
	// (4) developer receivers
	var rks []string
	for k := range perAddr {
		rks = append(rks, k)
	}
	sort.Strings(rks)
	nonCommunityDev := new(big.Int)
	for _, k := range rks {
		nonCommunityDev.Add(nonCommunityDev, perAddr[k])
		if d := sub(b.of(k), a.of(k)); d.Cmp(perAddr[k]) != 0 {
			return fail("dev-receiver-share", "epoch-end", "receiver %s got %s, its weighted part of the developer share %s is %s", k, d, DEV, perAddr[k])
		}
	}
	// (5) staking share -> fee collector (swept into the distribution module every so many blocks)
	drained := new(big.Int)
	want := add(f0, S)
	if f1.Cmp(want) != 0 {
		if f1.Sign() == 0 {
			drained = want
			run.Probe("fee-collector-swept-in-epoch-block")
		} else {
			return fail("staking-share", "epoch-end", "fee collector went from %s to %s, staking share of %s is %s", f0, f1, M, S)
		}
	}
	// (6) pool-incentives share and its onward allocation
	avail := add(a.of(w.aPI), PI)
	pi1 := b.of(w.aPI)
	dInc := sub(b.of(w.aInc), a.of(w.aInc))
	x := sub(sub(avail, pi1), dInc) // went from pool-incentives to the community pool
	if dInc.Sign() < 0 || x.Sign() < 0 {
		return fail("pool-incentives-share", "epoch-end", "pool-incentives had %s to allocate (share %s), keeps %s, incentives module changed by %s", avail, PI, pi1, dInc)
	}
	switch {
	case !w.hasRecords:
		if pi1.Sign() != 0 || dInc.Sign() != 0 {
			return fail("pool-incentives-share", "no-records", "without distribution records all of %s goes to the community pool, but pool-incentives keeps %s and incentives got %s", avail, pi1, dInc)
		}
	case !w.hasRec0:
		if x.Sign() != 0 {
			return fail("pool-incentives-share", "gauge-records", "pool-incentives had %s to allocate (share %s) to gauges only, keeps %s, incentives module got %s: %s unaccounted", avail, PI, pi1, dInc, x)
		}
	default:
		if x.Sign() > 0 {
			run.Probe("pool-incentives-community-record")
		}
	}
	if dg := sub(b.gauges, a.gauges); dg.Cmp(dInc) != 0 {
		return fail("pool-incentives-share", "gauges", "incentives module got %s but the gauges were credited %s", dInc, dg)
	}
	if dInc.Sign() > 0 {
		run.Probe("gauges-credited")
	}
	// (7) community pool takes the rest of what went into circulation
	C := sub(sub(sub(G, S), PI), nonCommunityDev)
	wantD := add(add(C, x), drained)
	if dd := sub(d1, d0); dd.Cmp(wantD) != 0 {
		return fail("community-remainder", "epoch-end", "distribution module account grew by %s; expected remainder %s (= %s - staking %s - pool incentives %s - receivers %s) + from pool-incentives %s + swept fees %s", dd, C, G, S, PI, nonCommunityDev, x, drained)
	}
	dOut := sub(b.out18, a.out18)
	dCP := sub(b.cp18, a.cp18)
	if dOut.Sign() < 0 || add(dCP, dOut).Cmp(new(big.Int).Mul(wantD, one18)) != 0 || dOut.Cmp(new(big.Int).Mul(drained, one18)) > 0 {
		return fail("community-remainder", "fee-pool", "community pool accounting grew by %s and outstanding rewards by %s, the distribution module account by %s", fmt18(dCP), fmt18(dOut), wantD)
	}
	if devToCommunity.Sign() > 0 || C.Sign() > 0 {
		run.Probe("community-pool-funded")
	}
	for _, z := range []*big.Int{w.ps, w.pp, w.pd} {
		if z.Sign() == 0 {
			run.Probe("zero-proportion")
			break
		}
	}
	run.Event("epoch-end", "ok")
	run.Logf("e h=%d t=%s ep=%d prov=%s minted=%s S=%s PI=%s DEV=%s paid=%s C=%s sup=%s hash=%x", n.Height, n.Time.Sub(simchain.GenesisTime), ep, fmt18(b.prov18), M, S, PI, DEV, paid, C, b.supOff, n.LastAppHash[:6])
	return true
}
