module verif/harness

go 1.23.4

require (
	github.com/osmosis-labs/osmosis/v31 v31.0.0
)
