package statik
