// sim-classic: L1 simulator binary for the classic-pool engine (C02, C04).
package main

import (
	"os"
	"runtime/pprof"

	_ "verif/harness/engines/classic"
	"verif/harness/simchain"
	"verif/harness/simcore"
)

func main() {
	stop := func() {}
	if pf := os.Getenv("CLASSIC_PPROF"); pf != "" && len(os.Args) > 1 && os.Args[1] == "worker" {
		if f, err := os.Create(pf); err == nil {
			pprof.StartCPUProfile(f)
			stop = func() { pprof.StopCPUProfile(); f.Close() }
		}
	}
	simcore.AtExit = func() { stop(); simchain.Cleanup() }
	base := 0
	simcore.ShouldRecycle = func() bool {
		return simchain.AppsBuilt()-base >= 400
	}
	simcore.Main()
}
