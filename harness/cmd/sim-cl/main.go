package main

import (
	_ "verif/harness/engines/cl"
	"verif/harness/simchain"
	"verif/harness/simcore"
)

func main() {
	simcore.AtExit = simchain.Cleanup
	simcore.ShouldRecycle = func() bool { return simchain.AppsBuilt() >= 400 }
	simcore.Main()
}
