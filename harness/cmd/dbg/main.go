package main

import (
	"fmt"

	"github.com/osmosis-labs/osmosis/osmomath"
	"github.com/osmosis-labs/osmosis/osmoutils/sumtree"
	"verif/harness/simlib"
)

func main() {
	s := simlib.NewBaseStore()
	t := sumtree.NewTree(s, 2)
	k := func(x string) []byte { return []byte(x) }
	type op struct{ o, k string; v int64 }
	ops := []op{{"set", "\x00\x00\x03", 7}, {"set", "\x00", 0}, {"set", "\x00\x00\x4e", 3}, {"set", "\x00\x00", 9}, {"set", "b", -4}, {"rm", "\x00\x00\x4e", 0}, {"rm", "\x00\x00\x03", 0}, {"set", "abc", 5}}
	for _, o := range ops {
		if o.o == "set" {
			t.Set(k(o.k), osmomath.NewInt(o.v))
		} else {
			t.Remove(k(o.k))
		}
		fmt.Printf("after %s %q\n", o.o, o.k)
		t.DebugVisualize()
	}
	fmt.Println(t.PrefixSum(k("a")))
}
