// sim-router: L1 simulator binary with only the router engine (C05).
package main

import (
	"os"

	_ "verif/harness/engines/router"
	"verif/harness/simchain"
	"verif/harness/simcore"
)

func main() {
	if len(os.Args) > 1 && os.Args[1] == "probe" {
		simchain.Probe()
		simchain.Cleanup()
		return
	}
	simcore.AtExit = simchain.Cleanup
	base := 0
	simcore.ShouldRecycle = func() bool {
		return simchain.AppsBuilt()-base >= 400
	}
	simcore.Main()
}
