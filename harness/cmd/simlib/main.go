// simlib: L0 simulator binary (sum-tree, accumulator, epochs engines).
package main

import (
	"verif/harness/simcore"
	_ "verif/harness/simlib"
)

func main() { simcore.Main() }
