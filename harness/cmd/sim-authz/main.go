// sim-authz: simulator binary for the C20 (authz) engine only.
package main

import (
	_ "verif/harness/engines/authz"
	"verif/harness/simchain"
	"verif/harness/simcore"
)

func main() {
	simcore.AtExit = simchain.Cleanup
	base := 0
	simcore.ShouldRecycle = func() bool {
		return simchain.AppsBuilt()-base >= 400
	}
	simcore.Main()
}
