// sim-mint: L1 simulator binary for the mint engine (C18).
package main

import (
	_ "verif/harness/engines/mint"
	"verif/harness/simchain"
	"verif/harness/simcore"
)

func main() {
	simcore.AtExit = simchain.Cleanup
	base := 0
	simcore.ShouldRecycle = func() bool {
		return simchain.AppsBuilt()-base >= 400
	}
	simcore.Main()
}
