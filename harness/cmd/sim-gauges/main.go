// sim-gauges: L1 simulator binary with only the gauges (C09) engine.
package main

import (
	_ "verif/harness/engines/gauges"
	"verif/harness/simchain"
	"verif/harness/simcore"
)

func main() {
	simcore.AtExit = simchain.Cleanup
	base := 0
	simcore.ShouldRecycle = func() bool {
		return simchain.AppsBuilt()-base >= 400
	}
	simcore.Main()
}
