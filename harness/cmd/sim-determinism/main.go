// sim-determinism: L2 simulator binary (replica set over the real BaseApp path), engine "determinism" (C19).
package main

import (
	"encoding/json"
	"fmt"
	"os"
	"strconv"

	_ "verif/harness/engines/determinism"
	"verif/harness/simchain"
	"verif/harness/simcore"
	"verif/harness/simnet"
)

func main() {
	if len(os.Args) > 1 && os.Args[1] == "probe" {
		simnet.Probe()
		simchain.Cleanup()
		return
	}
	if len(os.Args) > 3 && os.Args[1] == "gen" { // gen <seed> <idx>: print the plan of run idx of a batch
		seed, _ := strconv.ParseUint(os.Args[2], 10, 64)
		idx, _ := strconv.Atoi(os.Args[3])
		e := simcore.EngineByName("determinism")
		rs := simcore.Mix(seed, e.Name(), uint64(idx))
		p := e.Generate(simcore.NewRNG(rs), "quick", idx)
		p.Engine, p.Seed = e.Name(), rs
		b, _ := json.Marshal(p)
		fmt.Println(string(b))
		return
	}
	simcore.AtExit = simchain.Cleanup
	simcore.ShouldRecycle = func() bool { return simchain.AppsBuilt() >= 300 }
	simcore.Main()
}
