// simchain: L1/L2 simulator binary (full OsmosisApp engines).
package main

import (
	"os"

	_ "verif/harness/engines/authz"
	_ "verif/harness/engines/cl"
	_ "verif/harness/engines/classic"
	_ "verif/harness/engines/determinism"
	_ "verif/harness/engines/gauges"
	_ "verif/harness/engines/lockup"
	_ "verif/harness/engines/mint"
	_ "verif/harness/engines/router"
	_ "verif/harness/engines/superfluid"
	_ "verif/harness/engines/twap"
	"verif/harness/simchain"
	"verif/harness/simcore"
)

func main() {
	if len(os.Args) > 1 && os.Args[1] == "probe" {
		simchain.Probe()
		simchain.Cleanup()
		return
	}
	simcore.AtExit = simchain.Cleanup
	base := 0
	simcore.ShouldRecycle = func() bool {
		if simchain.AppsBuilt()-base >= 400 {
			return true
		}
		return false
	}
	simcore.Main()
}
