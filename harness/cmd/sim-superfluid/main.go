// sim-superfluid: L1 simulator binary with the superfluid (C11) engine only.
package main

import (
	"os"

	_ "verif/harness/engines/superfluid"
	"verif/harness/simchain"
	"verif/harness/simcore"
)

func main() {
	if len(os.Args) > 1 && os.Args[1] == "probe" {
		simchain.Probe()
		simchain.Cleanup()
		return
	}
	simcore.AtExit = simchain.Cleanup
	base := 0
	simcore.ShouldRecycle = func() bool {
		if simchain.AppsBuilt()-base >= 400 {
			return true
		}
		return false
	}
	simcore.Main()
}
