package main

import (
	"fmt"

	"github.com/osmosis-labs/osmosis/v31/app"
)

func main() {
	a := app.Setup(false)
	fmt.Println("ok", a.LastBlockHeight())
}
