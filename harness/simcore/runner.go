package simcore

import (
	"bufio"
	"encoding/json"
	"flag"
	"fmt"
	"os"
	"os/exec"
	"path/filepath"
	"runtime"
	"runtime/pprof"
	"sort"
	"strconv"
	"strings"
	"time"
)

// Root is where MANIFEST.json, evidence/, replays/ and known_findings.jsonl live.
func Root() string {
	if r := os.Getenv("VERIF_ROOT"); r != "" {
		return r
	}
	return "/verif"
}

const (
	ExitOK        = 0
	ExitViolation = 1
	ExitHarness   = 2
)

type knownEntry struct {
	Status   string `json:"status"` // "open" or "fixed"
	Property string `json:"property"`
	Oracle   string `json:"oracle"`
	Sig      string `json:"sig"`
	What     string `json:"what"`
	Commit   string `json:"commit,omitempty"`
}

func loadKnown() (open map[string]bool, entries []knownEntry) {
	open = map[string]bool{}
	f, err := os.Open(filepath.Join(Root(), "known_findings.jsonl"))
	if err != nil {
		return
	}
	defer f.Close()
	sc := bufio.NewScanner(f)
	sc.Buffer(make([]byte, 1<<20), 1<<20)
	for sc.Scan() {
		line := strings.TrimSpace(sc.Text())
		if line == "" || strings.HasPrefix(line, "#") {
			continue
		}
		var k knownEntry
		if json.Unmarshal([]byte(line), &k) != nil {
			continue
		}
		entries = append(entries, k)
		if k.Status == "open" {
			open[k.Property+"/"+k.Oracle+"/"+k.Sig] = true
		}
	}
	return
}

// IsKnown tells whether an open known finding with this key is on file (engines use it to decide whether a
// run can go on after reporting; it never suppresses a report).
func IsKnown(prop, oracle, sig string) bool {
	open, _ := loadKnown()
	return open[prop+"/"+oracle+"/"+sig]
}

type failure struct {
	RunIdx int       `json:"run_idx"`
	Plan   *Plan     `json:"plan"`
	V      Violation `json:"v"`
}

type workerResult struct {
	Runs       int              `json:"runs"`
	Nontrivial int              `json:"nontrivial"`
	FPs        []uint64         `json:"fps"`
	Counters   map[string]int64 `json:"counters"`
	SimSecs    float64          `json:"sim_secs"` // seconds, as a float: summed over a batch the nanoseconds overflow int64 (epochs engine)
	Blocks     int64            `json:"blocks"`
	Steps      int64            `json:"steps"`
	Failures   []failure        `json:"failures"`
	KnownHits  []Violation      `json:"known_hits"`
	Samples    []*Plan          `json:"samples"`
	HarnessErr string           `json:"harness_err"`
	NextIdx    int              `json:"next_idx"` // >0: the process recycled itself; resume from this run index
	TimedOut   bool             `json:"timed_out"`
	Hashes     []string         `json:"hashes,omitempty"`
}

func mergeCounters(dst, src map[string]int64) {
	for k, v := range src {
		if strings.HasPrefix(k, "max/") {
			if v > dst[k] {
				dst[k] = v
			}
		} else {
			dst[k] += v
		}
	}
}

func propSet(props string) map[string]bool {
	if props == "" {
		return nil
	}
	m := map[string]bool{}
	for _, p := range strings.Split(props, ",") {
		m[p] = true
	}
	return m
}

// minOkOps is the threshold for a run to count as non-trivial.
const minOkOps = 3

func runWorker(e Engine, props map[string]bool, tier string, seed uint64, from, stride, count int, deadline time.Time, wantHashes bool) *workerResult {
	known, _ := loadKnown()
	res := &workerResult{Counters: map[string]int64{}}
	seen := map[uint64]bool{}
	for i := from; i < count; i += stride {
		if time.Now().After(deadline) {
			res.TimedOut = true
			break
		}
		rs := Mix(seed, e.Name(), uint64(i))
		plan := e.Generate(NewRNG(rs), tier, i)
		plan.Engine = e.Name()
		plan.Seed = rs
		run, herr := ExecOnce(e, plan, props, known, false)
		if herr != nil {
			res.HarnessErr = fmt.Sprintf("run %d seed %d: harness panic: %v", i, rs, herr)
			pf := filepath.Join(Root(), "replays", fmt.Sprintf("harness-error-%s-%d.json", e.Name(), rs))
			os.MkdirAll(filepath.Dir(pf), 0o755)
			plan.Note = res.HarnessErr
			plan.Save(pf)
			break
		}
		res.Runs++
		res.Steps += int64(len(plan.Steps))
		res.SimSecs += float64(run.SimNanos) / 1e9
		res.Blocks += run.Blocks
		mergeCounters(res.Counters, run.Counters)
		if wantHashes {
			res.Hashes = append(res.Hashes, fmt.Sprintf("%d:%s", i, run.TraceHash()))
		}
		if run.OkOps >= minOkOps {
			res.Nontrivial++
			fp := run.Fingerprint()
			if !seen[fp] {
				seen[fp] = true
				res.FPs = append(res.FPs, fp)
			}
		}
		if len(res.Samples) < 1 && run.OkOps >= minOkOps {
			res.Samples = append(res.Samples, plan)
		}
		for _, k := range run.KnownHits {
			if len(res.KnownHits) < 8 {
				res.KnownHits = append(res.KnownHits, k)
			}
		}
		if len(run.Viol) > 0 && len(res.Failures) < 3 {
			res.Failures = append(res.Failures, failure{RunIdx: i, Plan: plan, V: run.Viol[0]})
		}
		if len(res.Failures) >= 3 {
			break
		}
		if ShouldRecycle != nil && ShouldRecycle() && i+stride < count {
			res.NextIdx = i + stride
			break
		}
	}
	return res
}

func selfExe() string {
	p, err := os.Executable()
	if err != nil {
		return os.Args[0]
	}
	return p
}

func envSeed(def uint64) uint64 {
	if s := os.Getenv("VERIF_SEED"); s != "" {
		if v, err := strconv.ParseUint(s, 10, 64); err == nil {
			return v
		}
		if v, err := strconv.ParseInt(s, 10, 64); err == nil {
			return uint64(v)
		}
	}
	return def
}

type evidence struct {
	PropertyID  string                 `json:"property_id"`
	Tier        string                 `json:"tier"`
	Seed        int64                  `json:"seed"`
	Level       string                 `json:"level"`
	Coverage    map[string]interface{} `json:"coverage"`
	Assumptions []string               `json:"assumptions"`
	WallS       float64                `json:"wall_s"`
	Violations  int                    `json:"violations"`
}

// ShouldRecycle, when set, is asked after every run whether the worker process
// should stop and let the parent start a fresh process for the remaining runs
// (bounds memory held by dropped application objects).
var ShouldRecycle func() bool

// AtExit, when set, runs before the process exits (scratch clean-up).
var AtExit func()

func exit(code int) {
	if AtExit != nil {
		AtExit()
	}
	os.Exit(code)
}

// Main is the command line shared by the simulator binaries.
func Main() {
	if len(os.Args) < 2 {
		fmt.Fprintln(os.Stderr, "usage: check|replay|worker|shrink|selftest|gen ...")
		os.Exit(ExitHarness)
	}
	switch os.Args[1] {
	case "check":
		exit(cmdCheck(os.Args[2:]))
	case "worker":
		exit(cmdWorker(os.Args[2:]))
	case "replay":
		exit(cmdReplay(os.Args[2:]))
	case "shrink":
		exit(cmdShrink(os.Args[2:]))
	case "selftest":
		exit(cmdSelftest(os.Args[2:]))
	case "engines":
		for _, n := range EngineNames() {
			fmt.Println(n, strings.Join(registry[n].Props(), ","))
		}
		os.Exit(0)
	default:
		fmt.Fprintln(os.Stderr, "unknown subcommand", os.Args[1])
		os.Exit(ExitHarness)
	}
}

func cmdWorker(args []string) int {
	fs := flag.NewFlagSet("worker", flag.ExitOnError)
	eng := fs.String("engine", "", "")
	props := fs.String("props", "", "")
	tier := fs.String("tier", "quick", "")
	seed := fs.Uint64("seed", 1, "")
	from := fs.Int("from", 0, "")
	stride := fs.Int("stride", 1, "")
	count := fs.Int("count", 1, "")
	secs := fs.Int("secs", 60, "")
	out := fs.String("out", "", "")
	hashes := fs.Bool("hashes", false, "")
	fs.Parse(args)
	e := EngineByName(*eng)
	if e == nil {
		fmt.Fprintln(os.Stderr, "no such engine", *eng)
		return ExitHarness
	}
	if pf := os.Getenv("VERIF_CPUPROFILE"); pf != "" {
		// diagnostics only (tuning engine speed); never set by the registered commands
		if f, err := os.Create(fmt.Sprintf("%s.%d", pf, *from)); err == nil {
			pprof.StartCPUProfile(f)
			defer pprof.StopCPUProfile()
		}
	}
	res := runWorker(e, propSet(*props), *tier, *seed, *from, *stride, *count, time.Now().Add(time.Duration(*secs)*time.Second), *hashes)
	b, _ := json.Marshal(res)
	if *out == "" {
		os.Stdout.Write(b)
	} else if err := os.WriteFile(*out, b, 0o644); err != nil {
		fmt.Fprintln(os.Stderr, err)
		return ExitHarness
	}
	return 0
}

func cmdCheck(args []string) int {
	fs := flag.NewFlagSet("check", flag.ExitOnError)
	prop := fs.String("prop", "", "property id")
	tier := fs.String("tier", "quick", "quick|thorough")
	workers := fs.Int("workers", runtime.NumCPU(), "")
	runsOverride := fs.Int("runs", 0, "override number of runs")
	secsOverride := fs.Int("secs", 0, "override wall-clock cap")
	engOnly := fs.String("engine", "", "restrict to one engine")
	noEvidence := fs.Bool("no-evidence", false, "do not write the evidence file")
	fs.Parse(args)
	if t := os.Getenv("VERIF_TIER"); t != "" && (t == "quick" || t == "thorough") {
		*tier = t
	}
	start := time.Now()
	seed := envSeed(20260924)
	engines := EnginesFor(*prop)
	if *engOnly != "" {
		engines = nil
		if e := EngineByName(*engOnly); e != nil {
			engines = []Engine{e}
		}
	}
	if len(engines) == 0 {
		fmt.Fprintf(os.Stderr, "HARNESS-ERROR: no engine serves property %s in this binary\n", *prop)
		return ExitHarness
	}
	fmt.Printf("seed=%d property=%s tier=%s engines=%d workers=%d\n", seed, *prop, *tier, len(engines), *workers)
	_, knownEntries := loadKnown()
	tmp, err := os.MkdirTemp("", "verif-run-")
	if err != nil {
		fmt.Fprintln(os.Stderr, "HARNESS-ERROR:", err)
		return ExitHarness
	}
	defer os.RemoveAll(tmp)

	total := &workerResult{Counters: map[string]int64{}}
	fpset := map[uint64]bool{}
	var allFailures []failure
	var descs []Description
	var engNames []string
	planned := 0
	timedOut := false
	for _, e := range engines {
		runs, secs := e.Budget(*tier, *prop)
		if *runsOverride > 0 {
			runs = *runsOverride
		}
		if *secsOverride > 0 {
			secs = *secsOverride
		}
		planned += runs
		engNames = append(engNames, e.Name())
		descs = append(descs, e.Describe())
		w := *workers
		if w > runs {
			w = runs
		}
		if w < 1 {
			w = 1
		}
		type slotOut struct {
			results []workerResult
			err     string
		}
		outsCh := make([]slotOut, w)
		done := make(chan int, w)
		deadline := time.Now().Add(time.Duration(secs) * time.Second)
		for i := 0; i < w; i++ {
			go func(slot int) {
				defer func() { done <- slot }()
				from := slot
				for gen := 0; ; gen++ {
					left := int(time.Until(deadline).Seconds())
					if left < 1 {
						left = 1
					}
					out := filepath.Join(tmp, fmt.Sprintf("%s-%d-%d.json", e.Name(), slot, gen))
					c := exec.Command(selfExe(), "worker", "-engine", e.Name(), "-props", *prop, "-tier", *tier,
						"-seed", strconv.FormatUint(seed, 10), "-from", strconv.Itoa(from), "-stride", strconv.Itoa(w),
						"-count", strconv.Itoa(runs), "-secs", strconv.Itoa(left), "-out", out)
					c.Stderr = os.Stderr
					c.Env = append(os.Environ(), "GOMAXPROCS=2", "VERIF_SCRATCH="+tmp)
					werr := c.Run()
					b, rerr := os.ReadFile(out)
					if werr != nil || rerr != nil {
						outsCh[slot].err = fmt.Sprintf("worker %d of %s: %v %v", slot, e.Name(), werr, rerr)
						return
					}
					var r workerResult
					if err := json.Unmarshal(b, &r); err != nil {
						outsCh[slot].err = "bad worker output: " + err.Error()
						return
					}
					outsCh[slot].results = append(outsCh[slot].results, r)
					if r.HarnessErr != "" || r.NextIdx <= 0 || len(r.Failures) > 0 {
						return
					}
					from = r.NextIdx
				}
			}(i)
		}
		for i := 0; i < w; i++ {
			<-done
		}
		for i := 0; i < w; i++ {
			if outsCh[i].err != "" {
				fmt.Fprintln(os.Stderr, "HARNESS-ERROR:", outsCh[i].err)
				return ExitHarness
			}
			for _, r := range outsCh[i].results {
				if r.HarnessErr != "" {
					fmt.Fprintln(os.Stderr, "HARNESS-ERROR:", r.HarnessErr)
					return ExitHarness
				}
				total.Runs += r.Runs
				total.Nontrivial += r.Nontrivial
				total.SimSecs += r.SimSecs
				total.Blocks += r.Blocks
				total.Steps += r.Steps
				mergeCounters(total.Counters, r.Counters)
				for _, fp := range r.FPs {
					fpset[fp] = true
				}
				allFailures = append(allFailures, r.Failures...)
				total.KnownHits = append(total.KnownHits, r.KnownHits...)
				if len(total.Samples) < 2 {
					total.Samples = append(total.Samples, r.Samples...)
				}
				if r.TimedOut {
					timedOut = true
				}
			}
		}
	}
	if total.Runs == 0 {
		fmt.Fprintln(os.Stderr, "HARNESS-ERROR: no run completed")
		return ExitHarness
	}

	// Known findings that fired: one line per distinct key.
	knownSeen := map[string]bool{}
	// (the per-run list of hits is capped; the counters are not)
	var counted []string
	for c, n := range total.Counters {
		if n > 0 && strings.HasPrefix(c, "known/") {
			counted = append(counted, strings.TrimPrefix(c, "known/"))
		}
	}
	sort.Strings(counted)
	for _, key := range counted {
		listed := false
		for _, k := range total.KnownHits {
			if k.Key() == key {
				listed = true
			}
		}
		if listed {
			continue
		}
		for _, ke := range knownEntries {
			if ke.Property+"/"+ke.Oracle+"/"+ke.Sig == key {
				knownSeen[key] = true
				fmt.Printf("KNOWN-FINDING: property=%s %s (%s)\n", ke.Property, ke.What, key)
			}
		}
	}
	for _, k := range total.KnownHits {
		if !knownSeen[k.Key()] {
			knownSeen[k.Key()] = true
			what := k.Detail
			for _, ke := range knownEntries {
				if ke.Property+"/"+ke.Oracle+"/"+ke.Sig == k.Key() {
					what = ke.What
				}
			}
			fmt.Printf("KNOWN-FINDING: property=%s %s (%s)\n", k.Property, what, k.Key())
		}
	}

	// Violations: confirm by replay in a fresh process, shrink, write replay file.
	sort.Slice(allFailures, func(i, j int) bool { return allFailures[i].RunIdx < allFailures[j].RunIdx })
	reported := map[string]bool{}
	nviol := 0
	exit := ExitOK
	for _, f := range allFailures {
		if f.V.Property != *prop || reported[f.V.Key()] {
			continue
		}
		reported[f.V.Key()] = true
		os.MkdirAll(filepath.Join(Root(), "replays"), 0o755)
		raw := filepath.Join(tmp, fmt.Sprintf("raw-%d.json", f.Plan.Seed))
		f.Plan.Violation = &f.V
		f.Plan.Save(raw)
		final := filepath.Join(Root(), "replays", fmt.Sprintf("%s-%d.json", *prop, f.Plan.Seed))
		// confirm
		c := exec.Command(selfExe(), "replay", "-quiet", raw)
		c.Env = append(os.Environ(), "GOMAXPROCS=2", "VERIF_SCRATCH="+tmp)
		if err := c.Run(); err == nil {
			fmt.Fprintf(os.Stderr, "HARNESS-ERROR: violation %s of run seed %d did not reproduce in a fresh process (harness nondeterminism); plan kept at %s\n", f.V.Key(), f.Plan.Seed, final+".unreproduced")
			f.Plan.Save(final + ".unreproduced")
			if exit == ExitOK {
				exit = ExitHarness
			}
			continue
		}
		// shrink (time-capped, separate process)
		sc := exec.Command(selfExe(), "shrink", "-in", raw, "-out", final, "-secs", "90")
		sc.Stderr = os.Stderr
		sc.Env = append(os.Environ(), "GOMAXPROCS=2", "VERIF_SCRATCH="+tmp)
		if err := sc.Run(); err != nil {
			f.Plan.Save(final)
		}
		nviol++
		exit = ExitViolation
		fmt.Printf("VIOLATION property=%s replay=%s\n", *prop, final)
		fmt.Printf("  oracle=%s sig=%s seed=%d step=%d\n  %s\n", f.V.Oracle, f.V.Sig, f.Plan.Seed, f.V.Step, f.V.Detail)
	}

	wall := time.Since(start).Seconds()
	if !*noEvidence {
		faults := map[string]int64{}
		probes := map[string]int64{}
		ops := map[string]int64{}
		other := map[string]int64{}
		for k, v := range total.Counters {
			switch {
			case strings.HasPrefix(k, "fault/"):
				faults[k[6:]] = v
			case strings.HasPrefix(k, "probe/"):
				probes[k[6:]] = v
			case strings.HasPrefix(k, "op/"):
				ops[k[3:]] = v
			default:
				other[k] = v
			}
		}
		var samples []interface{}
		for _, s := range total.Samples {
			q := s.Clone()
			if len(q.Steps) > 40 {
				q.Steps = q.Steps[:40]
				q.Note = "sample truncated to its first 40 steps"
			}
			samples = append(samples, q)
		}
		var real, stub, assumptions []string
		rule := ""
		for i, d := range descs {
			real = append(real, d.Real...)
			stub = append(stub, d.Stub...)
			assumptions = append(assumptions, d.Assumptions...)
			if i > 0 {
				rule += " | "
			}
			rule += engNames[i] + ": " + d.Rule
		}
		rule += fmt.Sprintf(" A run is non-trivial when at least %d state-changing operations succeeded; two runs are distinct when the hash of their (operation kind, outcome class, fault fired) sequence plus the set of coverage probes hit differs.", minOkOps)
		ev := evidence{
			PropertyID: *prop, Tier: *tier, Seed: int64(seed & 0x7fffffffffffffff), Level: "exploration",
			Coverage: map[string]interface{}{
				"evaluations":             total.Runs,
				"distinct_nontrivial":     len(fpset),
				"nontrivial_runs":         total.Nontrivial,
				"rule":                    rule,
				"samples":                 samples,
				"planned_runs":            planned,
				"stopped_by_wall_cap":     timedOut,
				"engines":                 engNames,
				"steps_executed":          total.Steps,
				"simulated_seconds":       total.SimSecs,
				"simulated_blocks":        total.Blocks,
				"runs_per_hour":           float64(total.Runs) / wall * 3600,
				"faults_fired":            faults,
				"coverage_probes_hit":     probes,
				"operations_by_outcome":   ops,
				"other_counters":          other,
				"real_components":         real,
				"stubbed_components":      stub,
				"known_findings_observed": len(knownSeen),
			},
			Assumptions: assumptions,
			WallS:       wall,
			Violations:  nviol,
		}
		os.MkdirAll(filepath.Join(Root(), "evidence"), 0o755)
		b, _ := json.MarshalIndent(ev, "", " ")
		if err := os.WriteFile(filepath.Join(Root(), "evidence", *prop+".json"), append(b, '\n'), 0o644); err != nil {
			fmt.Fprintln(os.Stderr, "HARNESS-ERROR:", err)
			return ExitHarness
		}
	}
	fmt.Printf("property=%s runs=%d nontrivial=%d distinct=%d steps=%d sim_s=%.0f violations=%d wall=%.1fs\n",
		*prop, total.Runs, total.Nontrivial, len(fpset), total.Steps, total.SimSecs, nviol, wall)
	return exit
}

// cmdReplay re-executes a replay file; exit 1 and a VIOLATION line if the
// recorded violation (or, without one, any violation) reproduces.
func cmdReplay(args []string) int {
	fs := flag.NewFlagSet("replay", flag.ExitOnError)
	quiet := fs.Bool("quiet", false, "")
	trace := fs.Bool("trace", false, "print the full trace")
	fs.Parse(args)
	if fs.NArg() < 1 {
		fmt.Fprintln(os.Stderr, "usage: replay <file>")
		return ExitHarness
	}
	p, err := LoadPlan(fs.Arg(0))
	if err != nil {
		fmt.Fprintln(os.Stderr, "HARNESS-ERROR:", err)
		return ExitHarness
	}
	e := EngineByName(p.Engine)
	if e == nil {
		fmt.Fprintln(os.Stderr, "HARNESS-ERROR: engine not in this binary:", p.Engine)
		return ExitHarness
	}
	var props map[string]bool
	if p.Violation != nil {
		props = map[string]bool{p.Violation.Property: true}
	}
	// The recorded violation itself is never suppressed on replay (a replay file must fail
	// the same way); the other open known findings are, exactly as in the run that found it.
	known, _ := loadKnown()
	if p.Violation != nil {
		delete(known, p.Violation.Key())
	}
	run, herr := ExecOnce(e, p, props, known, *trace)
	if herr != nil {
		if *trace && run != nil {
			for _, l := range run.Trace {
				fmt.Println(l)
			}
		}
		fmt.Fprintln(os.Stderr, "HARNESS-ERROR: harness panic:", herr)
		return ExitHarness
	}
	if *trace {
		for _, l := range run.Trace {
			fmt.Println(l)
		}
	}
	if !*quiet {
		fmt.Printf("trace_hash=%s steps=%d ok_ops=%d\n", run.TraceHash(), len(p.Steps), run.OkOps)
	}
	for _, v := range run.Viol {
		if p.Violation == nil || v.Key() == p.Violation.Key() {
			if !*quiet {
				fmt.Printf("VIOLATION property=%s replay=%s\n  oracle=%s sig=%s step=%d\n  %s\n", v.Property, fs.Arg(0), v.Oracle, v.Sig, v.Step, v.Detail)
			}
			return ExitViolation
		}
	}
	if !*quiet {
		fmt.Println("no violation reproduced")
	}
	return ExitOK
}

func cmdShrink(args []string) int {
	fs := flag.NewFlagSet("shrink", flag.ExitOnError)
	in := fs.String("in", "", "")
	out := fs.String("out", "", "")
	secs := fs.Int("secs", 60, "")
	fs.Parse(args)
	p, err := LoadPlan(*in)
	if err != nil || p.Violation == nil {
		fmt.Fprintln(os.Stderr, "shrink: bad input", err)
		return ExitHarness
	}
	e := EngineByName(p.Engine)
	if e == nil {
		return ExitHarness
	}
	props := map[string]bool{p.Violation.Property: true}
	before := len(p.Steps)
	known, _ := loadKnown()
	delete(known, p.Violation.Key())
	q, tries := Shrink(e, p, p.Violation.Key(), props, known, time.Duration(*secs)*time.Second)
	run, herr := ExecOnce(e, q, props, known, true)
	if herr != nil {
		return ExitHarness
	}
	v := sameViolation(run, p.Violation.Key())
	if v == nil {
		return ExitHarness
	}
	q.Violation = v
	q.Note = fmt.Sprintf("minimised from %d to %d steps in %d executions; replay with: ./check replay <this file>", before, len(q.Steps), tries)
	if err := q.Save(*out); err != nil {
		return ExitHarness
	}
	tail := run.Trace
	if len(tail) > 60 {
		tail = tail[len(tail)-60:]
	}
	os.WriteFile(*out+".trace.txt", []byte(strings.Join(tail, "\n")+"\n"), 0o644)
	return 0
}

// cmdSelftest proves determinism of an engine: every seed is executed in
// several fresh processes under different GOMAXPROCS and the trace hashes
// (which include store digests / IAVL commit hashes) must agree.
func cmdSelftest(args []string) int {
	fs := flag.NewFlagSet("selftest", flag.ExitOnError)
	eng := fs.String("engine", "", "engine (default: all)")
	n := fs.Int("n", 30, "seeds per engine")
	tier := fs.String("tier", "quick", "")
	fs.Parse(args)
	names := EngineNames()
	if *eng != "" {
		names = []string{*eng}
	}
	seed := envSeed(7)
	tmp, _ := os.MkdirTemp("", "verif-self-")
	defer os.RemoveAll(tmp)
	bad := 0
	for _, name := range names {
		var ref []string
		for gi, gmp := range []string{"1", "4", "16", "3"} {
			out := filepath.Join(tmp, name+"-"+gmp+".json")
			c := exec.Command(selfExe(), "worker", "-engine", name, "-tier", *tier, "-seed", strconv.FormatUint(seed, 10),
				"-from", "0", "-stride", "1", "-count", strconv.Itoa(*n), "-secs", "600", "-out", out, "-hashes")
			c.Env = append(os.Environ(), "GOMAXPROCS="+gmp)
			c.Stderr = os.Stderr
			if err := c.Run(); err != nil {
				fmt.Println("selftest worker failed:", err)
				return ExitHarness
			}
			b, _ := os.ReadFile(out)
			var r workerResult
			json.Unmarshal(b, &r)
			if r.HarnessErr != "" {
				fmt.Println("selftest harness error:", r.HarnessErr)
				return ExitHarness
			}
			if gi == 0 {
				ref = r.Hashes
				continue
			}
			if len(r.Hashes) != len(ref) {
				fmt.Printf("DIVERGENCE engine=%s GOMAXPROCS=%s: %d vs %d runs\n", name, gmp, len(r.Hashes), len(ref))
				bad++
				continue
			}
			for i := range ref {
				if ref[i] != r.Hashes[i] {
					fmt.Printf("DIVERGENCE engine=%s GOMAXPROCS=%s run %s vs %s\n", name, gmp, ref[i], r.Hashes[i])
					bad++
				}
			}
		}
		fmt.Printf("selftest engine=%s seeds=%d processes=4 divergences=%d\n", name, len(ref), bad)
	}
	if bad > 0 {
		return ExitHarness
	}
	return 0
}
