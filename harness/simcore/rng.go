// Package simcore holds the parts of the simulator that every engine shares:
// the PRNG, the plan (replay file) model, the runner that fans seeds out over
// worker processes, the ddmin shrinker and the evidence writer.
package simcore

import (
	"crypto/sha256"
	"encoding/binary"
	"math/big"
)

// RNG is xoshiro256** seeded through splitmix64. It is implemented here (and
// not taken from math/rand) so that one VERIF_SEED names the same execution on
// every Go release.
type RNG struct{ s [4]uint64 }

func splitmix(x *uint64) uint64 {
	*x += 0x9e3779b97f4a7c15
	z := *x
	z = (z ^ (z >> 30)) * 0xbf58476d1ce4e5b9
	z = (z ^ (z >> 27)) * 0x94d049bb133111eb
	return z ^ (z >> 31)
}

func NewRNG(seed uint64) *RNG {
	r := &RNG{}
	x := seed
	for i := range r.s {
		r.s[i] = splitmix(&x)
	}
	return r
}

// Mix derives a child seed from a parent seed, a label and an index.
func Mix(seed uint64, label string, i uint64) uint64 {
	h := sha256.New()
	var b [16]byte
	binary.BigEndian.PutUint64(b[:8], seed)
	binary.BigEndian.PutUint64(b[8:], i)
	h.Write(b[:])
	h.Write([]byte(label))
	return binary.BigEndian.Uint64(h.Sum(nil)[:8])
}

func rotl(x uint64, k uint) uint64 { return (x << k) | (x >> (64 - k)) }

func (r *RNG) Uint64() uint64 {
	s := &r.s
	res := rotl(s[1]*5, 7) * 9
	t := s[1] << 17
	s[2] ^= s[0]
	s[3] ^= s[1]
	s[1] ^= s[2]
	s[0] ^= s[3]
	s[2] ^= t
	s[3] = rotl(s[3], 45)
	return res
}

// Intn returns a value in [0,n). n<=0 yields 0.
func (r *RNG) Intn(n int) int {
	if n <= 0 {
		return 0
	}
	return int(r.Uint64() % uint64(n))
}

func (r *RNG) Int63n(n int64) int64 {
	if n <= 0 {
		return 0
	}
	return int64(r.Uint64() % uint64(n))
}

// Range returns a value in [lo,hi].
func (r *RNG) Range(lo, hi int64) int64 {
	if hi <= lo {
		return lo
	}
	return lo + r.Int63n(hi-lo+1)
}

func (r *RNG) Float64() float64 { return float64(r.Uint64()>>11) / (1 << 53) }

// Chance is true with probability p.
func (r *RNG) Chance(p float64) bool { return r.Float64() < p }

// Weighted picks an index with probability proportional to w[i].
func (r *RNG) Weighted(w []int) int {
	t := 0
	for _, x := range w {
		if x > 0 {
			t += x
		}
	}
	if t == 0 {
		return 0
	}
	k := r.Intn(t)
	for i, x := range w {
		if x <= 0 {
			continue
		}
		if k < x {
			return i
		}
		k -= x
	}
	return len(w) - 1
}

// Salt is a non-negative int64 suitable as a step argument that seeds local choices.
func (r *RNG) Salt() int64 { return int64(r.Uint64() >> 1) }

// BigBelow returns a uniform big integer in [0,n).
func (r *RNG) BigBelow(n *big.Int) *big.Int {
	if n.Sign() <= 0 {
		return new(big.Int)
	}
	bits := n.BitLen() + 64
	x := new(big.Int)
	for x.BitLen() < bits {
		x.Lsh(x, 64)
		x.Or(x, new(big.Int).SetUint64(r.Uint64()))
	}
	return x.Mod(x, n)
}

// Magnitude returns a positive integer whose order of magnitude is uniform in
// [10^loExp, 10^hiExp]: mantissa 1..9999 times a power of ten.
func (r *RNG) Magnitude(loExp, hiExp int) *big.Int {
	e := int(r.Range(int64(loExp), int64(hiExp)))
	m := big.NewInt(r.Range(1, 9999))
	p := new(big.Int).Exp(big.NewInt(10), big.NewInt(int64(e)), nil)
	m.Mul(m, p)
	m.Div(m, big.NewInt(1000))
	if m.Sign() == 0 {
		m.SetInt64(1)
	}
	return m
}
