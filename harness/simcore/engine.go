package simcore

import (
	"crypto/sha256"
	"encoding/binary"
	"fmt"
	"hash"
	"sort"
)

// Engine is a workload generator plus oracles for one group of properties.
type Engine interface {
	Name() string
	// Props lists the property ids whose oracles this engine evaluates.
	Props() []string
	// Budget gives the number of simulated runs and a wall-clock cap (seconds)
	// for a tier ("quick" or "thorough") when checking property prop.
	Budget(tier, prop string) (runs int, seconds int)
	// Generate expands a seed into an explicit plan. idx is the run index in
	// the batch (engines use it to rotate swarm configurations).
	Generate(r *RNG, tier string, idx int) *Plan
	// Execute runs the plan against the real code and evaluates oracles.
	// It must draw nothing from a PRNG that is not derived from the plan.
	Execute(run *Run)
	// Describe returns the real-vs-stub statement for the evidence file.
	Describe() Description
}

type Description struct {
	Real        []string `json:"real"`
	Stub        []string `json:"stub"`
	Rule        string   `json:"rule"`
	Assumptions []string `json:"assumptions"`
}

// Run is the context of one simulated execution.
type Run struct {
	Plan  *Plan
	Props map[string]bool // enabled properties (nil = all)
	Known map[string]bool // Violation.Key() of open known findings

	Viol      []Violation
	KnownHits []Violation
	Counters  map[string]int64
	SimNanos  int64 // simulated time covered
	Blocks    int64
	OkOps     int // successful state-changing operations
	StepIdx   int // current step, maintained by the engine
	KeepTrace bool
	Trace     []string

	th hash.Hash // trace hash (always maintained)
	fp hash.Hash // shape fingerprint
}

func NewRun(p *Plan, props map[string]bool, known map[string]bool) *Run {
	return &Run{Plan: p, Props: props, Known: known, Counters: map[string]int64{}, th: sha256.New(), fp: sha256.New()}
}

func (r *Run) Enabled(prop string) bool {
	if r.Props == nil {
		return true
	}
	return r.Props[prop]
}

// Logf appends a line to the trace. Never draws randomness, never reads a clock.
func (r *Run) Logf(format string, a ...interface{}) {
	s := fmt.Sprintf(format, a...)
	r.th.Write([]byte(s))
	r.th.Write([]byte{'\n'})
	if r.KeepTrace {
		r.Trace = append(r.Trace, s)
	}
}

func (r *Run) TraceHash() string { return fmt.Sprintf("%x", r.th.Sum(nil)[:12]) }

func (r *Run) Count(key string) { r.Counters[key]++ }

func (r *Run) Add(key string, n int64) { r.Counters[key] += n }

// Max keeps the maximum of a gauge-like counter (merged with max across runs
// when the key starts with "max/").
func (r *Run) Max(key string, v int64) {
	if v > r.Counters[key] {
		r.Counters[key] = v
	}
}

// Event records one operation outcome: it feeds the shape fingerprint and the
// per-kind counters. outcome is a class ("ok", "err", "oog", "abort", ...).
func (r *Run) Event(op, outcome string) {
	r.fp.Write([]byte(op))
	r.fp.Write([]byte{0})
	r.fp.Write([]byte(outcome))
	r.fp.Write([]byte{1})
	r.Counters["op/"+op+"/"+outcome]++
	if outcome == "ok" {
		r.OkOps++
	}
}

// Probe marks that a rare condition of interest was reached.
func (r *Run) Probe(name string) {
	r.Counters["probe/"+name]++
}

// Fault marks that a fault of the kind actually fired (not merely was configured).
func (r *Run) Fault(kind string) {
	r.Counters["fault/"+kind]++
	r.fp.Write([]byte("F" + kind))
}

func (r *Run) Fingerprint() uint64 {
	// bucketed probe vector is part of the shape
	keys := make([]string, 0)
	for k, v := range r.Counters {
		if len(k) > 6 && k[:6] == "probe/" && v > 0 {
			keys = append(keys, k)
		}
	}
	sort.Strings(keys)
	h := sha256.New()
	h.Write(r.fp.Sum(nil))
	for _, k := range keys {
		h.Write([]byte(k))
	}
	return binary.BigEndian.Uint64(h.Sum(nil)[:8])
}

// Fail records an oracle failure. A failure whose key is an open known
// finding is recorded separately and does not stop the run.
func (r *Run) Fail(prop, oracle, sig, format string, a ...interface{}) {
	v := Violation{Property: prop, Oracle: oracle, Sig: sig, Step: r.StepIdx, Detail: fmt.Sprintf(format, a...)}
	if r.Known != nil && r.Known[v.Key()] {
		if len(r.KnownHits) < 4 {
			r.KnownHits = append(r.KnownHits, v)
		}
		r.Counters["known/"+v.Key()]++
		return
	}
	if !r.Enabled(prop) {
		r.Counters["other-prop-violation/"+prop]++
		return
	}
	r.Logf("VIOLATION %s %s %s step=%d %s", prop, oracle, sig, v.Step, v.Detail)
	r.Viol = append(r.Viol, v)
}

// Stop is true once an (unknown) violation has been recorded: the engine
// should end the run, because later state is not trustworthy.
func (r *Run) Stop() bool { return len(r.Viol) > 0 }

var registry = map[string]Engine{}

func Register(e Engine) { registry[e.Name()] = e }

func EngineByName(n string) Engine { return registry[n] }

func EnginesFor(prop string) []Engine {
	var names []string
	for n, e := range registry {
		for _, p := range e.Props() {
			if p == prop {
				names = append(names, n)
			}
		}
	}
	sort.Strings(names)
	out := make([]Engine, len(names))
	for i, n := range names {
		out[i] = registry[n]
	}
	return out
}

func EngineNames() []string {
	var names []string
	for n := range registry {
		names = append(names, n)
	}
	sort.Strings(names)
	return names
}
