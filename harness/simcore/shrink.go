package simcore

import (
	"fmt"
	"runtime/debug"
	"time"
)

// ExecOnce runs a plan in-process, with panics from the engine itself turned
// into a harness error (not a violation).
func ExecOnce(e Engine, p *Plan, props map[string]bool, known map[string]bool, keepTrace bool) (run *Run, harnessErr interface{}) {
	run = NewRun(p, props, known)
	run.KeepTrace = keepTrace
	defer func() {
		if x := recover(); x != nil {
			// Engines go on after a failure of a property that is not the one being checked (so that
			// every property's check reaches its own oracles); their reference state may then be out
			// of step with a chain that is already known to misbehave. A panic after such a failure
			// ends the run; it is not evidence of a harness defect.
			for k, n := range run.Counters {
				if n > 0 && len(k) > 21 && k[:21] == "other-prop-violation/" {
					run.Counters["run-ended-by-panic-after-other-property-violation"]++
					return
				}
			}
			harnessErr = fmt.Sprintf("%v\n%s", x, debug.Stack())
		}
	}()
	e.Execute(run)
	return run, nil
}

func sameViolation(run *Run, key string) *Violation {
	for i := range run.Viol {
		if run.Viol[i].Key() == key {
			return &run.Viol[i]
		}
	}
	return nil
}

// Shrink minimises a failing plan with ddmin over steps followed by argument
// simplification, keeping the violation key (property/oracle/signature) fixed.
func Shrink(e Engine, p *Plan, key string, props map[string]bool, known map[string]bool, budget time.Duration) (*Plan, int) {
	deadline := time.Now().Add(budget)
	tries := 0
	fails := func(q *Plan) bool {
		tries++
		run, herr := ExecOnce(e, q, props, known, false)
		if herr != nil {
			return false
		}
		return sameViolation(run, key) != nil
	}
	cur := p.Clone()
	// truncate after the failing step first
	if run, herr := ExecOnce(e, cur, props, known, false); herr == nil {
		if v := sameViolation(run, key); v != nil && v.Step+1 < len(cur.Steps) {
			q := cur.Clone()
			q.Steps = q.Steps[:v.Step+1]
			if fails(q) {
				cur = q
			}
		}
	}
	// ddmin over steps
	n := 2
	for len(cur.Steps) >= 2 && time.Now().Before(deadline) {
		chunk := (len(cur.Steps) + n - 1) / n
		reduced := false
		for start := 0; start < len(cur.Steps) && time.Now().Before(deadline); start += chunk {
			end := start + chunk
			if end > len(cur.Steps) {
				end = len(cur.Steps)
			}
			q := cur.Clone()
			q.Steps = append(append([]Step(nil), cur.Steps[:start]...), cur.Steps[end:]...)
			if len(q.Steps) == 0 {
				continue
			}
			if fails(q) {
				cur = q
				if n > 2 {
					n--
				}
				reduced = true
				break
			}
		}
		if !reduced {
			if chunk <= 1 {
				break
			}
			n *= 2
			if n > len(cur.Steps) {
				n = len(cur.Steps)
			}
		}
	}
	// drop faults, then simplify arguments toward zero
	for i := range cur.Steps {
		if !time.Now().Before(deadline) {
			break
		}
		if cur.Steps[i].F != "" {
			q := cur.Clone()
			q.Steps[i].F = ""
			if fails(q) {
				cur = q
			}
		}
	}
	for pass := 0; pass < 2; pass++ {
		for i := range cur.Steps {
			for j := range cur.Steps[i].A {
				if !time.Now().Before(deadline) {
					return cur, tries
				}
				v := cur.Steps[i].A[j]
				for _, c := range []int64{0, 1, v / 2, v - 1} {
					if c == v || (c < 0 && v >= 0) {
						continue
					}
					q := cur.Clone()
					q.Steps[i].A[j] = c
					if fails(q) {
						cur = q
						break
					}
				}
			}
		}
	}
	return cur, tries
}
