package simcore

import (
	"encoding/json"
	"fmt"
	"os"
	"strings"
)

// Step is one scheduled action. Op names the action, A holds integer
// arguments that the executor resolves *relative to the simulated state*
// (indices are taken modulo the number of live objects, amounts are basis
// points of a balance, ...), so that a plan stays meaningful when steps are
// deleted by the shrinker. S carries the few arguments that do not fit an
// int64 (big amounts, byte keys). F is a fault placed on the step:
// "" none, "oog:<k>" out-of-gas/abort at the k-th store access (L0) or with a
// gas limit of k (L1/L2), "abort" roll the enclosing transaction back after
// the handler succeeded.
type Step struct {
	Op string   `json:"op"`
	A  []int64  `json:"a,omitempty"`
	S  []string `json:"s,omitempty"`
	F  string   `json:"f,omitempty"`
}

func (s Step) Arg(i int) int64 {
	if i < len(s.A) {
		return s.A[i]
	}
	return 0
}

func (s Step) Str(i int) string {
	if i < len(s.S) {
		return s.S[i]
	}
	return ""
}

func (s Step) String() string {
	b, _ := json.Marshal(s)
	return string(b)
}

// Plan is the replay file: one seed expanded into explicit configuration knobs
// and steps. Executing a plan draws nothing from a PRNG and reads no clock.
type Plan struct {
	Engine string           `json:"engine"`
	Seed   uint64           `json:"seed"`
	Config map[string]int64 `json:"config,omitempty"`
	Steps  []Step           `json:"steps"`
	// Filled in on replay files only.
	Violation *Violation `json:"violation,omitempty"`
	Note      string     `json:"note,omitempty"`
}

func (p *Plan) Cfg(k string, def int64) int64 {
	if v, ok := p.Config[k]; ok {
		return v
	}
	return def
}

func (p *Plan) Clone() *Plan {
	q := &Plan{Engine: p.Engine, Seed: p.Seed, Config: map[string]int64{}}
	for k, v := range p.Config {
		q.Config[k] = v
	}
	q.Steps = make([]Step, len(p.Steps))
	for i, s := range p.Steps {
		q.Steps[i] = Step{Op: s.Op, F: s.F, A: append([]int64(nil), s.A...), S: append([]string(nil), s.S...)}
	}
	return q
}

func (p *Plan) Save(path string) error {
	b, err := json.MarshalIndent(p, "", " ")
	if err != nil {
		return err
	}
	return os.WriteFile(path, append(b, '\n'), 0o644)
}

func LoadPlan(path string) (*Plan, error) {
	b, err := os.ReadFile(path)
	if err != nil {
		return nil, err
	}
	p := &Plan{}
	if err := json.Unmarshal(b, p); err != nil {
		return nil, err
	}
	return p, nil
}

// Violation describes a failed oracle. Sig is the stable signature used to
// decide "same violation" during shrinking and to match known findings: it
// names the oracle and the class of object, never run-specific numbers.
type Violation struct {
	Property string `json:"property"`
	Oracle   string `json:"oracle"`
	Sig      string `json:"sig"`
	Step     int    `json:"step"`
	Detail   string `json:"detail"`
}

func (v Violation) Key() string { return v.Property + "/" + v.Oracle + "/" + v.Sig }

// ParseFault splits a step fault "kind:n".
func ParseFault(f string) (kind string, n int64) {
	if f == "" {
		return "", 0
	}
	i := strings.IndexByte(f, ':')
	if i < 0 {
		return f, 0
	}
	fmt.Sscanf(f[i+1:], "%d", &n)
	return f[:i], n
}
