package simchain

import (
	"fmt"
	"os"
	"strings"
	"time"

	sdk "github.com/cosmos/cosmos-sdk/types"
	banktypes "github.com/cosmos/cosmos-sdk/x/bank/types"
)

// Probe is a plumbing smoke test with timings.
func Probe() {
	t0 := time.Now()
	n := NewNode(Config{Accounts: 3, Validators: 2, Fund: sdk.NewCoins(sdk.NewInt64Coin("uosmo", 1e12), sdk.NewInt64Coin("uion", 1e12))})
	fmt.Println("new node", time.Since(t0), "height", n.Height, fmt.Sprintf("%x", n.LastAppHash))
	t0 = time.Now()
	for b := 0; b < 20; b++ {
		if pv := n.BeginBlock(5 * time.Second); pv != nil {
			panic(pv)
		}
		r := n.Deliver(&banktypes.MsgSend{FromAddress: n.Accts[0].String(), ToAddress: n.Accts[1].String(), Amount: sdk.NewCoins(sdk.NewInt64Coin("uosmo", 5))}, 0, false)
		if !r.OK() {
			panic(fmt.Sprint(r))
		}
		r = n.Deliver(&banktypes.MsgSend{FromAddress: n.Accts[0].String(), ToAddress: n.Accts[1].String(), Amount: sdk.NewCoins(sdk.NewInt64Coin("uosmo", 5))}, 20000, false)
		if b == 0 {
			fmt.Println("limited gas:", r.Outcome, r.GasUsed)
		}
		if pv := n.EndBlock(); pv != nil {
			panic(pv)
		}
		if b == 10 {
			n.Restart()
		}
	}
	fmt.Println("20 blocks", time.Since(t0), "height", n.Height, fmt.Sprintf("%x", n.LastAppHash), n.Balance(n.QueryCtx(), n.Accts[1], "uosmo"))
	t0 = time.Now()
	fmt.Println("digest", n.Digest(n.QueryCtx()), time.Since(t0))
	t0 = time.Now()
	n2 := NewNode(Config{Accounts: 3, Validators: 2, Fund: sdk.NewCoins(sdk.NewInt64Coin("uosmo", 1e12))})
	fmt.Println("second node in same process", time.Since(t0), n2.Height)
	t0 = time.Now()
	for i := 0; i < 300; i++ {
		nn := NewNode(Config{Accounts: 3, Validators: 2, Fund: sdk.NewCoins(sdk.NewInt64Coin("uosmo", 1e12))})
		nn.Restart()
	}
	fmt.Println("300 nodes + restarts", time.Since(t0))
	b, _ := os.ReadFile("/proc/self/status")
	for _, l := range strings.Split(string(b), "\n") {
		if strings.HasPrefix(l, "VmRSS") || strings.HasPrefix(l, "FDSize") {
			fmt.Println(l)
		}
	}
	ents, _ := os.ReadDir("/proc/self/fd")
	fmt.Println("open fds", len(ents))
}
