package simchain

import (
	"fmt"
	"os"

	"cosmossdk.io/log"
	dbm "github.com/cosmos/cosmos-db"
	"github.com/cosmos/cosmos-sdk/baseapp"
	servertypes "github.com/cosmos/cosmos-sdk/server/types"

	"github.com/osmosis-labs/osmosis/v31/app"
)

// NewApp builds an application object over db exactly like the L1 node does
// (own home sub-directory per object, chain id ChainID, no-op logger). It is
// exported for the L2 replica set (package simnet).
func NewApp(db dbm.DB) *app.OsmosisApp { return newApp(db) }

// NewAppWithOptions is NewApp with operator options (what app.toml / command
// line flags would carry), e.g. crisis.FlagSkipGenesisInvariants.
func NewAppWithOptions(db dbm.DB, opts servertypes.AppOptions) *app.OsmosisApp {
	appSeq++
	dir := fmt.Sprintf("%s/%d", home(), appSeq)
	lg := log.NewNopLogger()
	if os.Getenv("VERIF_DEBUG_APP_LOG") != "" { // debugging aid: application log of option-built replicas to stderr
		lg = log.NewLogger(os.Stderr)
	}
	return app.NewOsmosisApp(lg, db, nil, true, map[int64]bool{}, dir, 0,
		opts, app.EmptyWasmOpts, baseapp.SetChainID(ChainID))
}
