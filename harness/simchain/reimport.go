package simchain

import (
	"fmt"

	abci "github.com/cometbft/cometbft/abci/types"
	cmttypes "github.com/cometbft/cometbft/types"
	dbm "github.com/cosmos/cosmos-db"
	"github.com/cosmos/cosmos-sdk/x/crisis"
)

type appOptions map[string]interface{}

func (o appOptions) Get(k string) interface{} { return o[k] }

// Reimport is the fault "the chain is restarted from an export": between two blocks the whole application
// state is exported (by a fresh application object over the node's disk, as `osmosisd export` does), a new
// node with an empty disk is initialised from that export (InitChain with the exported state, validators and
// consensus parameters, genesis time = last header time, invariant assertion skipped as operators commonly
// do), and one empty block at the same header time commits the imported state. The node then continues on the
// new application and disk: everything the modules' genesis export/import does not carry is gone.
func (n *Node) Reimport() (err error) {
	if n.inBlock {
		panic("reimport inside a block")
	}
	defer func() {
		if x := recover(); x != nil {
			err = fmt.Errorf("reimport panicked: %v", x)
		}
	}()
	tmp := NewAppWithOptions(n.DB, appOptions{})
	if tmp.LastBlockHeight() != n.Height {
		return fmt.Errorf("export: durable height %d, expected %d", tmp.LastBlockHeight(), n.Height)
	}
	exp, err := tmp.ExportAppStateAndValidators(false, nil, nil)
	if err != nil {
		return fmt.Errorf("export: %w", err)
	}
	db := dbm.NewMemDB()
	a := NewAppWithOptions(db, appOptions{crisis.FlagSkipGenesisInvariants: true})
	vals := make([]*cmttypes.Validator, 0, len(exp.Validators))
	for _, v := range exp.Validators {
		vals = append(vals, cmttypes.NewValidator(v.PubKey, v.Power))
	}
	if _, err := a.InitChain(&abci.RequestInitChain{
		ChainId: ChainID, Time: n.Time, ConsensusParams: &exp.ConsensusParams,
		Validators: cmttypes.TM2PB.ValidatorUpdates(cmttypes.NewValidatorSet(vals)), AppStateBytes: exp.AppState, InitialHeight: exp.Height,
	}); err != nil {
		return fmt.Errorf("InitChain from the export: %w", err)
	}
	if _, err := a.FinalizeBlock(&abci.RequestFinalizeBlock{Height: exp.Height, Time: n.Time}); err != nil {
		return fmt.Errorf("first block after the import: %w", err)
	}
	if _, err := a.Commit(); err != nil {
		return fmt.Errorf("commit after the import: %w", err)
	}
	n.App, n.DB = a, db
	n.Height = exp.Height
	n.LastAppHash = a.LastCommitID().Hash
	n.Reimports++
	return nil
}
