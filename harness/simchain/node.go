// Package simchain is the L1 harness: one node running the full OsmosisApp
// (all keepers, real BeginBlocker/EndBlocker, real IAVL commit per block),
// driven block by block by the simulator, which owns the clock, the height,
// the order of messages, every message's gas budget, forced aborts and node
// restarts.
package simchain

import (
	"crypto/sha256"
	"encoding/json"
	"fmt"
	"os"
	"sort"
	"time"

	"cosmossdk.io/log"
	sdkmath "cosmossdk.io/math"
	storetypes "cosmossdk.io/store/types"
	abci "github.com/cometbft/cometbft/abci/types"
	tmproto "github.com/cometbft/cometbft/proto/tendermint/types"
	dbm "github.com/cosmos/cosmos-db"
	"github.com/cosmos/cosmos-sdk/baseapp"
	"github.com/cosmos/cosmos-sdk/codec"
	codectypes "github.com/cosmos/cosmos-sdk/codec/types"
	"github.com/cosmos/cosmos-sdk/crypto/keys/ed25519"
	"github.com/cosmos/cosmos-sdk/crypto/keys/secp256k1"
	sims "github.com/cosmos/cosmos-sdk/testutil/sims"
	sdk "github.com/cosmos/cosmos-sdk/types"
	authtypes "github.com/cosmos/cosmos-sdk/x/auth/types"
	banktypes "github.com/cosmos/cosmos-sdk/x/bank/types"
	stakingtypes "github.com/cosmos/cosmos-sdk/x/staking/types"

	"github.com/osmosis-labs/osmosis/osmomath"
	"github.com/osmosis-labs/osmosis/v31/app"
)

const ChainID = "osmosis-1"
const BondDenom = "uosmo"

// GenesisTime is the fixed simulated genesis instant.
var GenesisTime = time.Date(2026, 1, 1, 0, 0, 0, 0, time.UTC)

// Config describes the simulated world at genesis.
type Config struct {
	Accounts   int
	Validators int
	// Fund is given to every account at genesis.
	Fund sdk.Coins
	// Mutate edits module genesis states (JSON) before InitChain.
	Mutate func(cdc codec.JSONCodec, gs app.GenesisState)
}

// Node is one simulated node.
type Node struct {
	// Jitter makes BeginBlock add a varying sub-millisecond part to every header time.
	Jitter bool
	// Spec (permille) is the fault "a block is executed speculatively and thrown away": before the real execution of
	// that share of the blocks, PreBlocker, BeginBlocker and EndBlocker run for the same header on a branch of the
	// state that is discarded (a proposal that is processed but not decided, optimistic execution that is aborted) -
	// same process, same keepers. Whatever the application keeps outside the store survives it.
	Spec  int64
	Specs int
	// BranchReads, when set, is called with the branch of a transaction that is about to be rolled back (fault
	// "abort"): the engine reads through the keepers what a later message of the same transaction could read.
	BranchReads func(ctx sdk.Context)
	App    *app.OsmosisApp
	DB     dbm.DB
	Home   string
	Cfg    Config
	Height int64
	Time   time.Time

	Accts    []sdk.AccAddress
	Privs    []*secp256k1.PrivKey
	ValAddrs []sdk.ValAddress

	blockMS storetypes.CacheMultiStore
	// Ctx is the context of the block being built (valid between BeginBlock and EndBlock).
	Ctx     sdk.Context
	inBlock bool
	// LastAppHash is the IAVL commit hash of the last committed block.
	LastAppHash []byte
	Restarts    int
	Reimports   int
}

// Logger is the context logger of simulated blocks (a no-op unless VERIF_DEBUG_LOG=1).
var Logger log.Logger = func() log.Logger {
	if os.Getenv("VERIF_DEBUG_LOG") == "1" {
		return log.NewLogger(os.Stdout, log.LevelOption(-1))
	}
	return log.NewNopLogger()
}()

var processHome string

// home returns a per-process scratch directory (the wasm VM takes an
// exclusive lock on <home>/wasm). It is removed by Cleanup.
func home() string {
	if processHome == "" {
		d, err := os.MkdirTemp(os.Getenv("VERIF_SCRATCH"), "verif-simchain-home-")
		if err != nil {
			panic(err)
		}
		processHome = d
	}
	return processHome
}

// Cleanup removes the per-process scratch directory.
func Cleanup() {
	if processHome != "" {
		os.RemoveAll(processHome)
		processHome = ""
	}
}

func AcctKey(i int) *secp256k1.PrivKey {
	h := sha256.Sum256([]byte(fmt.Sprintf("verif/acct/%d", i)))
	return &secp256k1.PrivKey{Key: h[:]}
}

var appSeq int

// AppsBuilt is the number of application objects built by this process.
func AppsBuilt() int { return appSeq }

// newApp builds an application object over db. Every object gets its own home
// sub-directory because each wasm VM takes an exclusive lock on its directory
// and the VMs of dropped application objects cannot be closed from outside.
func newApp(db dbm.DB) *app.OsmosisApp {
	appSeq++
	dir := fmt.Sprintf("%s/%d", home(), appSeq)
	return app.NewOsmosisApp(log.NewNopLogger(), db, nil, true, map[int64]bool{}, dir, 0,
		sims.EmptyAppOptions{}, app.EmptyWasmOpts, baseapp.SetChainID(ChainID))
}

// NewNode builds the genesis from cfg, runs InitChain and commits block 1.
func NewNode(cfg Config) *Node {
	n := &Node{Cfg: cfg, DB: dbm.NewMemDB(), Home: home(), Time: GenesisTime}
	n.App = newApp(n.DB)
	cdc := n.App.AppCodec()
	gs := app.NewDefaultGenesisState()

	var genAccs []authtypes.GenesisAccount
	var balances []banktypes.Balance
	supply := sdk.NewCoins()
	for i := 0; i < cfg.Accounts; i++ {
		pk := AcctKey(i)
		addr := sdk.AccAddress(pk.PubKey().Address())
		n.Privs = append(n.Privs, pk)
		n.Accts = append(n.Accts, addr)
		genAccs = append(genAccs, authtypes.NewBaseAccount(addr, nil, uint64(i), 0))
		if !cfg.Fund.IsZero() {
			balances = append(balances, banktypes.Balance{Address: addr.String(), Coins: cfg.Fund})
			supply = supply.Add(cfg.Fund...)
		}
	}
	authGen := authtypes.NewGenesisState(authtypes.DefaultParams(), genAccs)
	gs[authtypes.ModuleName] = cdc.MustMarshalJSON(authGen)

	nv := cfg.Validators
	if nv < 1 {
		nv = 1
	}
	bondAmt := sdk.DefaultPowerReduction
	var vals []stakingtypes.Validator
	var dels []stakingtypes.Delegation
	for i := 0; i < nv; i++ {
		cpk := ed25519.GenPrivKeyFromSecret([]byte(fmt.Sprintf("verif/val/%d", i))).PubKey()
		pkAny, err := codectypes.NewAnyWithValue(cpk)
		if err != nil {
			panic(err)
		}
		oh := sha256.Sum256([]byte(fmt.Sprintf("verif/valoper/%d", i)))
		op := sdk.ValAddress(oh[:20])
		n.ValAddrs = append(n.ValAddrs, op)
		vals = append(vals, stakingtypes.Validator{
			OperatorAddress: op.String(), ConsensusPubkey: pkAny, Status: stakingtypes.Bonded,
			Tokens: bondAmt, DelegatorShares: sdkmath.LegacyOneDec().MulInt(bondAmt),
			Description: stakingtypes.Description{Moniker: fmt.Sprintf("v%d", i)}, UnbondingTime: time.Unix(0, 0).UTC(),
			Commission:        stakingtypes.NewCommission(osmomath.ZeroDec(), osmomath.ZeroDec(), osmomath.ZeroDec()),
			MinSelfDelegation: sdkmath.ZeroInt(),
		})
		// self-delegation by the operator's account address
		dels = append(dels, stakingtypes.NewDelegation(sdk.AccAddress(op).String(), op.String(), sdkmath.LegacyOneDec().MulInt(bondAmt)))
		genAccs = append(genAccs, authtypes.NewBaseAccount(sdk.AccAddress(op), nil, uint64(cfg.Accounts+i), 0))
		supply = supply.Add(sdk.NewCoin(BondDenom, bondAmt))
	}
	authGen = authtypes.NewGenesisState(authtypes.DefaultParams(), genAccs)
	gs[authtypes.ModuleName] = cdc.MustMarshalJSON(authGen)
	sp := stakingtypes.DefaultParams()
	sp.BondDenom = BondDenom
	gs[stakingtypes.ModuleName] = cdc.MustMarshalJSON(stakingtypes.NewGenesisState(sp, vals, dels))
	balances = append(balances, banktypes.Balance{
		Address: authtypes.NewModuleAddress(stakingtypes.BondedPoolName).String(),
		Coins:   sdk.NewCoins(sdk.NewCoin(BondDenom, bondAmt.MulRaw(int64(nv)))),
	})
	gs[banktypes.ModuleName] = cdc.MustMarshalJSON(banktypes.NewGenesisState(banktypes.DefaultGenesisState().Params, balances, supply, nil, nil))

	if cfg.Mutate != nil {
		cfg.Mutate(cdc, gs)
	}
	// encoding/json sorts map keys: the genesis bytes are deterministic
	stateBytes, err := json.Marshal(gs)
	if err != nil {
		panic(err)
	}
	if _, err := n.App.InitChain(&abci.RequestInitChain{
		ChainId: ChainID, Time: GenesisTime, ConsensusParams: sims.DefaultConsensusParams,
		Validators: []abci.ValidatorUpdate{}, AppStateBytes: stateBytes, InitialHeight: 1,
	}); err != nil {
		panic(err)
	}
	// one real FinalizeBlock+Commit flushes the InitChain state
	if _, err := n.App.FinalizeBlock(&abci.RequestFinalizeBlock{Height: 1, Time: GenesisTime}); err != nil {
		panic(err)
	}
	if _, err := n.App.Commit(); err != nil {
		panic(err)
	}
	n.Height = 1
	n.LastAppHash = n.App.LastCommitID().Hash
	return n
}

// Restart drops the application object (all in-memory keeper state) and
// builds a new one over the same durable DB.
func (n *Node) Restart() {
	if n.inBlock {
		panic("restart inside a block")
	}
	n.App = newApp(n.DB)
	if n.App.LastBlockHeight() != n.Height {
		panic(fmt.Sprintf("restart: durable height %d, expected %d", n.App.LastBlockHeight(), n.Height))
	}
	n.Restarts++
}

// BeginBlock advances the clock by dt and the height by one and runs the real
// BeginBlocker. A panic in BeginBlocker is returned (the block is not opened).
func (n *Node) BeginBlock(dt time.Duration) (pv interface{}) {
	if n.inBlock {
		panic("BeginBlock inside a block")
	}
	n.Height++
	if n.Jitter {
		// real header times carry nanoseconds: give every block another sub-millisecond part
		old := int64(n.Time.Nanosecond()) % 1_000_000
		dt += time.Duration((n.Height*7919+13)%1_000_000 - old)
		if dt <= 0 {
			dt = time.Nanosecond
		}
	}
	n.Time = n.Time.Add(dt)
	hdr := tmproto.Header{ChainID: ChainID, Height: n.Height, Time: n.Time, AppHash: n.LastAppHash,
		ProposerAddress: sdk.ConsAddress(n.consAddr(0))}
	if n.Spec > 0 && (n.Height*2654435761+17)%1000 < n.Spec {
		func() {
			defer func() { _ = recover() }()
			sctx := sdk.NewContext(n.App.CommitMultiStore().CacheMultiStore(), hdr, false, Logger).
				WithBlockGasMeter(storetypes.NewInfiniteGasMeter()).
				WithGasMeter(storetypes.NewInfiniteGasMeter()).
				WithExecMode(sdk.ExecModeFinalize).
				WithConsensusParams(*sims.DefaultConsensusParams)
			if _, err := n.App.PreBlocker(sctx, nil); err != nil {
				return
			}
			if _, err := n.App.BeginBlocker(sctx); err != nil {
				return
			}
			_, _ = n.App.EndBlocker(sctx)
		}()
		n.Specs++
	}
	n.blockMS = n.App.CommitMultiStore().CacheMultiStore()
	n.Ctx = sdk.NewContext(n.blockMS, hdr, false, Logger).
		WithBlockGasMeter(storetypes.NewInfiniteGasMeter()).
		WithGasMeter(storetypes.NewInfiniteGasMeter()).
		WithExecMode(sdk.ExecModeFinalize).
		WithConsensusParams(*sims.DefaultConsensusParams)
	n.inBlock = true
	func() {
		defer func() { pv = recover() }()
		if _, err := n.App.PreBlocker(n.Ctx, nil); err != nil {
			panic(err)
		}
		if _, err := n.App.BeginBlocker(n.Ctx); err != nil {
			panic(err)
		}
	}()
	return pv
}

func (n *Node) consAddr(i int) []byte {
	return ed25519.GenPrivKeyFromSecret([]byte(fmt.Sprintf("verif/val/%d", i))).PubKey().Address()
}

// EndBlock runs the real EndBlocker, writes the block branch and commits
// (real IAVL hash, transient stores cleared). A panic in EndBlocker is returned
// and the block is discarded.
func (n *Node) EndBlock() (pv interface{}) {
	if !n.inBlock {
		panic("EndBlock outside a block")
	}
	func() {
		defer func() { pv = recover() }()
		if _, err := n.App.EndBlocker(n.Ctx); err != nil {
			panic(err)
		}
	}()
	n.inBlock = false
	if pv != nil {
		n.Height--
		return pv
	}
	n.blockMS.Write()
	n.App.CommitMultiStore().Commit()
	n.LastAppHash = n.App.CommitMultiStore().LastCommitID().Hash
	return nil
}

// QueryCtx returns a throw-away branch of the current state (inside a block:
// of the block being built; otherwise of the last committed state).
func (n *Node) QueryCtx() sdk.Context {
	if n.inBlock {
		c, _ := n.Ctx.CacheContext()
		return c.WithEventManager(sdk.NewEventManager()).WithGasMeter(storetypes.NewInfiniteGasMeter())
	}
	hdr := tmproto.Header{ChainID: ChainID, Height: n.Height, Time: n.Time}
	return sdk.NewContext(n.App.CommitMultiStore().CacheMultiStore(), hdr, false, log.NewNopLogger()).
		WithBlockGasMeter(storetypes.NewInfiniteGasMeter()).WithGasMeter(storetypes.NewInfiniteGasMeter()).WithExecMode(sdk.ExecModeFinalize)
}

// Result of one delivered message.
type Result struct {
	Outcome string // "ok", "err", "oog", "panic", "abort" (succeeded, then rolled back), "invalid" (ValidateBasic)
	Err     error
	Panic   interface{}
	Resp    *sdk.Result
	GasUsed uint64
	Events  []abci.Event
}

func (r Result) OK() bool { return r.Outcome == "ok" }

type validateBasic interface{ ValidateBasic() error }

// Deliver executes one message the way BaseApp.runTx does for a single-message
// transaction: ValidateBasic, then the handler on a branch of the block
// context with a finite gas meter (0 = infinite); out-of-gas and other panics
// are recovered and the branch is discarded; on success the branch is written
// unless forceAbort asks for the enclosing transaction to be rolled back.
func (n *Node) Deliver(msg sdk.Msg, gasLimit uint64, forceAbort bool) (res Result) {
	return n.DeliverOn(n.Ctx, msg, gasLimit, forceAbort)
}

// DeliverOn is Deliver against an arbitrary parent context (used by probes on
// discarded branches).
func (n *Node) DeliverOn(parent sdk.Context, msg sdk.Msg, gasLimit uint64, forceAbort bool) (res Result) {
	if vb, ok := msg.(validateBasic); ok {
		if err := vb.ValidateBasic(); err != nil {
			return Result{Outcome: "invalid", Err: err}
		}
	}
	handler := n.App.MsgServiceRouter().Handler(msg)
	if handler == nil {
		return Result{Outcome: "invalid", Err: fmt.Errorf("no handler for %T", msg)}
	}
	cctx, write := parent.CacheContext()
	var gm storetypes.GasMeter = storetypes.NewInfiniteGasMeter()
	if gasLimit > 0 {
		gm = storetypes.NewGasMeter(gasLimit)
	}
	cctx = cctx.WithGasMeter(gm).WithEventManager(sdk.NewEventManager())
	defer func() {
		if x := recover(); x != nil {
			res.GasUsed = gm.GasConsumed()
			switch x.(type) {
			case storetypes.ErrorOutOfGas, storetypes.ErrorGasOverflow:
				res.Outcome = "oog"
			default:
				res.Outcome = "panic"
			}
			res.Panic = x
		}
	}()
	r, err := handler(cctx, msg)
	res.GasUsed = gm.GasConsumed()
	if err != nil {
		res.Outcome, res.Err = "err", err
		if gasLimit > 0 && (gm.IsOutOfGas() || gm.IsPastLimit()) {
			// an out-of-gas panic was recovered into an error further down (e.g. by a
			// hook wrapper); the transaction fails either way
			res.Outcome = "oog"
		}
		return res
	}
	if gasLimit > 0 && (gm.IsPastLimit() || gm.IsOutOfGas()) {
		// An out-of-gas panic was recovered further down and swallowed (e.g. by a hook
		// wrapper) so the handler returned normally with the meter past its limit. On a
		// real node the transaction still fails: the post handler's first store read on
		// the same meter re-raises out-of-gas and everything is rolled back.
		res.Outcome = "oog"
		return res
	}
	res.Resp = r
	res.Events = cctx.EventManager().ABCIEvents()
	if forceAbort {
		// The transaction being rolled back is a multi-message one: after the message has succeeded, the same message
		// runs once more on the same branch (it may succeed - adding to the lock it has just created - or be refused -
		// by a check that reads what the first one wrote), then the engine's reads run on the branch, and only then is
		// everything discarded. Code that keeps what it saw or wrote on the branch outside the store now holds state
		// of a transaction that never happened.
		func() {
			defer func() { _ = recover() }()
			rctx := cctx.WithEventManager(sdk.NewEventManager())
			_, _ = handler(rctx, msg)
			if n.BranchReads != nil {
				n.BranchReads(rctx)
			}
		}()
		res.Outcome = "abort"
		return res
	}
	write()
	res.Outcome = "ok"
	return res
}

// ---- helpers over bank ----

func (n *Node) Balance(ctx sdk.Context, addr sdk.AccAddress, denom string) osmomath.Int {
	return n.App.BankKeeper.GetBalance(ctx, addr, denom).Amount
}

func (n *Node) AllBalances(ctx sdk.Context, addr sdk.AccAddress) sdk.Coins {
	return n.App.BankKeeper.GetAllBalances(ctx, addr)
}

func (n *Node) Supply(ctx sdk.Context, denom string) osmomath.Int {
	return n.App.BankKeeper.GetSupply(ctx, denom).Amount
}

// Digest hashes every key/value pair of the named stores (all KV stores when
// none is named) as seen from ctx.
func (n *Node) Digest(ctx sdk.Context, stores ...string) string {
	keys := n.App.GetKVStoreKey()
	if len(stores) == 0 {
		for name := range keys {
			stores = append(stores, name)
		}
	}
	sort.Strings(stores)
	h := sha256.New()
	for _, name := range stores {
		k := keys[name]
		if k == nil {
			continue
		}
		fmt.Fprintf(h, "[%s]", name)
		it := ctx.MultiStore().GetKVStore(k).Iterator(nil, nil)
		for ; it.Valid(); it.Next() {
			kb, vb := it.Key(), it.Value()
			fmt.Fprintf(h, "%d:", len(kb))
			h.Write(kb)
			fmt.Fprintf(h, "%d:", len(vb))
			h.Write(vb)
		}
		it.Close()
	}
	return fmt.Sprintf("%x", h.Sum(nil)[:12])
}

// DeliverFault runs msg with the fault described by f ("" none, "abort",
// "oog:<permille>"). For oog the message is first executed on a discarded
// branch to learn its gas use g; it then runs with a gas limit of
// g*permille/1000, so the out-of-gas panic is raised by the gas-metered store
// at an arbitrary access inside the handler.
func (n *Node) DeliverFault(msg sdk.Msg, fkind string, farg int64) Result {
	switch fkind {
	case "abort":
		return n.Deliver(msg, 0, true)
	case "oog":
		probe := n.Deliver(msg, 0, true)
		if probe.Outcome != "abort" {
			return probe // would not succeed anyway: report the natural outcome
		}
		limit := probe.GasUsed * uint64(farg%1000) / 1000
		if limit == 0 {
			limit = 1
		}
		return n.Deliver(msg, limit, false)
	}
	return n.Deliver(msg, 0, false)
}
