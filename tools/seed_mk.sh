#!/bin/bash
# mk.sh <PID> <wave> : make worktree + overlay for a seeding sub-agent
P=$1; W=$2; WT=/tmp/wt$W-$P
git -C /repo worktree remove --force $WT >/dev/null 2>&1
git -C /repo worktree add -q --detach $WT HEAD || exit 1
echo 'package statik' > /tmp/statik-stub.go
echo "{\"Replace\": {\"$WT/client/docs/statik/statik.go\": \"/tmp/statik-stub.go\"}}" > /tmp/ov$W-$P.json
mkdir -p /tmp/seed$W-$P/demo
echo $WT
