#!/bin/bash
# tools/seed_verify.sh <PID> <demo-dest-relative-dir> <pkg-dir to cd> <go test args...>
# Confirms a seeded change in a FRESH scratch worktree: demo passes without the patch, fails with it,
# the tree still builds, then runs ./check <props> against the patched worktree. Prints a summary.
set -u
PID="$1"; DEST="$2"; CDIR="$3"; shift 3
SRC=/tmp/seed-$PID
WT=/var/tmp/seedchk-$PID
export GOPROXY=off GOSUMDB=off GOTOOLCHAIN=local GOFLAGS=
git -C /repo worktree remove --force "$WT" >/dev/null 2>&1
git -C /repo worktree add -q --detach "$WT" HEAD || exit 2
echo 'package statik' > /tmp/statik-chk.go
echo "{\"Replace\": {\"$WT/client/docs/statik/statik.go\": \"/tmp/statik-chk.go\"}}" > /tmp/ov-chk-$PID.json
mkdir -p "$WT/$DEST" && cp -r "$SRC"/demo/* "$WT/$DEST/" 2>/dev/null
run_demo() { ( cd "$WT/$CDIR" && go test -overlay=/tmp/ov-chk-$PID.json -vet=off -count=1 "$@" ) > /tmp/seedchk-$PID.log 2>&1; echo $?; }
R0=$(run_demo "$@"); echo "demo WITHOUT patch: exit $R0 ($(tail -1 /tmp/seedchk-$PID.log | cut -c1-120))"
( cd "$WT" && git apply "$SRC/patch.diff" ) || { echo "patch does not apply"; exit 2; }
R1=$(run_demo "$@"); echo "demo WITH patch: exit $R1 ($(grep -m1 -i "fail\|error" /tmp/seedchk-$PID.log | cut -c1-160))"
( cd "$WT" && go build -overlay=/tmp/ov-chk-$PID.json ./... ) > /tmp/seedchk-$PID.build.log 2>&1; echo "build with patch: exit $?"
echo "worktree left at $WT (patched) for checks"
