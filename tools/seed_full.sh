#!/bin/bash
# tools/seed_full.sh <PID> <kind: run|test> <dest dir for demo> <test args...> -- <props to check>
# Fresh worktree; demo without/with patch; build; run checks against patched tree; print summary lines.
set -u
PID="$1"; KIND="$2"; DEST="$3"; shift 3
TARGS=(); while [ $# -gt 0 ] && [ "$1" != "--" ]; do TARGS+=("$1"); shift; done; shift
PROPS="$*"
SRC=${SEEDSRC:-/tmp/seed-$PID}; WT=/var/tmp/seedchk-$PID
export GOPROXY=off GOSUMDB=off GOTOOLCHAIN=local GOFLAGS=
git -C /repo worktree remove --force "$WT" >/dev/null 2>&1
git -C /repo worktree add -q --detach "$WT" HEAD || exit 2
echo 'package statik' > /tmp/statik-chk.go
echo "{\"Replace\": {\"$WT/client/docs/statik/statik.go\": \"/tmp/statik-chk.go\"}}" > /tmp/ov-chk-$PID.json
mkdir -p "$WT/$DEST"; cp -r "$SRC"/demo/. "$WT/$DEST/"
demo() { if [ "$KIND" = run ]; then ( cd "$WT" && go run -overlay=/tmp/ov-chk-$PID.json "./${RUNPKG:-$DEST}" ); else ( cd "$WT/${TESTDIR:-.}" && go test -overlay=/tmp/ov-chk-$PID.json -vet=off -count=1 "${TARGS[@]}" ); fi > /tmp/seedchk-$PID.log 2>&1; echo $?; }
echo "[$PID] demo WITHOUT patch: exit $(demo)"
( cd "$WT" && git apply "$SRC/patch.diff" ) || { echo "[$PID] patch does not apply"; exit 2; }
echo "[$PID] demo WITH patch: exit $(demo)"
( cd "$WT" && go build -overlay=/tmp/ov-chk-$PID.json ./... ) > /tmp/seedchk-$PID.build.log 2>&1; echo "[$PID] build with patch: exit $?"
( cd "$SRC/demo" && find . -type f ) | while read f; do rm -f "$WT/$DEST/$f"; done
VR=/tmp/vr-seed-$PID; rm -rf $VR; mkdir -p $VR; cp /verif/known_findings.jsonl $VR/
for P in $PROPS; do
  OUT=$(cd /verif && VERIF_REPO=$WT VERIF_ROOT=$VR ./check $P quick 2>&1)
  if echo "$OUT" | grep -q "^VIOLATION"; then echo "[$PID] check $P: CAUGHT -- $(echo "$OUT" | grep -A2 '^VIOLATION' | head -3 | tr '\n' ' ' | cut -c1-330) | $(echo "$OUT" | tail -1)"; else echo "[$PID] check $P: missed -- $(echo "$OUT" | grep -i 'HARNESS' | head -2 | tr '\n' ' ') $(echo "$OUT" | tail -1)"; fi
done
git -C /repo worktree remove --force "$WT"
