#!/usr/bin/env python3
"""Regenerates /verif/MANIFEST.json from the table below (single source of truth for the check list)."""
import json, sys
TECH = "deterministic simulation with fault injection: "
CHECKS = {
 "C01": ("cl", TECH + "seeded histories of LP/swap/claim/gauge/time operations with out-of-gas, roll-back and restart faults against the real application; 'everybody exits' probe on discarded branches and reward-account coverage after every step",
         "Seeded search over operation histories (<=24 positions, 1-3 pools, three amount and price regimes, both sides of the accumulator-scaling threshold) with faults; every 8 steps and at the end every position claims and withdraws in a seeded order on a discarded branch: each message must succeed, reward accounts must cover all claimables after every step, pool-account leftover must be rounding dust. Sampling, not proof.",
         "L1 harness: CometBFT and ante/post handlers stubbed (sender taken as authenticated); positions bound by locks are not generated here (C11 engine covers superfluid positions); dust bound stated in evidence assumptions.", "DESIGN.md §5 C01"),
 "C03": ("cl", TECH + "every executed swap of the simulated histories is compared with an exact-rational reference curve walker over the reference tick map, with estimate-vs-execution and round-trip probes on discarded branches",
         "Each executed swap (both directions, exact-in/out, 1 unit .. draining, amounts aimed at initialised ticks +-1) is re-walked in exact rational arithmetic through the reference positions' ticks; payout never above / charge never below the curve, difference within a derived rounding bound; estimate equals execution and leaves the state digest unchanged; there-and-back never profits. Sampling, not proof.",
         "Trusted: the implementation's public tick->sqrt-price map is used for bucket boundaries (C14 not claimed); bound derivation and observed slack in evidence.", "DESIGN.md §5 C03"),
 "C07": ("cl", TECH + "position-table reference model compared with pool liquidity, initialised ticks, price/tick consistency and position records after every step of simulated histories with faults",
         "After every step (including failed, out-of-gas and rolled-back messages and restarts): active liquidity, every stored tick's gross/net liquidity, price-vs-tick agreement at every position boundary, empty-pool state and the position records are compared exactly with a position table kept from message responses. Sampling, not proof.",
         "Reference built from message responses only; add-to-position is modelled as documented (withdraw all + new position id).", "DESIGN.md §5 C07"),
 "C08": ("cl", TECH + "exact pro-rata spread-reward ledger from the reference curve walker plus tolerance-free relational oracles (twins, proportional siblings, never-in-range, claim/transfer conservation, uptime forfeits) along simulated histories with faults",
         "Per swap bucket the ideal spread charge is split pro-rata over in-range reference positions; claimables must match the ledger within a derived truncation allowance; twins claim identically, same-range siblings proportionally, never-in-range positions nothing; claims pay exactly the claimable, transfers keep it; incentives are never paid before the smallest uptime of the pool's gauges while other liquidity is active; reward accounts cover all claimables. Sampling, not proof.",
         "Incentive entitlements are checked relationally (twins/siblings/never-in-range/uptime/coverage), not by an absolute ledger; tolerances stated in evidence assumptions.", "DESIGN.md §5 C08"),
 "C06": ("lockup", TECH + "lock-table reference model compared with module balance, accumulation store, every lock query and balance conservation after every message and block, with out-of-gas, roll-back, restart and height-burst faults",
         "Seeded histories of lock / add / begin-unlock (full, partial) / unlock-all / extend / set-receiver / force-unlock by 2-5 owners over 3 denominations (one a byte-prefix of another) and 6 durations, irregular clocks and bursts across heights divisible by 120; after every message and block the module balance, per-denomination duration totals, all gRPC lock queries and owner conservation are compared with a lock table. Sampling, not proof.",
         "Time-based queries are asked at instants >= 1ns away from lock end times (equality is not pinned down by the query documentation).", "DESIGN.md §5 C06"),
 "C11": ("superfluid", TECH + "lock/intermediary-account reference compared with staking delegations, synthetic locks and supply-with-offset after every message, block and epoch refresh, with faults",
         "Seeded histories over 2-3 validators, classic and concentrated superfluid assets, delegations, top-ups, (partial) undelegations, unbondings, price moves and epochs with out-of-gas/roll-back/restart faults; stake vs risk-adjusted value of connected locks (exact after refresh, bounded between), exactly one staking/unstaking marker with the right end time, supply-with-offset constant, begin-unlock on delegated locks rejected, no early withdrawal. Sampling, not proof.",
         "No slashing in this engine; two open known findings on the literal one-unit-per-lock tolerance between refreshes are reported as KNOWN-FINDING.", "DESIGN.md §5 C11"),
 "C15": ("accum", TECH + "seeded operation/transaction/abort schedules with stale handles against the real accumulator, refinement-checked against an exact-rational ledger",
         "Seeded search over operation sequences grouped into transactions that commit, are rolled back, or run out of gas at the k-th store access, with two live handles per accumulator; after every operation claimable amounts, claim results, total shares and position existence are compared with an exact-rational ledger (tolerance n*0.5e-18 for n rounded decimal products). Sampling, not proof.",
         "Trusted: cachekv/dbadapter store, sdk.DecCoins arithmetic as the decimal type, the reference ledger. Handle discipline assumed as stated in the evidence assumptions.", "DESIGN.md §5 C15"),
 "C16": ("sumtree", TECH + "seeded operation/abort schedules against the real sum-tree, refinement-checked step by step against a sorted-map reference model",
         "Seeded search over operation sequences, fan-outs, key alphabets and abort points; after every step every query over the whole key alphabet and the stored node structure is compared with a sorted map. Sampling, not proof.",
         "Trusted: cachekv/dbadapter store; the reference sorted map. Two open known findings (Remove leaves stale separators; removing the sentinel) are reported as KNOWN-FINDING.", "DESIGN.md §5 C16"),
 "C17": ("epochs", TECH + "simulated clock (jitter, exact boundaries, multi-epoch gaps) and subscribers that fail after partial writes, against the real epochs keeper and hook containment",
         "Seeded search over block-time sequences, timer sets and per-signal subscriber outcomes (ok/error/panic/out-of-gas with writes before and after an inner committed branch); timers, signal sequence and subscribers' durable state compared with an arithmetic reference after every block. Sampling, not proof.",
         "Subscribers are simulator-owned (the real subscribers run in the app-level engines).", "DESIGN.md §5 C17"),
 "C18": ("mint", TECH + "simulated clock across mint epochs with per-run parameter sets, restarts and natural hook roll-back, closed-ledger accounting of every balance and supply-with-offset at each epoch end",
         "Seeded parameter sets (proportions, reduction factor/period, start epoch, receiver lists incl. empty addresses, provisions) and clock shapes over 5-60 epochs; at every epoch end the supply growth, mint account, every recipient's delta (followed through pool-incentives to gauges/community pool) and the reduction schedule are compared with an exact reference. Sampling, not proof.",
         "A rolled-back mint hook (developer vesting balance too small) is treated as leaving no trace, as documented.", "DESIGN.md §5 C18"),
 "C20": ("authz", TECH + "adversary steps (wrong sender classes: other users, previous owners/admins, pool addresses, module accounts, renounced admin) against owned objects built by real messages; success or any state change is a violation, with rightful-owner attribution on a sibling branch",
         "Seeded worlds of positions, locks (some superfluid-delegated), factory denoms (admin changed / renounced) and pools; for each adversary step the message must fail and the digest of all stores must be unchanged, while the same message from the rightful owner on a sibling branch succeeds; renounced denoms reject everybody; admin actions against module accounts are rejected. Sampling, not proof.",
         "The governance module account is treated as an administrator for position transfer (documented in the code); renounced admins come from genesis because MsgChangeAdmin to the empty address fails ValidateBasic.", "DESIGN.md §5 C20"),
 "C02": ("classic", TECH + "seeded histories of pool creation / joins / exits / routed swaps / donations with faults; per-message closed bank ledger and pool-reserve equality", "", "", "DESIGN.md §5 C02"),
 "C04": ("classic", TECH + "exact-rational invariant (weighted product per share, stableswap invariant) tracked along the same simulated histories, closed-cycle no-profit probes on discarded branches", "", "", "DESIGN.md §5 C04"),
 "C05": ("router", TECH + "routed vs hop-by-hop vs split vs estimate executed on sibling branches of the same simulated state, with mid-route out-of-gas, restarts and aborted pool creations", "", "", "DESIGN.md §5 C05"),
 "C09": ("gauges", TECH + "gauge-table and lock-table reference compared with every receiver's balance delta at each simulated epoch end", "", "", "DESIGN.md §5 C09"),
 "C10": ("twap", TECH + "harness-recorded end-of-block price series and exact-rational time-weighted means compared with TWAP queries across pruning, restarts and price errors", "", "", "DESIGN.md §5 C10"),
 "C19": ("determinism", TECH + "replica set fed the same signed block stream through FinalizeBlock/Commit with restarts, crash-before-commit and export/import forks; app hash, tx results and exports compared", "", "", "DESIGN.md §5 C19"),
}
ENGINE_PATH = {"cl":"harness/engines/cl","lockup":"harness/engines/lockup","superfluid":"harness/engines/superfluid","accum":"harness/simlib/accum.go","sumtree":"harness/simlib/sumtree.go","epochs":"harness/simlib/epochs.go","mint":"harness/engines/mint","authz":"harness/engines/authz","classic":"harness/engines/classic","router":"harness/engines/router","gauges":"harness/engines/gauges","twap":"harness/engines/twap","determinism":"harness/engines/determinism"}
NA = {
 "C12": "pure function of its operands: no schedule, clock, fault, storage or second party exists for a simulator to control; deciding it is input generation or proof, not deterministic simulation",
 "C13": "pure functions of one or two numbers (exp2, log2, pow, sqrt, sig-fig rounding, binary search): nothing to schedule or fault",
 "C14": "pure total functions over a finite tick range: enumeration or proof territory, not simulation",
}
claimed = sys.argv[1:]
checks=[]; engines={}
for pid in sorted(claimed):
    eng, tech, text, note, ref = CHECKS[pid]
    assert text, pid
    checks.append({"property_id":pid,"quick_cmd":f"./check {pid} quick","thorough_cmd":f"./check {pid} thorough","evidence_file":f"evidence/{pid}.json","replay_cmd_template":"./check replay {path}","engine":eng,"technique":tech,"level_claimed":{"category":"exploration","text":text,"design_ref":ref},"level_note":note})
    engines.setdefault(eng,[]).append(pid)
na=[{"property_id":k,"reason":v} for k,v in NA.items()]
for pid in sorted(CHECKS):
    if pid not in claimed:
        na.append({"property_id":pid,"reason":"not claimed yet: its simulation engine is still being built/validated in this round (planned in DESIGN.md §5); it moves to checks when the engine is integrated"})
m={"version":1,"setup_cmd":"./check setup",
 "hooks":{"guard":"verif","enable":"no hooks are needed: every seam (store, clock/header, gas meter, epoch hook interface, process boundary, DB) already exists; checks build /repo's working tree through harness/go.work with -overlay for the intentionally emptied client/docs/statik/statik.go","baseline_off_cmd":"for m in . osmomath osmoutils x/epochs x/ibc-hooks; do (cd /repo/$m && go test -json -vet=off -count=1 -timeout 25m ./...); done","source_commits":[],"add_only":True},
 "engines":[{"name":e,"path":ENGINE_PATH[e],"serves_properties":ps,"kind_free_text":"deterministic simulation engine (see DESIGN.md)"} for e,ps in sorted(engines.items())],
 "checks":checks,"not_applicable":na,
 "notes":"All checks: ./check <ID> quick|thorough; replay: ./check replay <file>; determinism self-test: ./check selftest. Known findings: known_findings.jsonl."}
json.dump(m,open('/verif/MANIFEST.json','w'),indent=1)
print("claimed",len(checks),"na",len(na))
