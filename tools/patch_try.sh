#!/bin/bash
# tools/patch_try.sh <name> <patch.diff> <props...>: apply a patch to a fresh scratch worktree of /repo (never /repo),
# run ./check <prop> quick against it (VERIF_REPO), print one verdict line per property, remove the worktree.
set -u
NAME="$1"; PATCH="$2"; shift 2
WT=/var/tmp/seedchk-$NAME
export GOPROXY=off GOSUMDB=off GOTOOLCHAIN=local GOFLAGS=
git -C /repo worktree remove --force "$WT" >/dev/null 2>&1
git -C /repo worktree add -q --detach "$WT" HEAD || exit 2
( cd "$WT" && git apply "$PATCH" ) || { echo "[$NAME] patch does not apply"; git -C /repo worktree remove --force "$WT"; exit 2; }
VR=/tmp/vr-try-$NAME; rm -rf $VR; mkdir -p $VR; cp /verif/known_findings.jsonl $VR/
for P in "$@"; do
  OUT=$(cd /verif && VERIF_REPO=$WT VERIF_ROOT=$VR ./check $P ${TIER:-quick} 2>&1)
  if echo "$OUT" | grep -q "^VIOLATION"; then echo "[$NAME] check $P: CAUGHT -- $(echo "$OUT" | grep -A2 '^VIOLATION' | head -3 | tr '\n' ' ' | cut -c1-330) | $(echo "$OUT" | tail -1)"; else echo "[$NAME] check $P: missed -- $(echo "$OUT" | grep -i 'HARNESS' | head -2 | tr '\n' ' ') $(echo "$OUT" | tail -1)"; fi
done
git -C /repo worktree remove --force "$WT"; rm -rf $VR "/verif/harness/.work/$(echo "$WT" | md5sum | cut -c1-10)"
