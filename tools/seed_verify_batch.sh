#!/bin/bash
# verify.sh <wave> "<PID>:<props>" ...
W=$1; shift
cd /verif
for spec in "$@"; do
  p=${spec%%:*}; props=${spec#*:}
  SEEDSRC=/tmp/seed$W-$p RUNPKG=cmd/demo$W-$p tools/seed_full.sh $p run . -- $props 2>&1 | tail -8
done
echo ALLDONE
