#!/bin/bash
# tools/benign_try.sh <name> <patch.diff> [props...]: apply a behaviour-preserving change (extra gas, events, logs, reads,
# equivalent control flow) to a scratch worktree and run every check against it: NONE may raise an alarm.
set -u
NAME="$1"; PATCH="$2"; shift 2
PROPS="${*:-C01 C02 C03 C04 C05 C06 C07 C08 C09 C10 C11 C15 C16 C17 C18 C19 C20}"
WT=/var/tmp/seedchk-$NAME
export GOPROXY=off GOSUMDB=off GOTOOLCHAIN=local GOFLAGS=
git -C /repo worktree remove --force "$WT" >/dev/null 2>&1
git -C /repo worktree add -q --detach "$WT" HEAD || exit 2
( cd "$WT" && git apply "$PATCH" ) || { echo "[$NAME] patch does not apply"; git -C /repo worktree remove --force "$WT"; exit 2; }
VR=/tmp/vr-try-$NAME; rm -rf $VR; mkdir -p $VR; cp /verif/known_findings.jsonl $VR/
for P in $PROPS; do
  OUT=$(cd /verif && VERIF_REPO=$WT VERIF_ROOT=$VR ./check $P quick -workers ${WORKERS:-8} 2>&1); rc=$?
  if [ $rc -ne 0 ] || echo "$OUT" | grep -q "^VIOLATION"; then echo "[$NAME] check $P: FALSE ALARM rc=$rc -- $(echo "$OUT" | grep -A2 '^VIOLATION\|HARNESS' | head -4 | tr '\n' ' ' | cut -c1-400)"; else echo "[$NAME] check $P: quiet -- $(echo "$OUT" | tail -1 | cut -c1-120)"; fi
done
git -C /repo worktree remove --force "$WT"; rm -rf $VR "/verif/harness/.work/$(echo "$WT" | md5sum | cut -c1-10)"
echo BENIGN-DONE
