#!/bin/bash
# tools/seed_verify_run.sh <PID> <relative dir of demo program> : like seed_verify.sh but the demo is a `go run` program
set -u
PID="$1"; PROG="$2"
SRC=/tmp/seed-$PID; WT=/var/tmp/seedchk-$PID
export GOPROXY=off GOSUMDB=off GOTOOLCHAIN=local GOFLAGS=
git -C /repo worktree remove --force "$WT" >/dev/null 2>&1
git -C /repo worktree add -q --detach "$WT" HEAD || exit 2
echo 'package statik' > /tmp/statik-chk.go
echo "{\"Replace\": {\"$WT/client/docs/statik/statik.go\": \"/tmp/statik-chk.go\"}}" > /tmp/ov-chk-$PID.json
cp -r "$SRC"/demo/. "$WT/"
( cd "$WT" && go run -overlay=/tmp/ov-chk-$PID.json "./$PROG" ) > /tmp/seedchk-$PID.log 2>&1; echo "demo WITHOUT patch: exit $? ($(tail -1 /tmp/seedchk-$PID.log | cut -c1-120))"
( cd "$WT" && git apply "$SRC/patch.diff" ) || { echo "patch does not apply"; exit 2; }
( cd "$WT" && go run -overlay=/tmp/ov-chk-$PID.json "./$PROG" ) > /tmp/seedchk-$PID.log 2>&1; echo "demo WITH patch: exit $? ($(tail -1 /tmp/seedchk-$PID.log | cut -c1-160))"
( cd "$WT" && go build -overlay=/tmp/ov-chk-$PID.json ./... ) > /tmp/seedchk-$PID.build.log 2>&1; echo "build with patch: exit $?"
rm -rf "$WT/$PROG"
echo "worktree left at $WT (patched, demo removed)"
