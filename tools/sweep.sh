#!/bin/bash
# tools/sweep.sh <tier> <workers> <seed>... : run every claimed check under other VERIF_SEED values (false-alarm hunt);
# writes no evidence; prints one line per (seed, property).
T=$1; W=$2; shift 2
cd "$(dirname "$0")/.."
for s in "$@"; do
  for p in C01 C02 C03 C04 C05 C06 C07 C08 C09 C10 C11 C15 C16 C17 C18 C19 C20; do
    out=$(VERIF_SEED=$s ./check $p $T -workers $W -no-evidence 2>&1); rc=$?
    echo "seed=$s prop=$p rc=$rc $(echo "$out" | grep -c '^VIOLATION') violations | $(echo "$out" | tail -1 | cut -c1-200)"
    [ $rc -ne 0 ] && echo "$out" | grep -A3 "^VIOLATION\|HARNESS" | head -20
  done
done
