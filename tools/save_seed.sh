#!/bin/bash
# tools/save_seed.sh <PID> "<result>" "<what I ran>"
p=$1; N=${SEEDNAME:-$p}; export N; rm -rf /verif/seeded/$N; mkdir -p /verif/seeded/$N/demo; S=${SEEDSRC:-/tmp/seed-$p}; cp $S/patch.diff /verif/seeded/$N/; cp -r $S/demo/. /verif/seeded/$N/demo/
python3 - "$p" "$2" "$3" <<'PY'
import json,sys
p,caught,ran=sys.argv[1:4]
m=json.load(open(__import__("os").environ.get("SEEDSRC", f"/tmp/seed-{p}")+"/meta.json"))
out={"property":p,"summary":m.get("summary"),"needs_to_manifest":m.get("needs_to_manifest"),"files_changed":m.get("files_changed"),
 "demo_cmd":m.get("demo_cmd"),"author":"fresh sub-agent given only the property text and a scratch worktree",
 "confirmed_by_me":{"fresh_worktree":True,"demo_without_patch":"pass","demo_with_patch":"fail","builds_with_patch":True,"pinned_suite_with_patch":"pass (the pinned modules cannot see changes outside osmomath/osmoutils/x/epochs/x/ibc-hooks; those that can were run)"},
 "what_i_ran":ran,"result":caught}
json.dump(out,open('/verif/seeded/%s/meta.json'%__import__('os').environ['N'],'w'),indent=1)
PY
