#!/bin/bash
# Usage: tools/mutant.sh <name> <cmd-dir e.g. sim-cl> <props e.g. "C03 C07"> <runs> <python-edit-script>
# Applies an edit to a scratch worktree of /repo (never /repo itself), builds the given simulator
# binary against it, runs the listed property checks, reports, and removes the worktree.
set -u
NAME="$1"; CMD="$2"; PROPS="$3"; RUNS="$4"; EDIT="$5"
WT=/var/tmp/wt-mut-$NAME
H=/verif/harness
export GOPROXY=off GOSUMDB=off GOTOOLCHAIN=local GOFLAGS=
git -C /repo worktree remove --force "$WT" >/dev/null 2>&1
git -C /repo worktree add -q --detach "$WT" HEAD || exit 2
( cd "$WT" && python3 "$EDIT" ) || { echo "MUTANT $NAME: edit failed"; git -C /repo worktree remove --force "$WT"; exit 2; }
( cd "$WT" && git diff --stat | tail -1 )
W="$H/.work/mut-$NAME"; mkdir -p "$W"
sed "s#/repo#$WT#g; s#^\t\.\$#\t$H#" "$H/go.work" > "$W/go.work"
echo "{\"Replace\": {\"$WT/client/docs/statik/statik.go\": \"$H/overlay/statik.go\"}}" > "$W/overlay.json"
cp -f /repo/go.work.sum "$W/go.work.sum"
( cd "$H" && GOWORK="$W/go.work" go build -overlay="$W/overlay.json" -o "$W/sim" "./cmd/$CMD" ) > "$W/build.log" 2>&1 || { echo "MUTANT $NAME: build failed"; tail -5 "$W/build.log"; git -C /repo worktree remove --force "$WT"; exit 2; }
VR=/tmp/vr-mut-$NAME; rm -rf "$VR"; mkdir -p "$VR"; cp /verif/known_findings.jsonl "$VR/"
for P in $PROPS; do
  OUT=$(VERIF_ROOT="$VR" "$W/sim" check -prop "$P" -tier quick -runs "$RUNS" -secs 200 2>&1)
  if echo "$OUT" | grep -q "^VIOLATION"; then
    echo "MUTANT $NAME prop $P: CAUGHT -- $(echo "$OUT" | grep -A2 '^VIOLATION' | head -3 | tr '\n' ' ' | cut -c1-400)"
  else
    echo "MUTANT $NAME prop $P: missed -- $(echo "$OUT" | tail -1)"
  fi
done
git -C /repo worktree remove --force "$WT"
rm -rf "$W" "$VR"
